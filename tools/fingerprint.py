#!/venv/bin/python
"""tools/fingerprint.py Cxx [...]  — record the fingerprints of the mirrored functions (harness MIRRORS) from /repo now."""
import sys, os, importlib
sys.path.insert(0, os.path.dirname(os.path.dirname(os.path.abspath(__file__))))
from harness import fingerprint
for pid in sys.argv[1:]:
    mod = importlib.import_module("harness." + pid.lower())
    m = fingerprint.mirrors_for(pid.upper(), mod)
    if not m:
        print(pid, "no MIRRORS"); continue
    fingerprint.update(pid.upper(), m)
    cur = fingerprint.current(m)
    bad = [k for k, v in cur.items() if v in ("missing",) or v.startswith("error")]
    print(pid, len(cur), "functions", ("MISSING: %s" % bad) if bad else "")
