#!/bin/bash
# tools/integrate.sh <g>  — integrator's aid: merge builder branch <g> into /verif main and cherry-pick the
# fix: commits of fix-<g> into /repo main (skipping those already picked).  Generated files are regenerated.
set -u
g=$1
cd /verif || exit 2
git merge --no-edit $g 2>&1 | tail -3
# generated files: take ours then regenerate
for f in MANIFEST.json known_findings.json $(git diff --name-only --diff-filter=U | grep '^evidence/'); do
  if git diff --name-only --diff-filter=U | grep -qx $f; then git checkout --ours $f; git add $f; fi
done
for f in $(git diff --name-only --diff-filter=U | grep '^fingerprints/'); do git checkout --theirs $f; git add $f; done
if git diff --name-only --diff-filter=U | grep -q .; then echo "UNRESOLVED:"; git diff --name-only --diff-filter=U; exit 1; fi
git commit --no-edit -q 2>/dev/null
tools/gen_manifest.py
git add -A MANIFEST.json known_findings.json; git commit -qm "regenerate MANIFEST.json / known_findings.json after merging $g" 2>/dev/null
cd /repo
for c in $(git log --reverse --format=%h main..fix-$g); do
  subj=$(git log -1 --format=%s $c)
  if git log --format=%s main | grep -qxF "$subj"; then echo "already picked: $subj"; continue; fi
  case "$subj" in fix:*) git show $c -- python | git apply --index && git commit -q -m "$(git log -1 --format=%B $c)" && echo "picked $c $subj" || { echo "CONFLICT picking $c $subj"; git checkout -q -- .; };; *) echo "skipping non-fix commit $c $subj";; esac
done
