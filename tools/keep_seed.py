#!/usr/bin/env python3
"""tools/keep_seed.py Cxx mN "<what it breaks>" "<what it needs to manifest>" "<detection note>" — keep a confirmed seeded change."""
import json, os, shutil, sys
HERE = os.path.dirname(os.path.dirname(os.path.abspath(__file__)))
P, M, breaks, needs, note = sys.argv[1:6]
W = sys.argv[6] if len(sys.argv) > 6 else P            # worktree name under /tmp/seed (round 2: Cxxb)
SID = sys.argv[7] if len(sys.argv) > 7 else "%s-%s" % (P, M)
src = "/tmp/seed/%s/out/%s" % (W, M)
dst = os.path.join(HERE, "seeded", SID)
os.makedirs(dst, exist_ok=True)
for f in ("patch.diff", "demo.py", "README.md"):
    shutil.copy(os.path.join(src, f), os.path.join(dst, f))
meta = {"id": SID, "property": P, "breaks": breaks, "needs_to_manifest": needs,
        "origin": "independent sub-agent given only the property text and a scratch worktree of eups (no access to /verif)",
        "base_commit": os.popen("git -C /tmp/seed/%s rev-parse --short HEAD" % W).read().strip(),
        "confirmed": {"by": "tools/confirm_seed.sh %s %s (scratch worktree /tmp/seed/%s)" % (W, M, W),
                      "demo_exit_unchanged": 0, "demo_exit_patched": 1, "baseline_with_patch": "100 passed, the same 20 known failures"},
        "detection": note}
json.dump(meta, open(os.path.join(dst, "meta.json"), "w"), indent=1, ensure_ascii=False)
print("kept", dst)
