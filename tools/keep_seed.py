#!/usr/bin/env python3
"""tools/keep_seed.py Cxx mN "<what it breaks>" "<what it needs to manifest>" "<detection note>" — keep a confirmed seeded change."""
import json, os, shutil, sys
HERE = os.path.dirname(os.path.dirname(os.path.abspath(__file__)))
P, M, breaks, needs, note = sys.argv[1:6]
src = "/tmp/seed/%s/out/%s" % (P, M)
dst = os.path.join(HERE, "seeded", "%s-%s" % (P, M))
os.makedirs(dst, exist_ok=True)
for f in ("patch.diff", "demo.py", "README.md"):
    shutil.copy(os.path.join(src, f), os.path.join(dst, f))
meta = {"id": "%s-%s" % (P, M), "property": P, "breaks": breaks, "needs_to_manifest": needs,
        "origin": "independent sub-agent given only the property text and a scratch worktree of eups (no access to /verif)",
        "base_commit": os.popen("git -C /tmp/seed/%s rev-parse --short HEAD" % P).read().strip(),
        "confirmed": {"by": "tools/confirm_seed.sh %s %s (scratch worktree /tmp/seed/%s)" % (P, M, P),
                      "demo_exit_unchanged": 0, "demo_exit_patched": 1, "baseline_with_patch": "100 passed, the same 20 known failures"},
        "detection": note}
json.dump(meta, open(os.path.join(dst, "meta.json"), "w"), indent=1, ensure_ascii=False)
print("kept", dst)
