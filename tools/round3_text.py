#!/venv/bin/python
"""tools/round3_text.py — fill the measured numbers into docs/round3.md and put the text into DESIGN.md §11, between the
ROUND3 markers, right before the generated as-built tables (idempotent)."""
import glob, json, os, re, subprocess, sys
HERE = os.path.dirname(os.path.dirname(os.path.abspath(__file__)))
c = {"full": 0, "partial": 0, "neg": 0}
for f in glob.glob(os.path.join(HERE, "index", "C*.json")):
    for t in json.load(open(f))["theorems"]:
        st = t.get("status", "")
        c["full" if st.startswith("full") else "partial" if st.startswith("partial") else "neg"] += 1
nopen = 0
for f in glob.glob(os.path.join(HERE, "findings", "C*.json")):
    nopen += sum(1 for x in json.load(open(f))["findings"] if x["status"] == "open")
def lines(pat):
    return sum(len(open(f, errors="replace").read().splitlines()) for f in glob.glob(os.path.join(HERE, pat), recursive=True))
fixes = int(subprocess.run("git -C /repo log --oneline | grep -c ' fix:'", shell=True, capture_output=True, text=True).stdout or 0)
res = json.load(open(os.path.join(HERE, "seeded", "RESULTS.json")))
first = json.load(open(os.path.join(HERE, "seeded", "RESULTS_3b_first_pass.json"))) if os.path.exists(os.path.join(HERE, "seeded", "RESULTS_3b_first_pass.json")) else {}
ids = sorted(d for d in os.listdir(os.path.join(HERE, "seeded")) if os.path.isdir(os.path.join(HERE, "seeded", d)))
r3b = [i for i in ids if re.search(r"-m[89]$", i)]
caught = lambda r: bool(r and r.get("caught"))
vals = {
    "THEOREMS": sum(c.values()), "FULL": c["full"], "PARTIAL": c["partial"], "NEG": c["neg"], "OPEN": nopen,
    "LEANLINES": "%.1f" % (lines("lean/EupsModel/**/*.lean") / 1000.0), "PYLINES": "%.1f" % (lines("harness/*.py") / 1000.0),
    "FIXES": fixes, "NSEEDS": len(ids),
    "R3B_FIRST": sum(1 for i in r3b if caught(first.get(i))), "R3B_FINAL": sum(1 for i in r3b if caught(res.get(i))),
    "CAUGHT": sum(1 for i in ids if caught(res.get(i)) and res[i].get("demo_exit_patched", 1) == 1),
    "MISSED": sum(1 for i in ids if res.get(i) and res[i].get("applies") and res[i].get("demo_exit_patched") == 1 and not caught(res[i])),
    "THOROUGH": re.search(r'"thorough": (\d+)', open(os.path.join(HERE, "check")).read()).group(1),
}
txt = open(os.path.join(HERE, "docs", "round3.md")).read()
for k, v in vals.items():
    txt = txt.replace("@%s@" % k, str(v))
left = re.findall(r"@[A-Z0-9_]+@", txt)
if left:
    print("unfilled:", left); sys.exit(1)
B, E = "<!-- ROUND3:BEGIN (text from docs/round3.md, numbers filled in by tools/round3_text.py) -->", "<!-- ROUND3:END -->"
d = open(os.path.join(HERE, "DESIGN.md")).read()
block = B + "\n\n" + txt.strip() + "\n\n" + E + "\n\n"
if B in d:
    d = re.sub(re.escape(B) + r".*?" + re.escape(E) + r"\n\n", lambda m: block, d, flags=re.S)
else:
    d = d.replace("<!-- AS-BUILT:BEGIN", block + "<!-- AS-BUILT:BEGIN", 1)
open(os.path.join(HERE, "DESIGN.md"), "w").write(d)
print(vals)
