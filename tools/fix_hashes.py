#!/usr/bin/env python3
"""Rewrite 'fixed: <hash>' in findings/*.json to the hash the same commit (by subject) has on /repo's main line."""
import json, glob, os, subprocess
HERE = os.path.dirname(os.path.dirname(os.path.abspath(__file__)))
def sh(c): return subprocess.run(c, shell=True, stdout=subprocess.PIPE, stderr=subprocess.DEVNULL, text=True).stdout
main = {}
for ln in sh("git -C /repo log --format='%h%x09%s' main").splitlines():
    h, s = ln.split("\t", 1); main[s] = h
mainset = set(main.values())
for fp in sorted(glob.glob(os.path.join(HERE, "findings", "*.json"))):
    d = json.load(open(fp)); ch = False
    for f in d["findings"]:
        if f["status"].startswith("fixed: "):
            h = f["status"].split()[1]
            full = sh("git -C /repo rev-parse --short=7 %s" % h).strip()
            if full in mainset:
                continue
            subj = sh("git -C /repo log -1 --format=%%s %s" % h).strip()
            if subj in main:
                f["status"] = "fixed: " + main[subj]; ch = True
            else:
                print("UNMAPPED", os.path.basename(fp), f["id"], h, subj[:60])
    if ch:
        json.dump(d, open(fp, "w"), indent=1, ensure_ascii=False)
        print("rewrote", os.path.basename(fp))
