#!/venv/bin/python
"""tools/run_all.py [--tier quick] [--seeds 0,1,2] [ids...] — run the registered checks sequentially (developer aid)."""
import json, os, subprocess, sys, time
HERE = os.path.dirname(os.path.dirname(os.path.abspath(__file__)))
tier, seeds, ids = "quick", [0], []
it = iter(sys.argv[1:])
for a in it:
    if a == "--tier": tier = next(it)
    elif a == "--seeds": seeds = [int(x) for x in next(it).split(",")]
    else: ids.append(a.upper())
man = json.load(open(os.path.join(HERE, "MANIFEST.json")))
ids = ids or [c["property_id"] for c in man["checks"]]
bad = 0
for pid in ids:
    for s in seeds:
        t0 = time.time()
        p = subprocess.run(["./check", pid, "--tier", tier, "--seed", str(s)], cwd=HERE, stdout=subprocess.PIPE, stderr=subprocess.STDOUT, text=True)
        last = [l for l in p.stdout.strip().splitlines() if l][-1:] or [""]
        flag = "" if p.returncode == 0 else "  <<<<<< exit %d" % p.returncode
        bad += p.returncode != 0
        print("%s seed=%d %.0fs %s%s" % (pid, s, time.time() - t0, last[0][:160], flag), flush=True)
        if p.returncode != 0:
            print("\n".join(p.stdout.splitlines()[-15:]))
sys.exit(1 if bad else 0)
