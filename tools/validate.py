#!/usr/local/bin/python3-vt
"""Validate MANIFEST.json and every evidence file against the schemas in /root/.vp (developer aid)."""
import json, os, sys, jsonschema
HERE = os.path.dirname(os.path.dirname(os.path.abspath(__file__)))
man = json.load(open(os.path.join(HERE, "MANIFEST.json")))
jsonschema.validate(man, json.load(open("/root/.vp/MANIFEST.schema.json")))
es = json.load(open("/root/.vp/EVIDENCE.schema.json"))
bad = 0
props = {json.loads(l)["id"] for l in open(os.path.join(HERE, "properties.jsonl")) if l.strip()}
claimed = {c["property_id"] for c in man["checks"]}
na = {c["property_id"] for c in man.get("not_applicable", [])}
assert claimed | na == props and not (claimed & na), (claimed, na)
for c in man["checks"]:
    p = os.path.join(HERE, "evidence", c["property_id"] + ".json")
    if not os.path.exists(p):
        print("MISSING evidence", c["property_id"]); bad += 1; continue
    ev = json.load(open(p))
    try:
        jsonschema.validate(ev, es)
        cov = ev["coverage"]
        assert ev["level"] == c["level_claimed"]["category"]
        assert cov["obligations"] == cov["discharged"], "undischarged obligations"
        print("ok", c["property_id"], ev["tier"], "seed", ev["seed"], "oblig", cov["obligations"], "evals", cov["evaluations"],
              "distinct", cov["distinct_nontrivial"], "viol", ev.get("violations"), "wall", ev["wall_s"])
    except Exception as e:
        print("INVALID", c["property_id"], str(e)[:300]); bad += 1
sys.exit(1 if bad else 0)
