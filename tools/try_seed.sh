#!/bin/bash
# tools/try_seed.sh <g> <seed-id> [seed]  — integrator's aid: run a seeded change against a builder's branch
# (framework worktree /root/work/<g>/verif, eups branch fix-<g>) without touching /repo or /verif.
g=$1; sid=$2; seed=${3:-0}; P=${sid%%-*}
W=/tmp/seed/try-$g-$sid
git -C /repo worktree add -q --detach $W fix-$g || exit 2
pf=/verif/seeded/$sid/patch.rebased.diff; [ -f $pf ] || pf=/verif/seeded/$sid/patch.diff
if ! git -C $W apply -3 $pf 2>/dev/null; then echo "$sid: PATCH DOES NOT APPLY on fix-$g"; git -C /repo worktree remove --force $W; exit 3; fi
git -C $W reset -q
EUPS_SHELL=sh EUPS_FLAVOR=Linux /venv/bin/python -X pycache_prefix=/tmp/seed/.pyc-try-$$ /verif/seeded/$sid/demo.py $W >/dev/null 2>&1; echo "$sid demo exit on patched fix-$g: $?"
cd /root/work/$g/verif && cp evidence/$P.json /tmp/seed/.ev-$g-$P.json
EUPS_REPO=$W ./check $P --seed $seed 2>&1 | grep -v WARNING | grep -E 'VIOLATION|INFRA|^C[0-9]+ quick' | cut -c1-220 | head -6
cp /tmp/seed/.ev-$g-$P.json evidence/$P.json; rm -rf /tmp/seed/.pyc-try-$$ /tmp/seed/.ev-$g-$P.json
git -C /repo worktree remove --force $W
