#!/usr/bin/env python3
"""Regenerate MANIFEST.json from meta/Cxx.json (one file per claimed property) and properties.jsonl.
A property without a meta file is listed under not_applicable with the reason in meta/_unclaimed.json
(or a generic 'not built yet')."""
import json, os, sys
HERE = os.path.dirname(os.path.dirname(os.path.abspath(__file__)))
props = [json.loads(l)["id"] for l in open(os.path.join(HERE, "properties.jsonl")) if l.strip()]
unclaimed = {}
p = os.path.join(HERE, "meta", "_unclaimed.json")
if os.path.exists(p):
    unclaimed = json.load(open(p))
checks, na = [], []
for pid in props:
    mp = os.path.join(HERE, "meta", pid + ".json")
    if not os.path.exists(mp):
        na.append({"property_id": pid, "reason": unclaimed.get(pid, "check not built yet in this round (design: DESIGN.md section 6); nothing is claimed")})
        continue
    m = json.load(open(mp))
    checks.append({
        "property_id": pid,
        "quick_cmd": "./check %s --tier quick" % pid,
        "thorough_cmd": "./check %s --tier thorough" % pid,
        "evidence_file": "/verif/evidence/%s.json" % pid,
        "replay_cmd_template": "./check %s --replay {path}" % pid,
        "engine": "lean-proof+correspondence",
        "level_claimed": {"category": "proof", "text": m["level_text"], "design_ref": m.get("design_ref", "DESIGN.md §6 " + pid)},
        "level_note": m["level_note"],
        "technique": m.get("technique", "Lean 4 theorems about an executable model + differential correspondence with the Python code"),
    })
hooks = json.load(open(os.path.join(HERE, "meta", "_hooks.json")))
man = {
    "version": 1,
    "setup_cmd": "cd lean && lake build EupsModel driver",
    "hooks": hooks,
    "engines": [{"name": "lean-proof+correspondence", "path": "check",
                 "serves_properties": [c["property_id"] for c in checks],
                 "kind_free_text": "Lean 4.33 kernel-checked theorems about hand-written executable models (lean/EupsModel); "
                                   "each run re-checks the theorems' axioms and runs the models' executable definitions against "
                                   "the Python implementation in /repo on generated inputs (harness/*.py, lean/Driver.lean)"}],
    "checks": checks,
    "not_applicable": na,
    "notes": "Every check: exit 0 held / exit 1 with VIOLATION line / exit 2 infrastructure error. Known findings: known_findings.json. "
             "Seeded changes used to validate the checks: seeded/. Design and trusted base: DESIGN.md.",
}
json.dump(man, open(os.path.join(HERE, "MANIFEST.json"), "w"), indent=1, ensure_ascii=False)
# known_findings.json = concatenation of findings/Cxx.json (one file per property, edited by hand)
allf = []
for pid in props:
    fp = os.path.join(HERE, "findings", pid + ".json")
    if os.path.exists(fp):
        for f in json.load(open(fp))["findings"]:
            assert f["property"] == pid and f["status"] == "open" or f["status"].startswith("fixed: "), f
            allf.append(f)
json.dump({"comment": "Genuine defects of RobertLuptonTheGood/eups found by the checks (assembled from findings/Cxx.json by "
           "tools/gen_manifest.py). status 'open' = recorded, not repaired: the check prints KNOWN-FINDING and exits 0 for inputs "
           "in the class, provided the model of the registered tree reproduces the implementation's output. "
           "status 'fixed: <commit>' suppresses nothing. Read-only at run time.",
           "findings": allf}, open(os.path.join(HERE, "known_findings.json"), "w"), indent=1, ensure_ascii=False)
print("claimed:", [c["property_id"] for c in checks], "unclaimed:", [x["property_id"] for x in na])
