#!/bin/bash
# tools/seed3.sh Cxx id "breaks" "needs"  — confirm, keep and run a round-3 seed from /tmp/seed/Cxxc/out/m1
P=$1; ID=$2
tools/confirm_seed.sh ${P}c m1 2>&1 | head -1; git -C /tmp/seed/${P}c checkout -q -- .
tools/keep_seed.py $P m1 "$3" "$4" "pending" ${P}c $ID >/dev/null
tools/run_seeded.py $ID 2>&1 | cut -c1-170
