#!/venv/bin/python
"""tools/run_seeded_par.py [id ...] — run_seeded.py for several seeded changes side by side, one worker per property
(each with its own scratch worktree /tmp/seed/apply-Cxx and its own results file), then merge into seeded/RESULTS.json."""
import json, os, subprocess, sys
HERE = os.path.dirname(os.path.dirname(os.path.abspath(__file__)))
sd = os.path.join(HERE, "seeded")
ids = [a for a in sys.argv[1:] if not a.startswith("--")] or sorted(d for d in os.listdir(sd) if os.path.isdir(os.path.join(sd, d)))
jobs = int(os.environ.get("SEED_JOBS", "6"))
by = {}
for i in ids:
    by.setdefault(i.split("-")[0], []).append(i)
procs, pending, res = {}, sorted(by), {}
def start(p):
    env = dict(os.environ, SEED_APPLY="/tmp/seed/apply-" + p, SEED_RESULTS=os.path.join(HERE, ".work", "seedres-%s.json" % p))
    if os.path.exists(env["SEED_RESULTS"]): os.remove(env["SEED_RESULTS"])
    return subprocess.Popen([os.path.join(HERE, "tools", "run_seeded.py")] + by[p], env=env, cwd=HERE)
while pending or procs:
    while pending and len(procs) < jobs:
        p = pending.pop(0); procs[p] = start(p)
    for p, pr in list(procs.items()):
        try:
            pr.wait(timeout=2)
        except subprocess.TimeoutExpired:
            continue
        del procs[p]
        f = os.path.join(HERE, ".work", "seedres-%s.json" % p)
        if os.path.exists(f):
            res.update(json.load(open(f))); os.remove(f)
        subprocess.run("git -C /repo worktree remove --force /tmp/seed/apply-%s" % p, shell=True)
resp = os.path.join(sd, "RESULTS.json")
allr = json.load(open(resp)) if os.path.exists(resp) else {}
allr.update(res)
json.dump(allr, open(resp, "w"), indent=1, sort_keys=True)
print("caught %d / %d" % (sum(1 for r in res.values() if r.get("caught")), len(res)))
for k, r in sorted(res.items()):
    if not r.get("caught"): print("NOT CAUGHT:", k, r.get("applies"), r.get("demo_exit_patched"))
