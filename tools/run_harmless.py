#!/venv/bin/python
"""tools/run_harmless.py [id ...]  — validation aid: applies each behaviour-preserving refactoring under
harmless/<id>/patch.diff to a scratch worktree of /repo, runs the quick check of every property whose mirrored
files the patch touches, and records the outcome (expected: exit 0, no VIOLATION line).  Writes harmless/RESULTS.json."""
import json, os, re, shutil, subprocess, sys, time
HERE = os.path.dirname(os.path.dirname(os.path.abspath(__file__)))
REPO = "/tmp/seed/apply"
def sh(cmd, **kw):
    return subprocess.run(cmd, shell=True, stdout=subprocess.PIPE, stderr=subprocess.STDOUT, text=True, **kw)
if not os.path.isdir(REPO):
    sh("git -C /repo worktree add -q --detach %s HEAD" % REPO)
sh("git -C %s checkout -q --detach $(git -C /repo rev-parse HEAD) && git -C %s checkout -q HEAD -- ." % (REPO, REPO))
os.environ["EUPS_REPO"] = REPO
hd = os.path.join(HERE, "harmless")
ids = [a for a in sys.argv[1:]] or sorted(d for d in os.listdir(hd) if os.path.isdir(os.path.join(hd, d)))
mirrors = json.load(open(os.path.join(HERE, "fingerprints", "mirrors.json")))
mirrors["C12"] = [["python/eups/table.py", "x"], ["python/eups/Eups.py", "x"]]
bak = os.path.join(HERE, ".work", "evidence.bak2")
shutil.rmtree(bak, ignore_errors=True); os.makedirs(os.path.dirname(bak), exist_ok=True)
shutil.copytree(os.path.join(HERE, "evidence"), bak)
rp = os.path.join(hd, "RESULTS.json")
results = json.load(open(rp)) if os.path.exists(rp) else {}
for hid in ids:
    d = os.path.join(hd, hid)
    patch = os.path.join(d, "patch.rebased.diff")      # the same restructuring re-expressed on the current tree (after fix: commits)
    if not os.path.exists(patch) or sh("git -C %s apply --check %s" % (REPO, patch)).returncode != 0:
        patch = os.path.join(d, "patch.diff")
    files = set(re.findall(r"^\+\+\+ b/(\S+)", open(patch).read(), re.M))
    props = sorted(p for p, ms in mirrors.items() if any(m[0] in files for m in ms))
    only = os.environ.get("ONLY")
    prev = {x["property"]: x for x in results.get(hid, {}).get("runs", [])} if only else {}
    if only:
        props = [p for p in props if p in only.split(",")]
    r = sh("git -C %s apply -3 %s" % (REPO, patch)); sh("git -C %s reset -q" % REPO)
    if r.returncode != 0:
        sh("git -C %s checkout -q HEAD -- ." % REPO); print(hid, "PATCH DOES NOT APPLY"); results[hid] = {"applies": False}; continue
    try:
        t = sh("cd %s && /venv/bin/python -m pytest -q -p no:cacheprovider --timeout=900 --continue-on-collection-errors 2>&1 | tail -1" % REPO).stdout.strip()
        row = {"applies": True, "files": sorted(files), "baseline": t, "runs": []}
        for pid in props:
            t0 = time.time()
            c = sh("./check %s --tier quick --seed 0" % pid, cwd=HERE)
            viol = [l for l in c.stdout.splitlines() if l.startswith("VIOLATION")]
            row["runs"].append({"property": pid, "exit": c.returncode, "violations": viol[:2], "wall_s": round(time.time() - t0, 1)})
            print(hid, pid, "exit", c.returncode, (viol[0] if viol else "ok"), "%.0fs" % (time.time() - t0), flush=True)
        if prev:
            for x in row["runs"]:
                prev[x["property"]] = x
            row["runs"] = [prev[k] for k in sorted(prev)]
        row["alarms"] = [x["property"] for x in row["runs"] if x["exit"] != 0]
        results[hid] = row
    finally:
        sh("git -C %s checkout -q HEAD -- ." % REPO)
json.dump(results, open(rp, "w"), indent=1, sort_keys=True)
shutil.rmtree(os.path.join(HERE, "evidence")); shutil.copytree(bak, os.path.join(HERE, "evidence"))
