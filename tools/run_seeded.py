#!/venv/bin/python
"""tools/run_seeded.py [id ...] [--tier quick|thorough] [--seeds 0,1]
Validation aid (not a registered check): applies each seeded change under seeded/<id>/patch.diff to /repo, runs the
check(s) of the property it breaks, records whether a VIOLATION was reported, and restores /repo (git checkout -- .).
Writes seeded/RESULTS.json."""
import json, os, subprocess, sys, time
HERE = os.path.dirname(os.path.dirname(os.path.abspath(__file__)))
REPO = "/tmp/seed/apply"      # scratch worktree of /repo at its HEAD: /repo itself stays untouched while background runs use it
import subprocess as _sp
if not os.path.isdir(REPO):
    _sp.run("git -C /repo worktree add -q --detach %s HEAD" % REPO, shell=True, check=True)
_sp.run("git -C %s checkout -q --detach $(git -C /repo rev-parse HEAD) && git -C %s checkout -q HEAD -- ." % (REPO, REPO), shell=True, check=True)
os.environ["EUPS_REPO"] = REPO
args = [a for a in sys.argv[1:] if not a.startswith("--")]
tier = "quick"; seeds = [0]
for i, a in enumerate(sys.argv):
    if a == "--tier": tier = sys.argv[i + 1]; args = [x for x in args if x != tier]
    if a == "--seeds": seeds = [int(x) for x in sys.argv[i + 1].split(",")]; args = [x for x in args if x != sys.argv[i + 1]]
sd = os.path.join(HERE, "seeded")
ids = args or sorted(d for d in os.listdir(sd) if os.path.isdir(os.path.join(sd, d)))
def sh(cmd, **kw):
    return subprocess.run(cmd, shell=True, stdout=subprocess.PIPE, stderr=subprocess.STDOUT, text=True, **kw)
dirty = sh("git -C %s status --porcelain --untracked-files=no" % REPO).stdout.strip()
if dirty:
    print("refusing: /repo has uncommitted changes:\n" + dirty); sys.exit(2)
import shutil
bak = os.path.join(HERE, ".work", "evidence.bak")
shutil.rmtree(bak, ignore_errors=True); os.makedirs(os.path.dirname(bak), exist_ok=True)
shutil.copytree(os.path.join(HERE, "evidence"), bak)      # runs on a mutated tree must not leave their evidence behind
resp = os.path.join(sd, "RESULTS.json")
results = json.load(open(resp)) if os.path.exists(resp) else {}
for sid in ids:
    d = os.path.join(sd, sid)
    meta = json.load(open(os.path.join(d, "meta.json")))
    props = meta["property"] if isinstance(meta["property"], list) else [meta["property"]]
    pf = os.path.join(d, "patch.rebased.diff")       # the same change re-expressed on the current tree (after fix: commits)
    if not os.path.exists(pf):
        pf = os.path.join(d, "patch.diff")
    r = sh("git -C %s apply -3 %s" % (REPO, pf))
    sh("git -C %s reset -q" % REPO)        # -3 stages the result; keep it in the working tree only
    if r.returncode != 0:
        sh("git -C %s checkout -q HEAD -- ." % REPO)
        print(sid, "PATCH DOES NOT APPLY:", r.stdout[-200:].replace("\n", " ")); results[sid] = {"applies": False}; continue
    try:
        row = {"applies": True, "tier": tier, "runs": []}
        # the seeder's own demonstration must still fail on the tree the patch produced (3-way application on a tree
        # with later fix: commits can silently turn a change into a harmless one)
        dm = sh("EUPS_SHELL=sh EUPS_FLAVOR=Linux /venv/bin/python -X pycache_prefix=%s/.work/pyc-demo %s %s"
                % (HERE, os.path.join(d, "demo.py"), REPO), timeout=900)
        row["demo_exit_patched"] = dm.returncode
        if dm.returncode != 1:
            print(sid, "WARNING: demo exit %d on the patched tree (expected 1): the applied change may have become harmless" % dm.returncode)
        for pid in props:
            for seed in seeds:
                t0 = time.time()
                c = sh("./check %s --tier %s --seed %d" % (pid, tier, seed), cwd=HERE)
                viol = [l for l in c.stdout.splitlines() if l.startswith("VIOLATION")]
                signals = []
                for v in viol[:5]:
                    try:
                        rp = json.load(open(os.path.join(HERE, v.split("replay=")[1].split()[0])))
                        signals.append(rp.get("clause") or rp.get("correspondence") or rp.get("kind"))
                    except Exception:
                        pass
                row["runs"].append({"property": pid, "seed": seed, "exit": c.returncode, "violations": viol[:3], "signals": signals,
                                    "nfi": any("no-failing-input-found" in v for v in viol), "wall_s": round(time.time() - t0, 1)})
                print(sid, pid, "seed", seed, "exit", c.returncode, (viol[0] if viol else c.stdout.strip().splitlines()[-1][:150]))
        row["caught"] = any(x["exit"] == 1 and x["violations"] for x in row["runs"])
        results[sid] = row
    finally:
        sh("git -C %s checkout -q HEAD -- ." % REPO)
json.dump(results, open(resp, "w"), indent=1, sort_keys=True)
shutil.rmtree(os.path.join(HERE, "evidence")); shutil.copytree(bak, os.path.join(HERE, "evidence"))
