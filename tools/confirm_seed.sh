#!/bin/bash
# tools/confirm_seed.sh Cxx mN  — confirm a seeder's deliverable in its own scratch worktree (/tmp/seed/Cxx):
# demo passes on the unchanged tree, fails with the patch; baseline suite still 100 passed with the patch.
set -u
P=$1; M=$2; WT=/tmp/seed/$P; OUT=$WT/out/$M
cd $WT || exit 2
git checkout -q -- . ; find . -name __pycache__ -type d -prune -exec rm -rf {} + 2>/dev/null
export EUPS_SHELL=sh EUPS_FLAVOR=Linux; unset EUPS_PATH EUPS_DIR EUPS_USERDATA
/venv/bin/python -X pycache_prefix=/tmp/seed/.pyc-$$ $OUT/demo.py $WT >/tmp/seed/.demo0 2>&1; D0=$?
git apply --check $OUT/patch.diff || { echo "patch does not apply"; exit 2; }
git apply $OUT/patch.diff
find . -name __pycache__ -type d -prune -exec rm -rf {} + 2>/dev/null
/venv/bin/python -X pycache_prefix=/tmp/seed/.pyc-$$ $OUT/demo.py $WT >/tmp/seed/.demo1 2>&1; D1=$?
T=$(/venv/bin/python -m pytest -q -p no:cacheprovider --timeout=900 --continue-on-collection-errors 2>&1 | tail -1)
echo "$P/$M demo unchanged=$D0 patched=$D1 tests: $T"
echo "lines changed: $(grep -c '^[-+][^-+]' $OUT/patch.diff)"
tail -3 /tmp/seed/.demo1
rm -rf /tmp/seed/.pyc-$$
# leave the patch applied for the caller to run checks with EUPS_REPO=$WT; caller restores with git checkout -- .
