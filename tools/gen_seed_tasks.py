#!/venv/bin/python
"""tools/gen_seed_tasks.py <suffix> [emphasis-file] — write /tmp/seed/Cxx<suffix>/out/TASK.md for every property: the brief
given to an independent seeding sub-agent (property text + scratch worktree only; nothing from /verif except the one-line
descriptions of changes already used, so that it looks for other mechanisms)."""
import glob, json, os, sys
HERE = os.path.dirname(os.path.dirname(os.path.abspath(__file__)))
suffix = sys.argv[1]
emphasis = open(sys.argv[2]).read() if len(sys.argv) > 2 else ""
props = {}
for l in open(os.path.join(HERE, "properties.jsonl")):
    p = json.loads(l); props[p["id"]] = p
prev = {}
for m in sorted(glob.glob(os.path.join(HERE, "seeded", "*", "meta.json"))):
    d = json.load(open(m)); pid = d["property"] if isinstance(d["property"], str) else d["property"][0]
    prev.setdefault(pid, []).append(d["breaks"])
T = '''# Task: two realistic breaking changes for one property of eups

You are helping to validate a verification effort *indirectly*: you produce realistic defects, someone else later
checks whether their verification machinery notices them.  You must therefore work independently.

## Where you work
Your private scratch git worktree of eups (Python; sources under `python/eups/`, tests under `tests/`) is

    {wt}

Work ONLY inside it.  Do NOT read, list or touch `/verif`, `/root/work`, `/repo`, `/root/.claude`, or any other directory under
`/tmp/seed/`.  No network.  Python is `/venv/bin/python` (3.12).

## The property (this is all you are given)
**{pid} — {title}**

{statement}

Code the property is anchored in (from the property's own description): {files}

## What to deliver
TWO different changes to eups, `m1` and `m2`, each of which **breaks the property** while eups still imports/compiles and the
existing test suite still passes.  They must be in different functions / mechanisms.  For each, write into `{wt}/out/mN/`:

* `patch.diff` — `git diff` against HEAD (unified; touching only files under `python/eups/`; must apply with
  `git apply out/mN/patch.diff` from the worktree root on a clean tree).  Keep it small: ideally 1–15 changed lines, never
  more than 40.
* `demo.py` — a self-contained demonstration, run as `/venv/bin/python out/mN/demo.py {wt}` (argv[1] = root of the eups
  tree to test).  It must insert `argv[1]/python` at the front of `sys.path`, build whatever scratch stacks / files it needs
  in a fresh `tempfile.mkdtemp()` directory (and remove it afterwards), set the environment it needs itself (it is started
  with EUPS_SHELL=sh EUPS_FLAVOR=Linux and with EUPS_PATH, EUPS_DIR, EUPS_USERDATA unset; set `EUPS_USERDATA` to a scratch
  directory so nothing is written to the home directory), exercise the real eups code, and **exit 0 when the property holds and
  exit 1 when it is violated**, printing what it observed.  It must exit 0 on the unchanged tree and 1 with your patch applied.
  Use `sys.dont_write_bytecode = True`.
* `README.md` — what the change is, why it looks like a plausible developer edit (refactoring slip, "clean-up", optimisation,
  caching, wrong variable, off-by-one, reordered effects, aliasing, over- or under-escaped pattern, two sites that each look
  fine alone, ...), and exactly what it needs in order to manifest.

## Requirements on the changes
* They must need **something specific to manifest** — a particular interleaving, a crash or fault at a particular point, a
  multi-step sequence of operations, an unusual input, a particular combination of options, or two cooperating sites that each
  look fine alone — NOT something ordinary use would expose at once.  Subtle and realistic beats dramatic.
* The existing suite must still pass with each change applied (one at a time):
  `cd {wt} && /venv/bin/python -m pytest -q -p no:cacheprovider --timeout=900 --continue-on-collection-errors 2>&1 | tail -3`
  must end with `100 passed` (and the same 20 failures as on the unchanged tree — those 20 fail without any change; check the
  unchanged tree first so you know the baseline).
* The change must genuinely violate the property *as stated above* (not merely change behaviour the property does not talk about),
  and the unchanged tree must genuinely satisfy what your demo checks.
* Do not add test files, do not edit tests, do not touch anything outside `python/eups/`.
{emphasis}* Earlier rounds already used the following changes for this property — do NOT repeat them or trivial variants; find other
  mechanisms:
{prev}

## Procedure
1. Read the anchored code closely; find mechanisms whose correctness the property relies on.
2. For each change: edit, run your demo (must exit 1), run the suite (100 passed), save `git diff > out/mN/patch.diff`, then
   `git checkout -- .` and check the demo exits 0 on the clean tree, then `git apply --check out/mN/patch.diff`.
3. Leave the worktree clean (`git status` shows only `out/` untracked).  Remove any scratch directories you created under /tmp.
4. Final message (short): for each of m1, m2 — one paragraph: what breaks, what it needs to manifest, files/functions touched.
'''
for pid, p in props.items():
    wt = "/tmp/seed/%s%s" % (pid, suffix)
    if not os.path.isdir(wt):
        continue
    os.makedirs(wt + "/out", exist_ok=True)
    txt = T.format(wt=wt, pid=pid, title=p["title"], statement=p["statement"], files=", ".join(p["anchors"]["files"]),
                   emphasis=emphasis, prev="\n".join("  - " + b for b in prev.get(pid, [])))
    open(wt + "/out/TASK.md", "w").write(txt)
    print("wrote", wt + "/out/TASK.md")
