#!/venv/bin/python
"""Developer aid: run a harness once and summarise failures/disagreements by clause (not a registered check)."""
import sys, os, importlib, collections, json
sys.path.insert(0, os.path.dirname(os.path.dirname(os.path.abspath(__file__))))
from harness import common, leanbridge
from harness.common import Ctx
pid = sys.argv[1].upper(); n = int(sys.argv[2]) if len(sys.argv) > 2 else 3
seed = int(os.environ.get("VERIF_SEED", "0"))
mod = importlib.import_module("harness." + pid.lower())
ok, log = leanbridge.build()
if not ok: print(log[-3000:]); sys.exit(2)
common.import_eups()
ctx = Ctx(pid, os.environ.get("VERIF_TIER", "quick"), seed, float(os.environ.get("BUDGET", "240")))
with leanbridge.Driver() as d:
    ctx.lean = d
    mod.run(ctx)
print("evaluations", ctx.evaluations, "distinct", ctx.distinct_nontrivial)
c = collections.Counter((f["clause"], f["finding_class"]) for f in ctx.failures)
print("FAILURES", dict(c))
seen = collections.Counter()
for f in ctx.failures:
    k = (f["clause"], f["finding_class"])
    seen[k] += 1
    if seen[k] <= n:
        print("  FAIL", k, f["note"]); print("     in:", json.dumps(f["input"], default=repr)[:600]); print("     impl:", json.dumps(f["impl_output"], default=repr)[:300]); print("     model:", json.dumps(f["model_output"], default=repr)[:300])
c = collections.Counter(d["observable"] for d in ctx.disagreements)
print("DISAGREEMENTS", dict(c))
for d in ctx.disagreements[:n]:
    print("  DIS", d["observable"], d.get("note","")); print("     in:", json.dumps(d["input"], default=repr)[:600]); print("     impl:", json.dumps(d["impl_output"], default=repr)[:300]); print("     model:", json.dumps(d["model_output"], default=repr)[:300])
print("HIST", json.dumps(ctx.histogram, sort_keys=True))
