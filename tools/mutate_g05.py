"""Mutation self-test of the C05 / C18 checks (developer aid, not a registered check): applies one small breaking edit
at a time to the eups worktree, runs ./check, prints the verdict lines, restores the tree.  Usage: tools/mutate_g05.py C05|C18"""
import subprocess, sys, os, re
REPO="/root/work/g05/repo"; VERIF="/root/work/g05/verif"
def run(pid, name, path, old, new, count=1):
    p=os.path.join(REPO,path); s=open(p).read()
    assert s.count(old)>=1, (name, "pattern not found")
    open(p,"w").write(s.replace(old,new,count))
    try:
        r=subprocess.run(["./check",pid,"--seed","7"],cwd=VERIF,env=dict(os.environ,EUPS_REPO=REPO),capture_output=True,text=True,timeout=900)
        out=[l for l in r.stdout.splitlines() if l.startswith(("VIOLATION","KNOWN","INFRA",pid))]
        print("==",pid,name,"exit",r.returncode)
        for l in out[:4]: print("   ",l[:230])
        for l in out:
            m=re.search(r"replay=(\S+)",l)
            if m:
                import json
                rp=json.load(open(os.path.join(VERIF,m.group(1))))
                print("    first replay:", rp.get("kind"), rp.get("clause") or rp.get("correspondence"), (rp.get("note") or "")[:200])
                break
    finally:
        subprocess.run(["git","checkout","--","."],cwd=REPO)
which=sys.argv[1]
if which=="C05":
    A="python/eups/app.py"; T="python/eups/table.py"
    run("C05","drop ; from the quoting pattern",A,r're.search(r"[\s<>|&;()]", val)',r're.search(r"[\s<>|&()]", val)')
    run("C05","drop ( from the quoting pattern",A,r're.search(r"[\s<>|&;()]", val)',r're.search(r"[\s<>|&;)]", val)')
    run("C05","strip the value before quoting",A,'''                val = "'%s'" % val\n''','''                val = "'%s'" % val.strip()\n''')
    run("C05","do not unset SETUP_ variables",A,'''            if key in os.environ:\n                continue\n\n            if eupsenv.shell == "sh" or eupsenv.shell == "zsh":\n                cmd = "unset %s" % (key)''','''            if key in os.environ or key.startswith("SETUP_"):\n                continue\n\n            if eupsenv.shell == "sh" or eupsenv.shell == "zsh":\n                cmd = "unset %s" % (key)''')
    run("C05","revert D9 fix (del oldEnviron[key])",T,'''            Eups.oldEnviron[key] = None # forget the old value (so it's always exported), not the variable''','''            del Eups.oldEnviron[key]''')
    run("C05","revert D23 fix (drop after export loop)",A,'''        if not fwd and productName == "eups":
            for k in ("EUPS_PATH", "EUPS_PKGROOT", "EUPS_SHELL",):
                if k in os.environ:
                    del os.environ[k]
        #
        # Set new variables''','''        #
        # Set new variables''')
    run("C05","emit export for unchanged variables too (env-neutral)",A,'''                if val == eupsenv.oldEnviron[key]:\n                    continue''','''                if val == eupsenv.oldEnviron[key]:\n                    pass''')
    run("C05","HARMLESS: build the quoted value by concatenation, escape parens in the class",A,'''re.search(r"[\\s<>|&;()]", val):   # quote characters that the shell cares about\n                val = "'%s'" % val''','''re.search(r"[\\s<>|&;\\(\\)]", val):   # quote characters that the shell cares about\n                val = "'" + val + "'"''')
else:
    S="python/eups/distrib/server.py"
    run("C18","write version before flavor",S,'''                        (p.product, p.flavor, p.version, p.tablefile,''','''                        (p.product, p.version, p.flavor, p.tablefile,''')
    run("C18","drop the none substitution for instDir",S,'''                if not p.instDir:\n                    p.instDir = "none"\n''','')
    run("C18","revert D13a",S,'''                if flavor:\n                    p.flavor = flavor''','''                if not flavor:\n                    p.flavor = flavor''')
    run("C18","reader no longer maps search to None",S,'''                elif info[5] == "search":\n                    info[5] = None''','''                elif info[5] == "search ":\n                    info[5] = None''')
    run("C18","tag list reader keeps entries of every flavor",S,'''                if flavor == self.flavor:\n                    self.addProduct(productName, versionName, flavor, info)''','''                if True:\n                    self.addProduct(productName, versionName, flavor, info)''')
    run("C18","Mapping.apply without the generic fallback",S,'''        if flavor != "generic" and (outProduct, outVersion) == (inProduct, inVersion):''','''        if False and (outProduct, outVersion) == (inProduct, inVersion):''')
    run("C18","inverse swaps nothing (maps image to image)",S,'''                    inv.add(outProduct, inVersion=outVersion, outProduct=inProduct, outVersion=inVersion,''','''                    inv.add(outProduct, inVersion=outVersion, outProduct=outProduct, outVersion=inVersion,''')
    run("C18","revert D25",S,'''            mapping[flavor][inProduct][inVersion] = (outProduct, None)''','''            if inVersion in mapping[flavor][inProduct]:\n                del mapping[flavor][inProduct][inVersion]''')
    run("C18","remap any matches before the exact version",S,'''        for versName in (inVersion, "any"):''','''        for versName in ("any", inVersion):''')
    run("C18","HARMLESS: format the manifest line with ljust",S,'''                    print("%-15s %-12s %-10s %-25s %-30s %s" % \\
                        (p.product, p.flavor, p.version, p.tablefile,
                         p.instDir, p.distId), file=ofd)''','''                    print(" ".join([p.product.ljust(15), p.flavor.ljust(12), p.version.ljust(10), p.tablefile.ljust(25),
                                    p.instDir.ljust(30), str(p.distId)]), file=ofd)''')
