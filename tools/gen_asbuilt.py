#!/usr/bin/env python3
"""Regenerate the machine-derived part of DESIGN.md (between the AS-BUILT markers) from index/, findings/,
seeded/ and seeded/RESULTS.json, so that the tables in DESIGN.md cannot drift from what the checks use."""
import json, os, re
HERE = os.path.dirname(os.path.dirname(os.path.abspath(__file__)))
props = [json.loads(l) for l in open(os.path.join(HERE, "properties.jsonl")) if l.strip()]
out = []
w = out.append

w("### 11.0 Status per property (counts from `index/`, `findings/`; the claim in words is `level_claimed.text` in MANIFEST.json)\n")
w("| property | theorems: full / partial / negation | open findings (KNOWN-FINDING) | repaired defects | model, lemma and property files |")
w("|---|---|---|---|---|")
for p in props:
    ip = os.path.join(HERE, "index", p["id"] + ".json")
    if not os.path.exists(ip):
        continue
    idx = json.load(open(ip))
    c = {"full": 0, "partial": 0, "negation": 0}
    for t in idx["theorems"]:
        st = t.get("status", "")
        k = "full" if st.startswith("full") else "partial" if st.startswith("partial") else "negation"
        c[k] += 1
    fo, ff = [], []
    fp = os.path.join(HERE, "findings", p["id"] + ".json")
    if os.path.exists(fp):
        for f in json.load(open(fp))["findings"]:
            (fo if f["status"] == "open" else ff).append(f["id"])
    mods = ", ".join("`%s`" % m.replace("EupsModel.", "") for m in idx.get("modules", []))
    w("| %s %s | %d / %d / %d | %s | %s | %s |" % (p["id"], p["title"][:48], c["full"], c["partial"], c["negation"], ", ".join(fo) or "—", ", ".join(ff) or "—", mods))
w("")
w("Defect identifiers are unique per property only: D31–D37 were allocated independently by builders working in parallel, so "
  "a finding is always named by (property, id).  `fixed:` hashes are those of /repo's main line.\n")
w("### 11.1 Theorems per property (from `index/Cxx.json`; every one is audited by `#print axioms` on each run)\n")
tot = {"full": 0, "partial": 0, "negation": 0, "other": 0}
for p in props:
    ip = os.path.join(HERE, "index", p["id"] + ".json")
    if not os.path.exists(ip):
        continue
    idx = json.load(open(ip))
    w("**%s — %s** (%d theorems)\n" % (p["id"], p["title"], len(idx["theorems"])))
    w("| theorem | status | clause |")
    w("|---|---|---|")
    for t in idx["theorems"]:
        st = t.get("status", "")
        k = st if st in tot else ("negation" if "negat" in st or "witness" in st else "other")
        tot[k] += 1
        w("| `%s` | %s | %s |" % (t["name"].replace("EupsModel.", ""), st, (t.get("clause") or "").replace("|", "\\|").replace("\n", " ")))
    w("")
w("Totals: %d full, %d partial, %d negation witnesses, %d other.\n" % (tot["full"], tot["partial"], tot["negation"], tot["other"]))

w("### 11.2 Defects of eups found or confirmed by the machinery (from `findings/Cxx.json`)\n")
w("| id | property | status | what fails |")
w("|---|---|---|---|")
nfix = nopen = 0
for p in props:
    fp = os.path.join(HERE, "findings", p["id"] + ".json")
    if not os.path.exists(fp):
        continue
    for f in json.load(open(fp))["findings"]:
        nfix += f["status"].startswith("fixed")
        nopen += f["status"] == "open"
        w("| %s | %s | %s | %s |" % (f["id"], p["id"], f["status"], f["text"].replace("|", "\\|").replace("\n", " ")))
w("\n%d repaired by `fix:` commits in /repo, %d open (KNOWN-FINDING).\n" % (nfix, nopen))

w("### 11.3 Seeded breaking changes and which check catches them (from `seeded/*/meta.json`, `seeded/RESULTS.json`)\n")
w("Each change was written by an independent sub-agent that saw only the property text and a scratch worktree of eups; "
  "each was confirmed (demo passes on the unchanged tree, fails with the change; baseline suite still 100 passed) before it was kept. "
  "`signal` is the clause of oracle (ii) (or the correspondence observable) named in the first replay files of the quick run.\n")
w("| id | property | what it breaks | needs | quick check result | signal |")
w("|---|---|---|---|---|---|")
res = {}
rp = os.path.join(HERE, "seeded", "RESULTS.json")
if os.path.exists(rp):
    res = json.load(open(rp))
sd = os.path.join(HERE, "seeded")
ncaught = nmiss = 0
for sid in sorted(os.listdir(sd)):
    mp = os.path.join(sd, sid, "meta.json")
    if not os.path.exists(mp):
        continue
    m = json.load(open(mp))
    r = res.get(sid)
    if not r:
        verdict, sig = "not run yet", ""
    elif not r.get("applies"):
        verdict, sig = "patch no longer applies (code rewritten by a fix: commit)", ""
    elif r.get("demo_exit_patched", 1) == 0:
        verdict, sig = "n/a: on the current tree (after later fix: commits) the change is harmless — the seeder's own demonstration passes with it", ""
    else:
        runs = r["runs"]
        caught = [x for x in runs if x["exit"] == 1 and x["violations"]]
        if caught:
            ncaught += 1
            nfi = all(x.get("nfi") for x in caught)
            verdict = "VIOLATION" + (" (no-failing-input-found: correspondence break)" if nfi else " with failing input")
            sig = ", ".join(sorted({str(s) for x in caught for s in x.get("signals", []) if s}))[:160]
        else:
            nmiss += 1
            verdict, sig = "**missed** (exit %s)" % ",".join(str(x["exit"]) for x in runs), ""
    note = m.get("detection", "")
    w("| %s | %s | %s | %s | %s | %s |" % (sid, m["property"], m["breaks"].replace("|", "\\|"), m["needs_to_manifest"].replace("|", "\\|"),
                                        verdict, sig.replace("|", "\\|")))
w("\n%d caught, %d missed in the last recorded quick runs.\n" % (ncaught, nmiss))

hp = os.path.join(HERE, "harmless", "RESULTS.json")
if os.path.exists(hp):
    hr = json.load(open(hp))
    w("### 11.4 Behaviour-preserving refactorings and false alarms (from `harmless/RESULTS.json`)\n")
    w("Independent sub-agents (given only a scratch worktree and the names of the functions to restructure) wrote "
      "behaviour-preserving refactorings (10–60 changed lines each, each with its own differential self-check); "
      "`tools/run_harmless.py` applies each and runs the quick check of every property whose mirrored files it touches. "
      "A changed fingerprint makes those checks run with the enlarged budget (≈240 s).\n")
    w("| refactoring | files | checks run | alarms |")
    w("|---|---|---|---|")
    nrun = nal = 0
    for hid in sorted(hr):
        r = hr[hid]
        if not r.get("applies"):
            w("| %s | — | patch did not apply | |" % hid); continue
        nrun += len(r["runs"]); nal += len(r["alarms"])
        al = "; ".join("%s: %s" % (x["property"], ("correspondence break, no failing input" if any("no-failing-input-found" in v for v in x["violations"]) else ("exit %d" % x["exit"]) if not x["violations"] else "VIOLATION with input")) for x in r["runs"] if x["exit"] != 0) or "none"
        w("| %s | %s | %s | %s |" % (hid, ", ".join(f.replace("python/eups/", "") for f in r["files"]), " ".join(x["property"] for x in r["runs"]), al))
    w("\n%d check runs, %d alarms.\n" % (nrun, nal))

text = "\n".join(out)
dp = os.path.join(HERE, "DESIGN.md")
s = open(dp).read()
B, E = "<!-- AS-BUILT:BEGIN (generated by tools/gen_asbuilt.py; do not edit by hand) -->", "<!-- AS-BUILT:END -->"
if B in s:
    s = s[:s.index(B) + len(B)] + "\n\n" + text + "\n" + s[s.index(E):]
    open(dp, "w").write(s)
    print("DESIGN.md updated: %d theorems, %d fixed, %d open, seeded %d caught / %d missed" % (sum(tot.values()), nfix, nopen, ncaught, nmiss))
else:
    print("markers missing in DESIGN.md")
