"""C11 — table files mean what they say: block selection, conditions and arguments.

Implementation: ``eups.table.Table(file, topProduct).actions(flavor, setupType)`` -> [(cmd, args, extra)] and
``eups.VersionParser.VersionParser(text).eval()`` for every condition on its own.
Further observables: ``Table._actions`` (every chain, unselected branches too), the lines ``Table._rewrite`` returns,
``Table.getDeclareOptions(flavor, setupType)``; ``Eups(setupType=…, exact_version=…).setupType`` and what
``Table.actions`` / ``Table.dependencies`` make of it (Model/SetupType.lean, ops "setuptype", "deptypes").
Model: lean/EupsModel/Model/{Cond,TableParse}.lean through the driver handler "c11" (ops "table", "cond", "declopts",
"parse", "rewrite").
Oracle (ii): the generator builds the table as a syntax tree (commands, if / else-if / else chains, boolean
expressions, legacy Flavor= groups), renders it with random layout, and computes what the tree denotes for a
flavor and a list of setup types *itself* (truth tables, first true branch, documented command aliases) — the
Lean model is not consulted."""
import contextlib
import io
import json
import os

from . import common
from .common import parallel_map

RULE = ("cases = (table text, flavor, setup types): tables of 1-8 items (commands, if / else-if / else chains of up to 5 "
        "branches with 0-3 commands each, conditions of depth <= 3 over FLAVOR/TYPE with == != && || and parentheses), "
        "rendered with random indentation, blank lines, comments, letter case of command names and keywords, "
        "quoting styles (incl. empty, blank-only and comma-terminated quoted arguments, escaped quotes), separators and "
        "trailing semicolons; legacy tables (Group:/Flavor=/Common:/End: and runs of Flavor= lines); a malformed stream "
        "(lines dropped, duplicated, inserted; wrong arity; operators outside the property's grammar); every condition "
        "also on its own through VersionParser; exhaustive small enumerations (all chain shapes of <= 3 branches with "
        "empty / non-empty branches and else; all conditions of depth <= 1, thorough: <= 2, over 2 flavors x 2 types; all "
        "argument texts of length <= 5, thorough: <= 7, over the alphabet {a, quote, backslash, comma, blank, closing parenthesis}; "
        "all declareOptions argument texts of length <= 4, thorough: <= 5, over {k, v, =, blank, comma, quote}); each "
        "table is evaluated for every flavor it mentions plus an unmentioned one, with TYPE absent / one / two types; "
        "chains of 6-9 branches (3 %), declareOptions written as options (k=v, k = v, quoted) whose pairs the generator "
        "knows; a lone quoted argument with escaped quotes / commas / runs of blanks, padded or not, escaped quotes next to "
        "the opening / closing quote and in the first / last argument (floor of 10 cases per shape); 400 setup-type cases "
        "(arguments also use the seven older variable names, ${UPS_PROD_DIR} ..., which denote the modern ones) "
        "(a --type option as `setup` / `eups -T` / a caller pass it, words from the valid types and an invalid one, blank and "
        "comma separators, --exact, a table with TYPE conditions, followExact for Table.dependencies; then 2-8 further steps "
        "on the same live Eups object: dependency walks with followExact False / None / True and evaluations as Eups.setup makes them).  "
        "A case is non-trivial when its table has a conditional chain, a legacy group or a quoted argument, or is an "
        "enumerated condition batch; distinct = distinct (text, flavor, types) digests")
TRUSTED = ["CPython `re` on the patterns of table.py / VersionParser.py (hand-translated to list functions in the model; "
           "exercised against the real `re` through the code on every run, not verified)",
           "table texts are ASCII without `\\r`, control characters 1-3 and 28-31; conditions contain no `$`"]
ASSUMPTIONS = ["a pair of double quotes around the whole argument list denotes the list of words inside (classic UPS "
               "spelling), not one argument",
               "the table is read for a product (topProduct given), as Product.getTable does",
               "unknown commands, sourceRequired and envUnset of a variable other than the product's own directory "
               "variable denote nothing (the reader skips them by design)"]

FLAVORS = ["Linux", "Linux64", "Darwin", "DarwinX86", "generic"]
OTHER_FLAVORS = ["SunOS", "Linux32"]
TYPES = ["build", "exact", "science"]
OTHER_TYPES = ["test"]
PRODUCT = "foo"
PDIR = "FOO_DIR"

# ---- syntax tree -> denotation (the specification side, in Python) ---------------------------------

ALIASES = {   # written name -> (cmd of the resulting Action, extra)
    "envPrepend": ("envPrepend", {"append": False}), "pathPrepend": ("envPrepend", {"append": False}),
    "envAppend": ("envPrepend", {"append": True}), "pathAppend": ("envPrepend", {"append": True}),
    "envSet": ("envSet", {}), "setenv": ("envSet", {}), "pathSet": ("envSet", {}),
    "setupRequired": ("setupRequired", {"optional": False}), "setupOptional": ("setupRequired", {"optional": True}),
    "unsetupRequired": ("unsetupRequired", {"optional": False}), "unsetupOptional": ("unsetupRequired", {"optional": True}),
    "addAlias": ("addAlias", {}), "print": ("print", {}), "declareOptions": ("declareOptions", {}),
    "prodDir": ("prodDir", {}), "setupEnv": ("setupEnv", {}),
    "envUnset": ("envUnset", {}), "unsetenv": ("envUnset", {}), "pathRemove": ("envUnset", {}),
}


def split_words(s):
    out, cur = [], ""
    for ch in s:
        if ch in ", ":
            if cur:
                out.append(cur)
            cur = ""
        else:
            cur += ch
    if cur:
        out.append(cur)
    return out


# the older names of the eups variables, which a table may still use: written -> delivered (documented synonyms)
SYNONYMS = {"${PROD_DIR}": "${PRODUCT_DIR}", "${UPS_PROD_DIR}": "${PRODUCT_DIR}", "${UPS_PROD_FLAVOR}": "${PRODUCT_FLAVOR}",
            "${UPS_PROD_NAME}": "${PRODUCT_NAME}", "${UPS_PROD_VERSION}": "${PRODUCT_VERSION}", "${UPS_DB}": "${PRODUCTS}",
            "${UPS_UPS_DIR}": "${UPS_DIR}"}


def modern(v):
    for old_, new_ in SYNONYMS.items():
        v = v.replace(old_, new_)
    return v


def whole_list_quoted(c):
    """The classic spelling `cmd("word word …")`: the argument text is exactly one pair of quotes with no quote
    (escaped or not) between them.  With an escaped quote inside, or blanks between the parentheses and the quotes,
    the quoted string is one argument like any other."""
    a = c["args"]
    return len(a) == 1 and a[0]["q"] and '"' not in a[0]["v"] and not c["pad"]


def denote_cmd(c):
    """What a written command denotes: None (nothing) or {"cmd", "args", "extra"}."""
    name = c["name"]
    if name not in ALIASES:
        return None                       # unknown command / sourceRequired: skipped by design
    cmd, extra = ALIASES[name]
    written = c["args"]
    if whole_list_quoted(c):
        args = split_words(written[0]["v"])      # quotes around the whole list: the list of words
    else:
        args = [a["v"] for a in written]
    args = [modern(a) for a in args]
    if cmd == "envSet":
        args = [args[0], " ".join(args[1:])]
    if cmd == "envUnset":
        if args[0] not in ("PRODUCT_DIR", PDIR):
            return None
        args = [PDIR]
    if "-f" in args:
        i = args.index("-f")
        del args[i:i + 2]
    return {"cmd": cmd, "args": args, "extra": dict(extra)}


def denote_cond(e, flavor, types):
    k = e[0]
    if k == "atom":
        _, var, neg, w = e
        t = (flavor == w) if var == "FLAVOR" else (w in types)
        return t != neg
    if k == "and":
        return denote_cond(e[1], flavor, types) and denote_cond(e[2], flavor, types)
    if k == "or":
        return denote_cond(e[1], flavor, types) or denote_cond(e[2], flavor, types)
    if k == "any":
        return True
    raise ValueError(k)


def denote_table(items, flavor, types):
    out = []
    for it in items:
        if it["k"] == "cmd":
            d = denote_cmd(it["c"])
            if d:
                out.append(d)
        elif it["k"] == "chain":
            chosen = None
            for br in it["branches"]:
                if denote_cond(br["cond"], flavor, types):
                    chosen = br["cmds"]
                    break
            if chosen is None:
                chosen = it["els"] if it["els"] is not None else []
            out += [d for d in (denote_cmd(c) for c in chosen) if d]
    return out


def selected_cmds(items, flavor, types):
    out = []
    for it in items:
        if it["k"] == "cmd":
            out.append(it["c"])
        elif it["k"] == "chain":
            chosen = None
            for br in it["branches"]:
                if denote_cond(br["cond"], flavor, types):
                    chosen = br["cmds"]
                    break
            if chosen is None:
                chosen = it["els"] if it["els"] is not None else []
            out += chosen
    return out


def denote_opts(items, flavor, types):
    """The options the declareOptions commands of the selected branches declare, as sorted [key, value] pairs (a
    later option replaces an earlier one with the same key); None when one of them is not written as options."""
    d = {}
    for c in selected_cmds(items, flavor, types):
        if c["name"] != "declareOptions":
            continue
        if "opts" not in c:
            return None
        for k, v in c["opts"]:
            d[k] = v
    return sorted([k, v] for k, v in d.items())


# ---- generator -------------------------------------------------------------------------------------

PLAIN = ["a", "b/c", "${PRODUCT_DIR}/bin", "x.y", "-j", "1.2", "FOO_BAR", ">=", "2.0", "/opt/p-1/lib", "lib64", "$?{X}/y",
         "[>=", "1.0]", "a:b", "v1_2+3", "(x)",
         "${PROD_DIR}/lib", "${UPS_PROD_DIR}/bin", "${UPS_PROD_FLAVOR}", "${UPS_PROD_NAME}-${UPS_PROD_VERSION}", "${UPS_DB}", "${UPS_UPS_DIR}/x"]
VARNAMES = ["PATH", "LD_LIBRARY_PATH", "FOO", "PYTHONPATH", "X_Y"]
PRODS = ["python", "cfitsio", "afw", "doxygen", "base"]
OPT_KEYS = ["flavor", "name", "version", "x_y"]
OPT_VALS = ["NULL", "Linux", "foo", "1.2", "a.b"]


def gen_escaped(rng):
    """The value of a quoted argument that holds double quotes (written \\"), alone or with commas / runs of blanks."""
    w = lambda: rng.choice(PLAIN)  # noqa
    shape = rng.choice(["mid", "mid_commas", "mid_commas", "end", "start", "only", "two", "end_comma"])
    if shape == "mid":
        return 'say "%s" now' % w()
    if shape == "mid_commas":
        return 'Set %s=1, or run "make  %s, slowly" first' % (w(), w())
    if shape == "end":
        return 'run  "%s %s"' % (w(), w())              # an escaped quote next to the closing quote
    if shape == "end_comma":
        return '%s, "%s"' % (w(), w())
    if shape == "start":
        return '"%s", then  %s' % (w(), w())            # … next to the opening quote
    if shape == "only":
        return rng.choice(['"', '""', '","'])
    return '"%s" "%s"' % (w(), w())


def gen_arg(rng, allow_escape=True):
    r = rng.random()
    if r < 0.5:
        w = rng.choice(PLAIN)
        return {"v": w, "q": False}
    if r < 0.72:
        inner = " ".join(rng.choice(PLAIN) for _ in range(rng.randint(1, 3)))
    elif r < 0.86:
        inner = ", ".join(rng.choice(PLAIN) for _ in range(rng.randint(2, 3)))
    elif r < 0.94:
        inner = rng.choice(PLAIN) + "," + rng.choice(PLAIN)
    elif allow_escape:
        inner = gen_escaped(rng)
    else:
        inner = rng.choice(PLAIN)
    r2 = rng.random()
    if r2 < 0.06:
        inner = inner + rng.choice([",", ", ", " "])         # a value that ends with a comma / a blank
    elif r2 < 0.09:
        inner = rng.choice(["", "\t", " ", "  "])              # empty, or nothing but white space
    return {"v": inner, "q": True}


def gen_cmd(rng):
    name = rng.choice(["envPrepend", "envAppend", "envSet", "addAlias", "setupRequired", "setupOptional", "print",
                       "pathPrepend", "pathAppend", "setenv", "envPrepend", "envAppend", "envSet", "setupRequired",
                       "pathSet", "unsetupRequired", "unsetupOptional", "declareOptions", "prodDir", "setupEnv",
                       "envUnset", "unsetenv", "pathRemove", "sourceRequired", "frobnicate"])
    seps = None
    c_opts = None
    if name in ("envPrepend", "envAppend", "pathPrepend", "pathAppend"):
        n = rng.choice([2, 2, 3])
        args = [{"v": rng.choice(VARNAMES), "q": False}, gen_arg(rng)]
        if n == 3:
            args.append(rng.choice([{"v": ";", "q": False}, {"v": " ", "q": True}, {"v": ",", "q": True}, {"v": ":", "q": False},
                                    {"v": ":", "q": True}]))
    elif name in ("envSet", "setenv", "pathSet"):
        args = [{"v": rng.choice(VARNAMES), "q": False}] + [gen_arg(rng) for _ in range(rng.choice([1, 1, 1, 2, 3]))]
    elif name in ("setupRequired", "setupOptional", "unsetupRequired", "unsetupOptional"):
        r = rng.random()
        words = [rng.choice(PRODS)]
        if rng.random() < 0.6:
            words.append(rng.choice(["1.2", "v2_0", "3.1+4"]))
        if rng.random() < 0.3:
            words.insert(rng.randint(1, len(words)), "-j")
        if rng.random() < 0.2:
            words += ["[>=", "1.0]"]
        if rng.random() < 0.1:
            i = rng.randint(1, len(words))
            words[i:i] = ["-f", rng.choice(FLAVORS)]
        if r < 0.25:
            args = [{"v": " ".join(words), "q": True}]        # classic whole-list quoting
        else:
            args = [{"v": w, "q": False} for w in words]
            seps = [" "] * (len(args) - 1)
    elif name == "addAlias":
        args = [{"v": rng.choice(["ll", "longls", "gs"]), "q": False}] + [gen_arg(rng) for _ in range(rng.randint(1, 3))]
    elif name == "declareOptions" and rng.random() < 0.75:
        # options as documented: k=v, k = v, k= v, "k = v" — the generator knows the pairs (oracle (ii))
        opts = [(rng.choice(OPT_KEYS), rng.choice(OPT_VALS)) for _ in range(rng.randint(1, 3))]
        args, seps = [], []
        for k, v in opts:
            style = rng.choice(["k=v", "k=v", "k = v", "k =v", "k= v", "q", "q2"])
            ws = {"k=v": [k + "=" + v], "k = v": [k, "=", v], "k =v": [k, "=" + v], "k= v": [k + "=", v]}.get(style)
            if ws is None:
                inner = k + rng.choice([" = ", "=", " =", "  =\t"]) + v
                new = [{"v": inner, "q": True}]
            else:
                new = [{"v": w, "q": False} for w in ws]
            for a in new:
                if args:
                    seps.append(rng.choice([", ", " ", ",", " , "]) if a is new[0] else rng.choice([" ", "  "]))
                args.append(a)
        if rng.random() < 0.1:                                   # a word without a value at the end: no pair
            seps.append(", ")
            args.append({"v": rng.choice(OPT_KEYS), "q": False})
        if len(args) == 1 and args[0]["q"]:
            seps = []
        c_opts = opts
    elif name in ("print", "declareOptions", "frobnicate", "sourceRequired"):
        args = [gen_arg(rng) for _ in range(rng.randint(1, 3))]
        if name == "print" and rng.random() < 0.3:
            args[0] = {"v": rng.choice(["stderr", "stdout", "stdwarn"]), "q": False}
        elif name == "print" and rng.random() < 0.35:
            # the whole list is one quoted string: with escaped quotes inside (one argument), or without (a word list)
            args = [{"v": gen_escaped(rng) if rng.random() < 0.7 else "%s, %s  %s" % tuple(rng.choice(PLAIN) for _ in range(3)), "q": True}]
        elif rng.random() < 0.15:
            # escaped quotes in the first / the last argument of several
            args[rng.choice([0, -1])] = {"v": gen_escaped(rng), "q": True}
    elif name in ("prodDir", "setupEnv"):
        args = []
    else:   # envUnset family
        args = [{"v": rng.choice(["PRODUCT_DIR", PDIR, "PATH", "BAR"]), "q": False}]
    if seps is None:
        seps = [rng.choice([", ", ",", " , ", ", ", " ", ",  "]) for _ in range(max(0, len(args) - 1))]
    case = rng.random()
    spelled = name if case < 0.6 else name.lower() if case < 0.8 else name.upper() if case < 0.9 else name[0].upper() + name[1:]
    # (blanks between the parentheses and a lone quoted string make it an ordinary argument: `^"…"$` is anchored)
    pad = len(args) > 0 and rng.random() < (0.12 if len(args) == 1 and args[0]["q"] else 0.25)
    c = {"name": name, "spelled": spelled, "args": args, "seps": seps, "pad": pad,
         "gap": rng.choice(["", "", "", " "]), "semi": rng.choice(["", "", ";", " ;", "; "])}
    if c_opts is not None:
        c["opts"] = [list(o) for o in c_opts]
    return c


def gen_cond(rng, depth, flavors, types):
    r = rng.random()
    if depth == 0 or r < 0.35:
        if rng.random() < 0.65:
            return ("atom", "FLAVOR", rng.random() < 0.25, rng.choice(flavors))
        return ("atom", "TYPE", rng.random() < 0.25, rng.choice(types))
    k = "and" if r < 0.68 else "or"
    return (k, gen_cond(rng, depth - 1, flavors, types), gen_cond(rng, depth - 1, flavors, types))


def gen_table(rng):
    flavors = rng.sample(FLAVORS, rng.randint(1, 3))
    types = rng.sample(TYPES, rng.randint(1, 2))
    items = []
    for _ in range(rng.randint(1, 8)):
        if rng.random() < 0.45:
            items.append({"k": "cmd", "c": gen_cmd(rng)})
        else:
            branches = []
            nb = rng.choice([1, 1, 2, 2, 3, 4, 5])
            if rng.random() < 0.03:
                nb = rng.choice([6, 7, 8, 9])            # getDeclareOptions treats chains of more than 7 branches apart
            for _b in range(nb):
                d = rng.choice([0, 0, 1, 1, 2, 3])
                ncmd = rng.choice([0, 1, 1, 2, 3]) if rng.random() < 0.5 else rng.randint(1, 2)
                branches.append({"cond": gen_cond(rng, d, flavors, types), "cmds": [gen_cmd(rng) for _ in range(ncmd)]})
            els = None
            if rng.random() < 0.5:
                els = [gen_cmd(rng) for _ in range(rng.choice([0, 1, 1, 2]))]
            items.append({"k": "chain", "branches": branches, "els": els})
    return items


# ---- rendering -------------------------------------------------------------------------------------

def sp(rng, must=False):
    return rng.choice([" ", " ", "  ", "\t"] if must else ["", " ", " ", "  "])


def render_word(rng, w):
    r = rng.random()
    return w if r < 0.8 else "'%s'" % w if r < 0.9 else '"%s"' % w


def render_cond(rng, e, prec=0):
    """prec: 0 = operand of ||, 1 = operand of &&, 2 = must be a primary"""
    k = e[0]
    if k == "atom":
        _, var, neg, w = e
        kw = rng.choice([var, var, var.lower(), var.capitalize()])
        s = kw + sp(rng) + ("!=" if neg else "==") + sp(rng) + render_word(rng, w)
        own = 2
    elif k == "and":
        s = render_cond(rng, e[1], 1) + sp(rng) + "&&" + sp(rng) + render_cond(rng, e[2], 2)
        own = 1
    else:
        s = render_cond(rng, e[1], 0) + sp(rng) + "||" + sp(rng) + render_cond(rng, e[2], 1)
        own = 0
    if own < prec or rng.random() < 0.08:
        s = "(" + sp(rng) + s + sp(rng) + ")"
    return s


def render_cmd(rng, c):
    parts = []
    for i, a in enumerate(c["args"]):
        if i:
            parts.append(c["seps"][i - 1])
        parts.append('"%s"' % a["v"].replace('"', '\\"') if a["q"] else a["v"])
    inner = "".join(parts)
    if c["pad"]:
        inner = " " + inner + " "
    return c["spelled"] + c["gap"] + "(" + inner + ")" + c["semi"]


COMMENTS = ["# a comment", "#", "# setupRequired(nothing)", "#} else {", "# if (FLAVOR == x) {"]


def render_table(rng, items, features):
    """Returns the rendered lines of every item (a list of lists), layout chosen at random."""
    parts = []
    lines = []

    def emit(s, comment_ok=True):
        ind = rng.choice(["", "", "  ", "    ", "\t"])
        tail = ""
        if comment_ok and rng.random() < 0.15:
            tail = rng.choice(["  ", " ", "\t"]) + rng.choice(COMMENTS)
            features.add("trailing_comment")
        elif rng.random() < 0.08:
            tail = rng.choice([" ", "  "])
        lines.append(ind + s + tail)
        if rng.random() < 0.1:
            lines.append(rng.choice(["", "   ", rng.choice(COMMENTS)]))

    def kw(word):
        r = rng.random()
        if r < 0.9:
            return word
        features.add("keyword_case")
        return word.upper() if r < 0.95 else word.capitalize()

    for it in items:
        lines = []
        if it["k"] == "cmd":
            emit(render_cmd(rng, it["c"]))
            parts.append(lines)
            continue
        for i, br in enumerate(it["branches"]):
            head = kw("if") + sp(rng) + "(" + sp(rng) + render_cond(rng, br["cond"]) + sp(rng) + ")" + sp(rng) + "{"
            if i:
                head = "}" + sp(rng) + kw("else") + sp(rng) + head
            emit(head)
            for c in br["cmds"]:
                emit(render_cmd(rng, c))
        if it["els"] is not None:
            emit("}" + sp(rng) + kw("else") + sp(rng) + "{")
            for c in it["els"]:
                emit(render_cmd(rng, c))
        emit("}")
        parts.append(lines)
    return parts


def join_parts(parts, end="\n"):
    return "\n".join(l for p in parts for l in p) + end


def table_features(items):
    f = set()
    for it in items:
        if it["k"] == "chain":
            f.add("chain")
            if len(it["branches"]) > 1:
                f.add("else_if")
            if it["els"] is not None:
                f.add("else")
            blocks = [b["cmds"] for b in it["branches"]] + ([it["els"]] if it["els"] is not None else [])
            if any(not [c for c in bl if denote_cmd(c)] for bl in blocks):
                f.add("empty_branch")
            for b in it["branches"]:
                f.add("cond_depth=%d" % cond_depth(b["cond"]))
            if len(it["branches"]) >= 8:
                f.add("branches>=8")
        cmds = [it["c"]] if it["k"] == "cmd" else sum([b["cmds"] for b in it["branches"]], []) + (it["els"] or [])
        for c in cmds:
            if "opts" in c:
                f.add("declare_options")
            for a in c["args"]:
                for syn in SYNONYMS:
                    if syn in a["v"]:
                        f.add("synonym=" + syn)
            if any(a["q"] for a in c["args"]):
                f.add("quoted_arg")
            if len(c["args"]) > 1 and c["args"][0]["q"] and c["args"][-1]["q"]:
                f.add("first_and_last_quoted")
            if whole_list_quoted(c):
                f.add("whole_list_quoted")
                if "," in c["args"][0]["v"] or "  " in c["args"][0]["v"]:
                    f.add("whole_list_quoted_commas_or_blank_runs")
            if len(c["args"]) == 1 and c["args"][0]["q"]:
                v = c["args"][0]["v"]
                if c["pad"]:
                    f.add("lone_quoted_padded")
                if '"' in v:
                    f.add("lone_quoted_with_escape")
                    if "," in v or "  " in v:
                        f.add("lone_quoted_with_escape_and_commas_or_blank_runs")
            if len(c["args"]) > 1 and c["args"][0]["q"] and '"' in c["args"][0]["v"]:
                f.add("escape_in_first_arg")
            if len(c["args"]) > 1 and c["args"][-1]["q"] and '"' in c["args"][-1]["v"]:
                f.add("escape_in_last_arg")
            if any(a["q"] and a["v"].endswith('"') for a in c["args"]):
                f.add("escape_next_to_closing_quote")
            if any(a["q"] and a["v"].startswith('"') for a in c["args"]):
                f.add("escape_next_to_opening_quote")
            if any(a["q"] and a["v"][-1:] in (",", " ") and len(a["v"]) > 1 for a in c["args"]):
                f.add("quoted_ends_comma_or_blank")
            if any(a["q"] and a["v"].strip(" \t") == "" for a in c["args"]):
                f.add("quoted_empty_or_blank")
    return f


def cond_depth(e):
    return 0 if e[0] in ("atom", "any") else 1 + max(cond_depth(e[1]), cond_depth(e[2]))


def conds_of(items):
    return [b["cond"] for it in items if it["k"] == "chain" for b in it["branches"]]


def mentioned(items):
    fl, ty = [], []

    def walk(e):
        if e[0] == "atom":
            (fl if e[1] == "FLAVOR" else ty).append(e[3])
        elif e[0] != "any":
            walk(e[1])
            walk(e[2])
    for c in conds_of(items):
        walk(c)
    return sorted(set(fl)), sorted(set(ty))


def gen_envs(rng, items):
    fl, ty = mentioned(items)
    flavors = fl + [rng.choice(OTHER_FLAVORS)]
    pool = ty + [rng.choice(OTHER_TYPES)]
    variants = [[], [rng.choice(pool)], rng.sample(pool, 2) if len(pool) > 1 else [pool[0], "extra"]]
    for t in ty:                        # every mentioned type is present in some environment
        variants.append([t])
    rng.shuffle(flavors)
    envs = []
    n = max(len(flavors), min(len(variants), 4))
    for i in range(n):
        envs.append({"flavor": flavors[i % len(flavors)], "types": variants[i % len(variants)]})
    return envs[:6]


# legacy tables ------------------------------------------------------------------------------------------

def gen_legacy(rng):
    """Returns (text, items) where items is the if-block form the legacy text must be equivalent to."""
    style = rng.choice(["old", "new"])
    lines, items = [], []
    if style == "old" or rng.random() < 0.3:
        lines += [rng.choice(["File = Table", "FILE=table", "file = Table"]), rng.choice(["Product = foo", "PRODUCT=foo"])]
    for _ in range(rng.randint(0, 2)):
        c = gen_cmd(rng)
        lines.append(render_cmd(rng, c))
        items.append({"k": "cmd", "c": c})
    for g in range(rng.randint(1, 3)):
        fls = rng.sample(FLAVORS + (["ANY"] if style == "old" else []), rng.randint(1, 2))
        cmds = [gen_cmd(rng) for _ in range(rng.randint(1, 3))]
        cond = None
        for f in fls:
            a = ("any",) if f == "ANY" else ("atom", "FLAVOR", False, f)
            cond = a if cond is None else ("or", cond, a)
        kwf = rng.choice(["Flavor", "FLAVOR", "flavor"])
        eq = rng.choice([" = ", "=", " ="])
        if style == "old":
            lines += [rng.choice(["Group:", "GROUP:", "group:  "])] + ["  %s%s%s" % (kwf, eq, f) for f in fls]
            lines += ['  Qualifiers = ""'] if rng.random() < 0.7 else []
            lines += [rng.choice(["Common:", "COMMON:"]), rng.choice(["  Action = setup", "  ACTION=Setup"])]
            lines += ["    " + render_cmd(rng, c) for c in cmds] + [rng.choice(["End:", "END:"])]
        else:
            lines += ["%s%s%s" % (kwf, eq, f) for f in fls] + ["  " + render_cmd(rng, c) for c in cmds]
        items.append({"k": "chain", "branches": [{"cond": cond, "cmds": cmds}], "els": None})
        if rng.random() < 0.2:
            lines.append(rng.choice(["", "# comment"]))
    return "\n".join(lines) + "\n", items, style


# malformed stream -----------------------------------------------------------------------------------

JUNK = ["}", "} else {", "if (FLAVOR == Linux) {", "} else if (TYPE == build) {", "envSet(A)", "envPrepend(A, b, c, d)",
        "envUnset(A, B)", "setupRequired(", "if (FLAVOR == ) {", "if (FLAVOR == Linux && ) {", "if ((FLAVOR == Linux) {",
        "junk line", "print", "prodDir", "envSet", "Action = build", "Group:", "End:", "Common:", "Flavor = Linux",
        "if (FLAVOR TYPE) {", "if (TYPE == build == exact) {", "} ELSE {", "}else{ ", "if (FLAVOR =~ Lin) {",
        "if (FLAVOR < Linux64) {", "if (!(FLAVOR == Linux)) {", "if (not FLAVOR == Linux) {", "if (FLAVOR == Linux or TYPE == build) {",
        # the rest of VersionParser's grammar and of _rewrite's archaic forms (correspondence only)
        "if (FLAVOR !~ Lin) {", "if (FLAVOR <= Linux) {", "if (FLAVOR > Linux) {", "if (FLAVOR >= Linux64) {", "if (1 < 2) {",
        "if (2 <= 1) {", "if (1 == 1) {", "if (True) {", "if (False || FLAVOR == Linux) {", "if (FLAVOR == Linux and TYPE == build) {",
        "if (FLAVOR =~ L.n.x) {", "if (10 > 9) {", "File = Foo", "File = Table", "Product = bar", "Qualifiers = \"x y\"",
        "Action = Setup", "Common:", "Flavor = ANY"]


def malform(rng, text):
    lines = text.split("\n")
    for _ in range(rng.randint(1, 2)):
        r = rng.random()
        i = rng.randrange(len(lines))
        if r < 0.3 and len(lines) > 1:
            del lines[i]
        elif r < 0.5:
            lines.insert(i, lines[i])
        elif r < 0.9:
            lines.insert(i, rng.choice(JUNK))
        else:
            lines[i] = lines[i].replace(")", "", 1)
    return "\n".join(lines)


def gen_case(rng):
    r = rng.random()
    features = set()
    parts = None
    if r < 0.12:
        text, items, style = gen_legacy(rng)
        features |= table_features(items) | {"legacy", "legacy_" + style}
        kind = "legacy"
    else:
        items = gen_table(rng)
        features |= table_features(items)
        plines = render_table(rng, items, features)
        text = join_parts(plines, rng.choice(["\n", "\n", ""]))
        kind = "table"
        parts = []
        for it, ls in zip(items, plines):
            cs = [{"text": render_cond(rng, b["cond"]), "ast": b["cond"]} for b in it["branches"]] if it["k"] == "chain" else []
            parts.append({"lines": ls, "item": it, "conds": cs})
    envs = gen_envs(rng, items)
    conds = []
    if parts:
        for c in [c for p_ in parts for c in p_["conds"]][:6]:
            conds.append({"text": c["text"], "expect": [denote_cond(c["ast"], v["flavor"], v["types"]) for v in envs]})
    expect = [denote_table(items, v["flavor"], v["types"]) for v in envs]
    expect_opts = [denote_opts(items, v["flavor"], v["types"]) for v in envs]
    if r >= 0.88:
        text = malform(rng, text)
        kind, expect, expect_opts, features, parts = "malformed", None, None, features | {"malformed"}, None
    case = {"kind": kind, "text": text, "envs": envs, "expect": expect, "conds": conds, "features": sorted(features)}
    if expect_opts is not None:
        case["expect_opts"] = expect_opts
    if rng.random() < 0.3:
        # hooks.config.Eups.defaultProduct and the addDefaultProduct argument of Table(...)
        case["dflt"] = {"name": rng.choice(["toolchain", "toolchain", "base", ""]), "version": rng.choice([None, None, "1.0", ""]),
                        "tag": rng.choice([None, None, "stable"]), "add": rng.choice([None, None, True, False])}
    if parts:
        case["parts"] = parts
    return case


def sub_case(case, parts, envs):
    """The case restricted to some of its items and environments (layout of the kept items unchanged)."""
    items = [p_["item"] for p_ in parts]
    conds = [{"text": c["text"], "expect": [denote_cond(c["ast"], v["flavor"], v["types"]) for v in envs]}
             for p_ in parts for c in p_["conds"]][:6]
    return {"kind": case["kind"], "text": join_parts([p_["lines"] for p_ in parts]), "envs": envs,
            "expect": [denote_table(items, v["flavor"], v["types"]) for v in envs], "conds": conds,
            "expect_opts": [denote_opts(items, v["flavor"], v["types"]) for v in envs],
            "features": sorted(table_features(items) | (set(case["features"]) & {"trailing_comment", "keyword_case"})),
            "parts": parts, **({"dflt": case["dflt"]} if case.get("dflt") else {})}


def shrink(case, clause):
    """Delta-debug the failing case over its items, then its environments, keeping a failure of the same clause."""
    if not case.get("parts"):
        return case

    def fails(parts, envs):
        if not parts:
            return False
        c = sub_case(case, parts, envs)
        return any(cl == clause for cl, _k, _i, _d in oracle(c, run_impl(c)))
    envs = case["envs"]
    parts = case["parts"]
    if not fails(parts, envs):
        if _scratch is not None:
            common.rmtree(_scratch)
        return case                      # the failure needs the original end-of-file layout: keep as is
    for v in envs:
        if fails(parts, [v]):
            envs = [v]
            break
    parts = common.ddmin(parts, lambda ps: fails(ps, envs), max_tests=60)
    out = sub_case(case, parts, envs)
    out["shrunk_from_items"] = len(case["parts"])
    if _scratch is not None:
        common.rmtree(_scratch)
    return out


# ---- implementation ----------------------------------------------------------------------------------

_scratch = None


def canon_action(a):
    return {"cmd": a.cmd, "args": list(a.args), "extra": {k: a.extra[k] for k in sorted(a.extra)}}


class PdbTrap(Exception):
    """raised instead of stopping in the debugger (`pdb.set_trace()` in library code)"""


def _pdb_trap(*_a, **_k):
    raise PdbTrap()


def canon_chains(table):
    """`Table._actions` as [[{"cond": text} | {"blk": [actions]}, ...], ...]"""
    out = []
    for lbb in table._actions:
        out.append([{"cond": x} if isinstance(x, str) else {"blk": [canon_action(a) for a in x]} for x in lbb])
    return out


def run_impl(case):
    """Returns {"table": [per env: list of actions | {"err": type}], "conds": [[per env: bool | {"err"}]],
    "opts": [per env: sorted [k, v] pairs of getDeclareOptions | {"err"}], "chains": Table._actions | {"err"},
    "rewrite": the lines Table._rewrite returns | {"err"}}."""
    global _scratch
    eups = common.import_eups()
    import eups.hooks as hooks
    from eups.table import Table
    from eups.Product import Product
    from eups.VersionParser import VersionParser
    hooks.config.Eups.defaultProduct["name"] = None          # no implicit dependency appended to every table
    import eups.utils as utils
    sink = io.StringIO()
    utils.stderr = utils.stdwarn = utils.stdinfo = utils.stdok = sink     # the reader's chatter about skipped lines
    if _scratch is None:
        _scratch = common.scratch("c11")
    path = os.path.join(_scratch, "t.table")
    with open(path, "w") as f:
        f.write(case["text"])
    outs = []
    import pdb
    pdb.set_trace = _pdb_trap
    with contextlib.redirect_stderr(io.StringIO()), contextlib.redirect_stdout(io.StringIO()):
        try:
            prod = Product(PRODUCT, "1.0", flavor="Linux", dir="/nowhere/foo")
            table = Table(path, prod)
            err = None
        except Exception as ex:  # noqa
            err = {"err": type(ex).__name__}
        chains = err if err else canon_chains(table)
        try:
            with open(path) as f:
                rewritten = [l for _n, l in Table(None)._rewrite(f.readlines())]
        except Exception as ex:  # noqa
            rewritten = {"err": type(ex).__name__}
        opts = []
        for v in case["envs"]:
            if err:
                opts.append(err)
                continue
            try:
                d = table.getDeclareOptions(v["flavor"], list(v["types"]))
                opts.append(sorted([k, x] for k, x in d.items()))
            except RecursionError:
                opts.append({"err": "RecursionError"})
            except Exception as ex:  # noqa
                opts.append({"err": type(ex).__name__})
        for v in case["envs"]:
            if err:
                outs.append(err)
                continue
            try:
                outs.append([canon_action(a) for a in table.actions(v["flavor"], setupType=list(v["types"]))])
            except RecursionError:
                outs.append({"err": "RecursionError"})
            except Exception as ex:  # noqa
                outs.append({"err": type(ex).__name__})
        couts = []
        for c in case["conds"]:
            row = []
            for v in case["envs"]:
                try:
                    p = VersionParser(c["text"])
                    p.define("flavor", v["flavor"])
                    if v["types"]:
                        p.define("type", list(v["types"]))
                    row.append(bool(p.eval()))
                except Exception as ex:  # noqa
                    row.append({"err": type(ex).__name__})
            couts.append(row)
        # the default product: what _read appends for hooks.config.Eups.defaultProduct (first environment only)
        dflt = None
        if case.get("dflt") and case["envs"]:
            d, v = case["dflt"], case["envs"][0]
            saved = dict(hooks.config.Eups.defaultProduct)
            try:
                hooks.config.Eups.defaultProduct.update({"name": d["name"], "version": d["version"], "tag": d["tag"]})
                t2 = Table(path, prod, **({} if d["add"] is None else {"addDefaultProduct": d["add"]}))
                dflt = [canon_action(a) for a in t2.actions(v["flavor"], setupType=list(v["types"]))]
            except RecursionError:
                dflt = {"err": "RecursionError"}
            except Exception as ex:  # noqa
                dflt = {"err": type(ex).__name__}
            finally:
                hooks.config.Eups.defaultProduct.clear()
                hooks.config.Eups.defaultProduct.update(saved)
    return {"table": outs, "conds": couts, "opts": opts, "chains": chains, "rewrite": rewritten, "dflt": dflt}


def run_impl_chunk(cases):
    res = [run_impl(c) for c in cases]
    if _scratch is not None:
        common.rmtree(_scratch)
    return res


# ---- model -------------------------------------------------------------------------------------------

# development aid (never set by ./check): C11_VARIANT=pinned or a subset like "d3,d20" (= the repairs present)
# runs the model of the tree *without* the other repairs, to validate the `…Pinned` definitions against an
# unrepaired checkout
_VARIANT = os.environ.get("C11_VARIANT")


# C11_TRAP=1: the model of getDeclareOptions as pinned (debugger trap on chains of more than seven branches, D111)
_TRAP = bool(os.environ.get("C11_TRAP"))


def _variant():
    if not _VARIANT:
        return None
    have = set() if _VARIANT == "pinned" else set(_VARIANT.split(","))
    return {k: (k in have) for k in ("d3", "d4", "d20", "d31", "d32", "d33")}


def model_requests(case):
    reqs = []
    var = _variant()
    for v in case["envs"]:
        r = {"m": "c11", "op": "table", "text": case["text"], "flavor": v["flavor"], "types": v["types"], "pdir": PDIR}
        if var:
            r["variant"] = var
        reqs.append(r)
    for c in case["conds"]:
        for v in case["envs"]:
            reqs.append({"m": "c11", "op": "cond" if not var or var["d3"] else "cond_pinned", "text": c["text"],
                         "flavor": v["flavor"], "types": v["types"]})
    for v in case["envs"]:
        r = {"m": "c11", "op": "declopts", "text": case["text"], "flavor": v["flavor"], "types": v["types"], "pdir": PDIR,
             "trap": _TRAP}
        if var:
            r["variant"] = var
        reqs.append(r)
    for op in ("parse", "rewrite"):
        r = {"m": "c11", "op": op, "text": case["text"], "pdir": PDIR}
        if var:
            r["variant"] = var
        reqs.append(r)
    if case.get("dflt") and case["envs"]:
        d, v = case["dflt"], case["envs"][0]
        r = {"m": "c11", "op": "table", "text": case["text"], "flavor": v["flavor"], "types": v["types"], "pdir": PDIR}
        if d["add"] is not False and d["name"]:
            r["dflt"] = {"name": d["name"], "version": d["version"] or None, "tag": d["tag"] or None}
        if var:
            r["variant"] = var
        reqs.append(r)
    return reqs


def model_out(case, answers):
    n = len(case["envs"])

    def conv(a, key):
        if "bad-op" in a:
            return {"bad-op": a["bad-op"]}
        if a["out"] == "ok":
            return a[key]
        if a["out"] == "fuel":
            return {"fuel": True}
        return {"err": a["err"]}
    table = [conv(a, "actions") for a in answers[:n]]
    conds = []
    for i, _c in enumerate(case["conds"]):
        conds.append([conv(a, "value") for a in answers[n + i * n: n + (i + 1) * n]])
    k = n + len(case["conds"]) * n
    opts = []
    for a in answers[k:k + n]:
        o = conv(a, "opts")
        opts.append(sorted(o) if isinstance(o, list) else o)
    return {"table": table, "conds": conds, "opts": opts, "chains": conv(answers[k + n], "chains"),
            "rewrite": conv(answers[k + n + 1], "lines"),
            "dflt": conv(answers[k + n + 2], "actions") if case.get("dflt") and case["envs"] else None}


def unmodelled(x):
    return isinstance(x, dict) and x.get("err") == "unmodelled"


# ---- oracle (ii) ---------------------------------------------------------------------------------------

def classify(case, i, got, want):
    """Which clause of C11 a difference between the denoted and the derived action list belongs to."""
    if "legacy" in case["features"]:
        return "legacy_groups"
    if isinstance(got, dict):
        return "blocks_no_error"
    if [(a["cmd"], a["extra"]) for a in got] == [(a["cmd"], a["extra"]) for a in want]:
        return "args"
    if [(a["cmd"], a["args"]) for a in got] == [(a["cmd"], a["args"]) for a in want]:
        return "command_kind"           # append/prepend, required/optional
    return "blocks"


def oracle(case, impl):
    """Yields (clause, finding_class, env index, detail)."""
    cond_bad = set()
    for c, row in zip(case["conds"], impl["conds"]):
        for i, (got, want) in enumerate(zip(row, c["expect"])):
            if got != want:
                cond_bad.add(i)
                yield ("cond", None, i, "condition %r for %s: %r, its truth table says %r" % (c["text"], case["envs"][i], got, want))
    for i, want in enumerate(case.get("expect_opts") or []):
        got = impl["opts"][i]
        if want is not None and got != want:
            yield ("declare_options", None, i, "for %s the declareOptions commands of the table declare %s, getDeclareOptions returns %s"
                   % (case["envs"][i], json.dumps(want), json.dumps(got)))
    if case.get("dflt") and case["expect"] is not None and case["envs"]:
        d = case["dflt"]
        want = list(case["expect"][0])
        if d["add"] is not False and d["name"]:
            want.append({"cmd": "setupRequired", "args": [d["name"]] + ([d["version"]] if d["version"] else [])
                         + (["--tag", d["tag"]] if d["tag"] else []), "extra": {"optional": True, "silent": True}})
        if impl["dflt"] != want:
            yield ("default_product", None, 0, "with the default product %s the table denotes %s, eups derives %s"
                   % (json.dumps(d), json.dumps(want), json.dumps(impl["dflt"])))
    if case["expect"] is None:
        return
    for i, (got, want) in enumerate(zip(impl["table"], case["expect"])):
        if got != want:
            clause = classify(case, i, got, want)
            if i in cond_bad and clause.startswith("blocks"):
                clause = "blocks_via_cond"
            yield (clause, None, i, "for %s the table denotes %s, eups derives %s" % (case["envs"][i], json.dumps(want), json.dumps(got)))


# ---- entry points ----------------------------------------------------------------------------------------

def corpus_cases():
    d = os.path.join(common.VERIF, "corpus", "C11")
    out = []
    if os.path.isdir(d):
        for f in sorted(os.listdir(d)):
            if f.endswith(".json"):
                with open(os.path.join(d, f)) as fh:
                    c = json.load(fh)
                c["_corpus"] = f
                out.append(c)
    return out


def public(case):
    return {k: case[k] for k in ("kind", "text", "envs", "expect", "expect_opts", "dflt", "conds", "features", "parts", "shrunk_from_items")
            if k in case}


MAX_SHRINKS = 6


def evaluate(ctx, cases):
    nw = 4
    impl = parallel_map(run_impl_chunk, [cases[i::nw] for i in range(nw)], workers=nw)
    impls = [None] * len(cases)
    for k, ch in enumerate(impl):
        for j, v in enumerate(ch):
            impls[k + j * nw] = v
    reqs, spans = [], []
    for c in cases:
        r = model_requests(c)
        spans.append((len(reqs), len(r)))
        reqs += r
    answers = ctx.lean.ask_many(reqs)
    for c, io_, (s, n) in zip(cases, impls, spans):
        mo = model_out(c, answers[s:s + n])
        inp = public(c)
        feats = set(c["features"])
        nontrivial = bool(feats & {"chain", "legacy", "quoted_arg", "enumerated_conds", "enumerated_args", "enumerated_opts"})
        ctx.hist("kind=" + c["kind"])
        for f in c["features"]:
            ctx.hist("feature=" + f)
        declined = False
        for i, v in enumerate(c["envs"]):
            ctx.hist("types=%d" % len(v["types"]))
            got = io_["table"][i]
            ctx.hist("outcome=" + (got["err"] if isinstance(got, dict) else "ok"))
            if isinstance(mo["table"][i], dict) and ("fuel" in mo["table"][i] or "bad-op" in mo["table"][i]):
                raise common.InfraError("model driver: %r on %r" % (mo["table"][i], c["text"]))
            dec = unmodelled(mo["table"][i])
            declined = declined or dec
            ctx.case(key=[c["text"], v], nontrivial=nontrivial, validated=not dec,
                     sample={"input": {"text": c["text"], "env": v}, "impl": got} if ctx.evaluations % 2999 == 0 else None)
            if dec:
                ctx.hist("model_declined")
        mo_cmp = {"table": [b if not unmodelled(b) else a for a, b in zip(io_["table"], mo["table"])],
                  "conds": [[b if not unmodelled(b) else a for a, b in zip(ra, rb)] for ra, rb in zip(io_["conds"], mo["conds"])],
                  "opts": [b if not unmodelled(b) else a for a, b in zip(io_["opts"], mo["opts"])],
                  "chains": mo["chains"] if not unmodelled(mo["chains"]) else io_["chains"],
                  "rewrite": mo["rewrite"],
                  "dflt": mo["dflt"] if not unmodelled(mo["dflt"]) else io_["dflt"]}
        if c.get("dflt"):
            d = c["dflt"]
            ctx.hist("default_product=%s%s%s, add=%s" % ("name" if d["name"] else "none", "+version" if d["version"] else "",
                                                         "+tag" if d["tag"] else "", d["add"]))
        for o in io_["opts"]:
            ctx.hist("declare_options=" + (o["err"] if isinstance(o, dict) else "none" if not o else "some"))
        if mo_cmp["table"] != io_["table"]:
            ctx.disagree("actions", inp, io_, mo)
        elif mo_cmp["conds"] != io_["conds"]:
            ctx.disagree("condition_value", inp, io_, mo)
        elif mo_cmp["rewrite"] != io_["rewrite"]:
            ctx.disagree("rewritten_lines", inp, io_, mo)
        elif mo_cmp["chains"] != io_["chains"]:
            ctx.disagree("parsed_chains", inp, io_, mo)
        elif mo_cmp["opts"] != io_["opts"]:
            ctx.disagree("declare_options", inp, io_, mo)
        elif mo_cmp["dflt"] != io_["dflt"]:
            ctx.disagree("actions_with_default_product", inp, io_, mo)
        fails = list(oracle(c, io_))
        if fails and c.get("parts") and ctx.histogram.get("shrunk", 0) < MAX_SHRINKS:
            # report a reduced input: fewest items / one environment that still fail the same clause
            ctx.hist("shrunk")
            r = common.in_child(shrink, c, fails[0][0])
            if r[0] == "ok" and r[1].get("shrunk_from_items"):
                small = r[1]
                r2 = common.in_child(run_impl_chunk, [small])
                if r2[0] == "ok":
                    s_io = r2[1][0]
                    s_mo = model_out(small, ctx.lean.ask_many(model_requests(small)))
                    for clause, cls, i, detail in oracle(small, s_io):
                        ctx.hist("oracle_fail=" + clause)
                        ctx.fail(clause, public(small), s_io, s_mo, note=detail + " [shrunk from %d items]" % small["shrunk_from_items"], finding=cls)
                    continue
        for clause, cls, i, detail in fails:
            ctx.hist("oracle_fail=" + clause)
            ctx.fail(clause, inp, io_, mo_cmp if not declined else mo, note=detail, finding=cls)


def enum_chain_cases():
    """Exhaustive small enumeration of block structures: chains of 1-3 branches, every branch and the else branch
    empty or holding one command, else present or not, optionally a command before and after; conditions are
    `FLAVOR == Fi` with distinct flavors, evaluated for every Fi and for an unmentioned flavor, so that every
    position of the first true branch (and 'none true') occurs.  Plain layout."""
    fl = ["Linux", "Darwin", "Linux64"]
    out = []

    def cmd(i):
        return {"name": "envSet", "spelled": "envSet", "args": [{"v": "V%d" % i, "q": False}, {"v": str(i), "q": False}],
                "seps": [", "], "pad": False, "gap": "", "semi": ""}
    import itertools
    for nb in (1, 2, 3):
        for bodies in itertools.product([0, 1], repeat=nb):
            for els in (None, 0, 1):
                for outer in (False, True):
                    k = 0
                    items = []
                    if outer:
                        items.append({"k": "cmd", "c": cmd(90)})
                    branches = []
                    for b in range(nb):
                        cs = []
                        if bodies[b]:
                            cs.append(cmd(k))
                            k += 1
                        branches.append({"cond": ["atom", "FLAVOR", False, fl[b]], "cmds": cs})
                    e = None if els is None else ([cmd(50)] if els else [])
                    items.append({"k": "chain", "branches": branches, "els": e})
                    if outer:
                        items.append({"k": "cmd", "c": cmd(91)})
                    lines = []
                    for it in items:
                        if it["k"] == "cmd":
                            lines.append("envSet(%s, %s)" % (it["c"]["args"][0]["v"], it["c"]["args"][1]["v"]))
                            continue
                        for i, br in enumerate(it["branches"]):
                            lines.append(("} else if" if i else "if") + " (FLAVOR == %s) {" % br["cond"][3])
                            lines += ["  envSet(%s, %s)" % (c["args"][0]["v"], c["args"][1]["v"]) for c in br["cmds"]]
                        if it["els"] is not None:
                            lines.append("} else {")
                            lines += ["  envSet(%s, %s)" % (c["args"][0]["v"], c["args"][1]["v"]) for c in it["els"]]
                        lines.append("}")
                    envs = [{"flavor": f, "types": []} for f in fl[:nb] + ["SunOS"]]
                    out.append({"kind": "table", "text": "\n".join(lines) + "\n", "envs": envs,
                                "expect": [denote_table(items, v["flavor"], v["types"]) for v in envs], "conds": [],
                                "features": sorted(table_features(items) | {"enumerated"})})
    return out


def enum_cond_cases(max_depth, from_level=0):
    """Exhaustive enumeration of conditions up to a depth over 2 flavors and 2 types (atoms: FLAVOR/TYPE x ==/!= x
    2 words), minimal parentheses, evaluated for 3 flavors x {no type, one, two}."""
    atoms = [["atom", v, n, w] for v, ws in (("FLAVOR", ["Linux", "Darwin"]), ("TYPE", ["build", "exact"])) for n in (False, True) for w in ws]
    levels = [atoms]
    for _d in range(max_depth):
        prev = [e for lv in levels for e in lv]
        levels.append([[op, a, b] for op in ("and", "or") for a in prev for b in prev if cond_depth([op, a, b]) == len(levels)])
    envs = [{"flavor": f, "types": t} for f in ("Linux", "Darwin", "SunOS") for t in ([], ["build"], ["build", "exact"])]

    def txt(e, prec=0):
        if e[0] == "atom":
            return "%s %s %s" % (e[1], "!=" if e[2] else "==", e[3])
        own = 1 if e[0] == "and" else 0
        s_ = txt(e[1], own) + (" && " if own else " || ") + txt(e[2], own + 1)
        return "(" + s_ + ")" if own < prec else s_
    out = []
    chunk = []
    for e in [e for lv in levels[from_level:] for e in lv]:
        chunk.append({"text": txt(e), "expect": [denote_cond(e, v["flavor"], v["types"]) for v in envs]})
        if len(chunk) == 40:
            out.append({"kind": "conds", "text": "", "envs": envs, "expect": None, "conds": chunk, "features": ["enumerated_conds"]})
            chunk = []
    if chunk:
        out.append({"kind": "conds", "text": "", "envs": envs, "expect": None, "conds": chunk, "features": ["enumerated_conds"]})
    return out


ARG_ALPHABET = ["a", '"', "\\", ",", " ", ")"]


OPT_ALPHABET = ["k", "v", "=", " ", ",", '"']


def enum_opt_cases(max_len, min_len=1):
    """Exhaustive small enumeration of option texts: every string over {k v = blank , quote} up to a length as the
    argument text of one `declareOptions(...)` line, one table each (correspondence of getDeclareOptions: tokeniser,
    split at `=`, pairing, dictionary; no denotation is claimed)."""
    import itertools
    env = [{"flavor": "Linux", "types": []}]
    out = []
    for n in range(min_len, max_len + 1):
        for t in itertools.product(OPT_ALPHABET, repeat=n):
            out.append({"kind": "opts_enum", "text": "declareOptions(" + "".join(t) + ")\n", "envs": env, "expect": None, "conds": [],
                        "features": ["enumerated_opts"]})
    return out


def enum_arg_cases(max_len, per_table=100, min_len=0):
    """Exhaustive small enumeration of argument texts: every string over {a " \\ , blank )} up to a length, each as
    `print(<string>)` on a line of its own (correspondence of the command pattern and of every step of the argument
    tokeniser, whatever the order of quotes, escapes and separators; no denotation is claimed for these texts)."""
    import itertools
    texts = []
    for n in range(min_len, max_len + 1):
        for t in itertools.product(ARG_ALPHABET, repeat=n):
            texts.append("print(" + "".join(t) + ")")
    out = []
    env = [{"flavor": "Linux", "types": []}]
    for i in range(0, len(texts), per_table):
        out.append({"kind": "args_enum", "text": "\n".join(texts[i:i + per_table]) + "\n", "envs": env, "expect": None,
                    "conds": [], "features": ["enumerated_args"]})
    return out


# ---- the setup type: from the command line to Table.actions ------------------------------------------------

VALID_DEFAULT = ["exact", "build"]          # hooks.config.Eups.setupTypes


def gen_setuptype_case(rng):
    """A `--type` option (as `setup` passes it: the string; as `eups <cmd> -T` passes it: str.split(); or a list / None
    given to Eups directly), an exact_version flag, a table with conditions over TYPE, a flavor.  `expect_*` is what
    the option means (None: no claim — separators at the ends, commas in `eups -T`)."""
    via = rng.choice(["setup", "setup", "cmd", "init_list", "init_none"])
    valid = None if rng.random() < 0.7 else "build exact science"
    valid_list = VALID_DEFAULT if valid is None else valid.split()
    pool = valid_list + (["bogus"] if rng.random() < 0.15 else [])
    words = rng.sample(pool, rng.randint(0, min(3, len(pool))))
    exact = rng.choice([None, False, True])
    claim = True
    if via in ("setup", "cmd"):
        seps = [rng.choice([" ", ",", ", ", "  ", " ,", "\t"] if via == "setup" else [" ", "  ", "\t", " ", ","]) for _ in words[1:]]
        if via == "cmd" and any("," in x for x in seps):
            claim = False
        arg = "".join(w + x for w, x in zip(words, seps + [""]))
        r = rng.random()
        if r < 0.08:
            arg, claim = rng.choice([" ", ","]) + arg, claim and via == "cmd" and not arg.startswith(",")
        elif r < 0.16:
            arg, claim = arg + rng.choice([" ", ","]), False
        if via == "cmd" and ("," in arg):
            claim = False
    elif via == "init_list":
        arg = list(words)
    else:
        arg, words = None, []
    items = gen_table(rng)
    # a chain that tells `exact` from not: the later evaluations through one Eups object must keep seeing the same types
    mark = lambda n: {"name": "envSet", "spelled": "envSet", "args": [{"v": "SEEN", "q": False}, {"v": n, "q": False}], "seps": [", "],  # noqa
                      "pad": False, "gap": "", "semi": ""}
    items.insert(rng.randint(0, len(items)), {"k": "chain", "branches": [{"cond": ("atom", "TYPE", rng.random() < 0.3, "exact"),
                                                                           "cmds": [mark("if")]}], "els": [mark("else")]})
    features = set()
    text = join_parts(render_table(rng, items, features))
    fl, ty = mentioned(items)
    flavor = rng.choice(fl + [rng.choice(OTHER_FLAVORS)])
    follow = rng.choice([None, True, False])
    # a sequence of evaluations on the one live Eups object: dependency walks (inexact ones among them) and
    # evaluations of the table as Eups.setup does them
    steps = [rng.choice([{"k": "deps", "fe": False}, {"k": "deps", "fe": None}, {"k": "deps", "fe": True}, {"k": "actions"}, {"k": "actions"}])
             for _ in range(rng.randint(2, 5))]
    if rng.random() < 0.5:
        steps = [{"k": "deps", "fe": False}] + steps + [{"k": "actions"}, {"k": "deps", "fe": None}]
    case = {"kind": "setuptype", "via": via, "arg": arg, "exact": exact, "valid": valid, "text": text, "flavor": flavor,
            "follow": follow, "steps": steps, "expect_types": None, "expect_actions": None, "expect_deptypes": None, "expect_seq": None}
    if claim:
        if any(w not in valid_list for w in words):
            case["expect_types"] = "EupsException"
        else:
            types = list(words) + (["exact"] if exact is True and "exact" not in words else [])
            case["expect_types"] = {"types": types, "exact": "exact" in types}
            case["expect_actions"] = denote_table(items, flavor, types)
            fe = follow if follow is not None else ("exact" in types)
            case["expect_deptypes"] = types if fe else [t for t in types if t != "exact"]
            seq = []
            for st in steps:
                if st["k"] == "deps":
                    f2 = st["fe"] if st["fe"] is not None else ("exact" in types)
                    seq.append({"state": types, "asked": types if f2 else [t for t in types if t != "exact"]})
                else:
                    seq.append({"state": types, "actions": case["expect_actions"]})
            case["expect_seq"] = seq
    return case


_st_root = None


def run_impl_setuptype(case):
    global _st_root, _scratch
    common.import_eups()
    import eups.hooks as hooks
    from eups.table import Table
    from eups.Product import Product
    import eups.utils as utils
    # (Eups(readCache=False), as `setup` constructs it, does not survive defaultProduct["name"] = None)
    hooks.config.Eups.defaultProduct.update({"name": "implicitProducts", "version": None, "tag": None})
    sink = io.StringIO()
    utils.stderr = utils.stdwarn = utils.stdinfo = utils.stdok = sink
    if _st_root is None:
        _st_root = common.scratch("c11st")
        common.mkstacks(_st_root, default_product=True)
    out = {"types": None, "actions": None, "deptypes": None, "cli": None, "seq": None}
    with contextlib.redirect_stderr(io.StringIO()), contextlib.redirect_stdout(io.StringIO()):
        arg = case["arg"]
        if case["via"] == "cmd":
            arg = arg.split()                                    # cmd.py: setupType = self.opts.setupType.split()
        kw = {}
        if case["valid"] is not None:
            kw["validSetupTypes"] = case["valid"]
        if case["via"] in ("cmd", "setup") and case["valid"] is None:
            out["cli"] = run_cli(case)                           # the real command classes, option parser included
        try:
            E = common.new_eups(setupType=list(arg) if isinstance(arg, list) else arg, exact_version=case["exact"], **kw)
        except Exception as ex:  # noqa
            out["types"] = type(ex).__name__
            return out
        out["types"] = {"types": list(E.setupType), "exact": bool(E.exact_version)}
        path = os.path.join(_st_root, "t.table")
        with open(path, "w") as f:
            f.write(case["text"])
        try:
            table = Table(path, Product(PRODUCT, "1.0", flavor="Linux", dir="/nowhere/foo"), addDefaultProduct=False)
            out["actions"] = [canon_action(a) for a in table.actions(case["flavor"], setupType=E.setupType)]
            seen = []

            def spy(flavor, setupType=[], verbose=0):
                seen.append(list(setupType))
                return []
            table.actions = spy
            table.dependencies(E, followExact=case["follow"])
            out["deptypes"] = seen[0] if len(seen) == 1 else {"err": "actions called %d times" % len(seen)}
            del table.actions
            # the sequence, on the same live Eups object and the same Table
            if case.get("steps"):
                real = table.actions
                seq = []
                for st in case["steps"]:
                    if st["k"] == "deps":
                        asked = []

                        def spy2(flavor, setupType=[], verbose=0):
                            asked.append(list(setupType))
                            return real(flavor, setupType=setupType, verbose=verbose)
                        table.actions = spy2
                        try:
                            table.dependencies(E, followExact=st["fe"])
                        finally:
                            del table.actions
                        seq.append({"state": list(E.setupType), "asked": asked[0] if len(asked) == 1 else {"err": "%d calls" % len(asked)}})
                    else:
                        acts = [canon_action(a) for a in table.actions(case["flavor"], setupType=E.setupType)]   # Eups.setup
                        seq.append({"state": list(E.setupType), "actions": acts})
                out["seq"] = seq
        except Exception as ex:  # noqa
            out["actions"] = {"err": type(ex).__name__}
    return out


def run_cli(case):
    """`eups list [-e] -T <arg>` through eups.cmd.EupsCmd, `setup [-e] --type <arg> <no such product>` through
    eups.setupcmd.EupsSetup: the setupType / exact_version of the Eups instance the command constructs."""
    import eups
    import eups.cmd
    import eups.setupcmd
    orig = eups.Eups
    seen = []

    class Spy(orig):
        def __init__(self, *a, **k):
            try:
                super().__init__(*a, **k)
            except Exception as ex:  # noqa
                seen.append(type(ex).__name__)
                raise
            seen.append({"types": list(self.setupType), "exact": bool(self.exact_version)})
    eups.Eups = Spy
    eups.cmd._errstrm = io.StringIO()                            # module-level stream the commands write diagnostics to
    try:
        flag = ["-e"] if case["exact"] is True else []
        try:
            if case["via"] == "cmd":
                eups.cmd.EupsCmd(args=["list"] + flag + ["-T", case["arg"]], toolname="eups").run()
            else:
                eups.setupcmd.EupsSetup(args=flag + ["--type", case["arg"], "nosuchproduct"], toolname="eups_setup").run()
        except SystemExit:
            pass
        except Exception as ex:  # noqa
            if not seen:
                seen.append({"err": type(ex).__name__})
    finally:
        eups.Eups = orig
    return seen[0] if seen else {"err": "no Eups constructed"}


def run_impl_setuptype_chunk(cases):
    global _st_root
    res = [run_impl_setuptype(c) for c in cases]
    if _st_root is not None:
        common.rmtree(_st_root)
        _st_root = None
    return res


def conv_seq(seq):
    out = []
    for o in seq:
        o = dict(o)
        if isinstance(o.get("actions"), dict):
            o["actions"] = {"err": o["actions"].get("err", "fuel")}
        out.append(o)
    return out


def evaluate_setuptype(ctx, cases):
    if not cases:
        return
    nw = 4
    impl = parallel_map(run_impl_setuptype_chunk, [cases[i::nw] for i in range(nw)], workers=nw)
    impls = [None] * len(cases)
    for k, ch in enumerate(impl):
        for j, v in enumerate(ch):
            impls[k + j * nw] = v
    valid = lambda c: VALID_DEFAULT if c["valid"] is None else c["valid"].split()  # noqa
    a1 = ctx.lean.ask_many([{"m": "c11", "op": "setuptype", "arg": c["arg"], "exact": c["exact"] is True, "valid": valid(c),
                             "via": "cmd" if c["via"] == "cmd" else "init"} for c in cases])
    mts = [({"types": a["types"], "exact": a["exact"]} if a.get("out") == "ok" else a.get("err", a)) for a in a1]
    reqs = []
    for c, mt in zip(cases, mts):
        if isinstance(mt, dict):
            fe = c["follow"] if c["follow"] is not None else mt["exact"]
            reqs.append({"m": "c11", "op": "table", "text": c["text"], "flavor": c["flavor"], "types": mt["types"], "pdir": PDIR})
            reqs.append({"m": "c11", "op": "deptypes", "types": mt["types"], "followExact": bool(fe)})
            if c.get("steps"):
                reqs.append({"m": "c11", "op": "typeseq", "types": mt["types"], "exact": mt["exact"], "steps": c["steps"],
                             "text": c["text"], "flavor": c["flavor"], "pdir": PDIR})
    a2 = iter(ctx.lean.ask_many(reqs))
    for c, io_, mt in zip(cases, impls, mts):
        mo = {"types": mt, "actions": None, "deptypes": None}
        if isinstance(mt, dict):
            a = next(a2)
            mo["actions"] = a["actions"] if a.get("out") == "ok" else {"err": a.get("err", "fuel")}
            mo["deptypes"] = next(a2)["types"]
            if c.get("steps"):
                mo["seq"] = conv_seq(next(a2)["seq"])
        mo.setdefault("seq", None)
        inp = {k: c.get(k) for k in ("kind", "via", "arg", "exact", "valid", "text", "flavor", "follow", "steps", "expect_types",
                                     "expect_actions", "expect_deptypes", "expect_seq")}
        ctx.hist("kind=setuptype")
        ctx.hist("setuptype_via=" + c["via"])
        ctx.hist("setuptype=" + (io_["types"] if isinstance(io_["types"], str) else "%d types%s" % (len(io_["types"]["types"]), ", exact" if io_["types"]["exact"] else "")))
        dec = unmodelled(mo["actions"])
        ctx.case(key=[c["via"], c["arg"], c["exact"], c["valid"], c["text"], c["flavor"], c["follow"]], nontrivial=True, validated=not dec)
        if dec:
            ctx.hist("model_declined")
            mo["actions"] = io_["actions"]
        if io_.get("cli") is not None:
            ctx.hist("setuptype_cli=" + c["via"])
            mo["cli"] = mo["types"]
        if mo["types"] != io_["types"]:
            ctx.disagree("setup_type", inp, io_, mo)
        elif io_.get("cli") is not None and mo["types"] != io_["cli"]:
            ctx.disagree("setup_type_cli", inp, io_, mo)
        elif mo["actions"] != io_["actions"]:
            ctx.disagree("actions_via_setup_type", inp, io_, mo)
        elif mo["deptypes"] != io_["deptypes"] and not isinstance(io_["actions"], dict):
            ctx.disagree("dependencies_types", inp, io_, mo)
        elif io_.get("seq") is not None and not dec and mo["seq"] != io_["seq"]:
            ctx.disagree("setup_type_sequence", inp, io_, mo)
        if io_.get("seq") is not None:
            ctx.hist("setuptype_sequences")
            ks = [st["k"] if st["k"] == "actions" else "deps" + str(st["fe"]) for st in c["steps"]]
            has_exact = isinstance(io_["types"], dict) and io_["types"]["exact"]
            if has_exact and "depsFalse" in ks and "actions" in ks[ks.index("depsFalse"):]:
                ctx.hist("setuptype_exact_inexact_walk_then_actions")
            if has_exact and "depsFalse" in ks and [k for k in ks[ks.index("depsFalse") + 1:] if k.startswith("deps")]:
                ctx.hist("setuptype_exact_inexact_walk_then_walk")
        if c["expect_types"] is not None:
            ctx.hist("setuptype_claimed")
            if io_["types"] != c["expect_types"]:
                ctx.fail("setup_type", inp, io_, mo, note="the option names %s, Eups holds %s" % (json.dumps(c["expect_types"]), json.dumps(io_["types"])))
            elif io_.get("cli") is not None and io_["cli"] != c["expect_types"]:
                ctx.fail("setup_type_cli", inp, io_, mo, note="the option names %s, the Eups instance of the command holds %s"
                         % (json.dumps(c["expect_types"]), json.dumps(io_["cli"])))
            elif c["expect_actions"] is not None and io_["actions"] != c["expect_actions"]:
                ctx.fail("blocks_via_setup_type", inp, io_, mo, note="for flavor %s and the types of the option the table denotes %s, eups derives %s"
                         % (c["flavor"], json.dumps(c["expect_actions"]), json.dumps(io_["actions"])))
            elif c["expect_deptypes"] is not None and io_["deptypes"] != c["expect_deptypes"] and not isinstance(io_["actions"], dict):
                ctx.fail("dependencies_types", inp, io_, mo, note="Table.dependencies must read the table for the types %s, it asked for %s"
                         % (json.dumps(c["expect_deptypes"]), json.dumps(io_["deptypes"])))
            elif c.get("expect_seq") is not None and io_.get("seq") is not None and io_["seq"] != c["expect_seq"]:
                k = next(i for i, (a, b) in enumerate(zip(io_["seq"], c["expect_seq"])) if a != b)
                ctx.fail("setup_type_sequence", inp, io_, mo, note="step %d (%s) on the same Eups object: expected %s, saw %s"
                         % (k, json.dumps(c["steps"][k]), json.dumps(c["expect_seq"][k]), json.dumps(io_["seq"][k])))


FLOORS_PRESENT = tuple("feature=synonym=" + k for k in SYNONYMS) + ("default_product=name, add=None", "default_product=name+version+tag, add=None", "default_product=name, add=False",
                  "default_product=none, add=None", "feature=else_if", "feature=else", "feature=empty_branch", "feature=quoted_arg", "feature=legacy",
                  "feature=cond_depth=2", "types=0", "types=2", "feature=first_and_last_quoted",
                  "feature=declare_options", "declare_options=some", "feature=branches>=8")
# argument shapes where the order of the tokeniser's steps is observable: a floor for each
FLOORS_10 = ("feature=lone_quoted_with_escape", "feature=lone_quoted_with_escape_and_commas_or_blank_runs",
             "feature=whole_list_quoted_commas_or_blank_runs", "feature=lone_quoted_padded", "feature=escape_in_first_arg",
             "feature=escape_in_last_arg", "feature=escape_next_to_closing_quote", "feature=escape_next_to_opening_quote")


def check_distribution(ctx, generated):
    h = ctx.histogram
    if not ctx.evaluations:
        return
    if ctx.distinct_nontrivial < ctx.evaluations * 0.3:
        raise common.InfraError("degenerate distribution: %d non-trivial of %d" % (ctx.distinct_nontrivial, ctx.evaluations))
    if h.get("model_declined", 0) > ctx.evaluations * 0.03:
        raise common.InfraError("the model declined %d of %d cases" % (h.get("model_declined", 0), ctx.evaluations))
    if generated >= 1000:
        for need in FLOORS_PRESENT:
            if not h.get(need):
                raise common.InfraError("degenerate distribution: no case with " + need)
        for need in FLOORS_10:
            if h.get(need, 0) < 10:
                raise common.InfraError("degenerate distribution: %d cases with %s (floor 10 per 1000 tables)" % (h.get(need, 0), need))


def run(ctx):
    """The ordinary quick portion — corpus, the small exhaustive enumerations, 3000 generated tables with the floors
    of their distribution — always runs first and completely, whatever the budget (thorough tier, or quick tier
    escalated because a mirrored function changed).  Only then the enlarged budget is spent, round-robin over the
    case classes (conditions of depth 2, argument texts of length 6-7, further generated tables), so that no class
    is starved when the time limit cuts the run short."""
    cases = corpus_cases()
    ctx.hist("corpus", len(cases))
    evaluate(ctx, [c for c in cases if c.get("kind") != "setuptype"])
    evaluate_setuptype(ctx, [c for c in cases if c.get("kind") == "setuptype"])
    en = enum_chain_cases()
    ctx.hist("enumerated_chains", len(en))
    evaluate(ctx, en)
    ec = enum_cond_cases(1)
    ctx.hist("enumerated_cond_batches", len(ec))
    evaluate(ctx, ec)
    ea = enum_arg_cases(5)
    ctx.hist("enumerated_arg_tables", len(ea))
    eo = enum_opt_cases(4)
    ctx.hist("enumerated_option_texts", len(eo))
    half = (len(ea) + 1) // 2
    generated = 0
    for part in (None, ea[:half] + eo[::2], None, ea[half:] + eo[1::2]):   # generated tables and enumerated texts take turns
        if ctx.out_of_time():
            break
        if part is None:
            evaluate(ctx, [gen_case(ctx.rng) for _ in range(1500)])
            generated += 1500
        else:
            evaluate(ctx, part)
    if not ctx.out_of_time():
        evaluate_setuptype(ctx, [gen_setuptype_case(ctx.rng) for _ in range(400)])
        for need in ("setuptype_via=setup", "setuptype_via=cmd", "setuptype_via=init_list", "setuptype=EupsException",
                     "setuptype_cli=cmd", "setuptype_cli=setup", "setuptype_sequences",
                     "setuptype=2 types, exact", "setuptype_claimed"):
            if not ctx.histogram.get(need):
                raise common.InfraError("degenerate distribution: no case with " + need)
        for need in ("setuptype_exact_inexact_walk_then_actions", "setuptype_exact_inexact_walk_then_walk"):
            if ctx.histogram.get(need, 0) < 20:
                raise common.InfraError("degenerate distribution: %d cases with %s (floor 20)" % (ctx.histogram.get(need, 0), need))
    check_distribution(ctx, generated)
    if not ctx.n(0, 1):
        return
    # the enlarged budget
    ec2 = enum_cond_cases(2, from_level=2)
    ea2 = enum_arg_cases(7, min_len=6) + enum_opt_cases(5, min_len=5)
    ctx.hist("enumerated_cond_batches", len(ec2))
    ctx.hist("enumerated_arg_tables", len(ea2))

    def chunks(xs, k):
        for i in range(0, len(xs), k):
            yield xs[i:i + k]

    def stream(n, k):
        done = 0
        while done < n:
            yield [gen_case(ctx.rng) for _ in range(min(k, n - done))]
            done += k
    def st_stream(n, k):
        done = 0
        while done < n:
            yield [gen_setuptype_case(ctx.rng) for _ in range(min(k, n - done))]
            done += k
    classes = [chunks(ec2, 100), chunks(ea2, 200), stream(57000, 1500), st_stream(3000, 400)]
    while classes and not ctx.out_of_time():
        for it in list(classes):
            if ctx.out_of_time():
                break
            batch = next(it, None)
            if batch is None:
                classes.remove(it)
                continue
            if batch and batch[0]["kind"] == "setuptype":
                evaluate_setuptype(ctx, batch)
                continue
            evaluate(ctx, batch)
            if batch and batch[0]["kind"] not in ("conds", "args_enum", "opts_enum"):
                generated += len(batch)
    check_distribution(ctx, generated)


def replay(ctx, rp):
    c = rp["input"]
    if c.get("kind") == "setuptype":
        return replay_setuptype(ctx, c)
    r = common.in_child(run_impl_chunk, [c])
    io_ = r[1][0] if r[0] == "ok" else {"child": list(r)}
    mo = model_out(c, ctx.lean.ask_many(model_requests(c)))
    fails = []
    if r[0] == "ok":
        fails = [{"clause": cl, "class": k, "env": c["envs"][i], "detail": d} for cl, k, i, d in oracle(c, io_)]
    return {"input": c, "impl_output": io_, "model_output": mo, "agree": io_ == mo, "fails": fails}


def replay_setuptype(ctx, c):
    c = dict(c)
    for k in ("expect_types", "expect_actions", "expect_deptypes", "expect_seq", "steps"):
        c.setdefault(k, None)
    r = common.in_child(run_impl_setuptype_chunk, [c])
    io_ = r[1][0] if r[0] == "ok" else {"child": list(r)}
    valid = VALID_DEFAULT if c["valid"] is None else c["valid"].split()
    a = ctx.lean.ask_many([{"m": "c11", "op": "setuptype", "arg": c["arg"], "exact": c["exact"] is True, "valid": valid,
                            "via": "cmd" if c["via"] == "cmd" else "init"}])[0]
    mo = {"types": {"types": a["types"], "exact": a["exact"]} if a.get("out") == "ok" else a.get("err"), "actions": None, "deptypes": None}
    if isinstance(mo["types"], dict):
        fe = c["follow"] if c["follow"] is not None else mo["types"]["exact"]
        b = ctx.lean.ask_many([{"m": "c11", "op": "table", "text": c["text"], "flavor": c["flavor"], "types": mo["types"]["types"], "pdir": PDIR},
                               {"m": "c11", "op": "deptypes", "types": mo["types"]["types"], "followExact": bool(fe)}])
        mo["actions"] = b[0]["actions"] if b[0].get("out") == "ok" else {"err": b[0].get("err", "fuel")}
        mo["deptypes"] = b[1]["types"]
    mo["cli"] = mo["types"] if io_.get("cli") is not None else None
    mo["seq"] = None
    if isinstance(mo["types"], dict) and c.get("steps"):
        q = ctx.lean.ask_many([{"m": "c11", "op": "typeseq", "types": mo["types"]["types"], "exact": mo["types"]["exact"], "steps": c["steps"],
                                "text": c["text"], "flavor": c["flavor"], "pdir": PDIR}])[0]
        mo["seq"] = conv_seq(q["seq"])
    fails = []
    if c["expect_types"] is not None and r[0] == "ok":
        if io_["types"] != c["expect_types"]:
            fails.append({"clause": "setup_type", "detail": "the option names %s, Eups holds %s" % (json.dumps(c["expect_types"]), json.dumps(io_["types"]))})
        elif io_.get("cli") is not None and io_["cli"] != c["expect_types"]:
            fails.append({"clause": "setup_type_cli", "detail": "the Eups instance of the command holds %s" % json.dumps(io_["cli"])})
        elif c["expect_actions"] is not None and io_["actions"] != c["expect_actions"]:
            fails.append({"clause": "blocks_via_setup_type", "detail": "eups derives %s" % json.dumps(io_["actions"])})
        elif c["expect_deptypes"] is not None and io_["deptypes"] != c["expect_deptypes"] and not isinstance(io_["actions"], dict):
            fails.append({"clause": "dependencies_types", "detail": "Table.dependencies asked for %s" % json.dumps(io_["deptypes"])})
        elif c.get("expect_seq") is not None and io_.get("seq") is not None and io_["seq"] != c["expect_seq"]:
            fails.append({"clause": "setup_type_sequence", "detail": "the sequence on one Eups object gave %s" % json.dumps(io_["seq"])})
    return {"input": c, "impl_output": io_, "model_output": mo, "agree": io_ == mo, "fails": fails}
