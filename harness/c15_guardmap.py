"""Static guard map of C15: every call in `Eups.declare / undeclare / assignTag / unassignTag / remove` that can
write (a `Database` or `ProductStack` mutator, a file-system mutator, another of these Eups methods), with the
`noaction` conditions that dominate it.  Derived from the source on disk by an AST walk; compared on every run
with the list recorded beside the model (`c15_guardmap.json`).  Conditions that do not mention `noaction`, line
numbers, variable names in arguments and anything that is not a write call are ignored, so a harmless
refactoring leaves the map unchanged; a new write site or a lost guard changes it."""
import ast
import json
import os
import re

METHODS = ["declare", "undeclare", "assignTag", "unassignTag", "remove"]
WRITE_LAST = {"declare", "undeclare", "assignTag", "unassignTag",                       # Database / Eups / ProductStack
              "addProduct", "removeProduct", "save", "refreshFromDatabase", "persist", "reload", "clearCache",
              "makedirs", "mkdir", "rmdir", "removedirs", "unlink", "remove", "rename", "replace", "symlink", "link",
              "chmod", "chown", "utime", "truncate", "fdopen", "mkstemp", "mkdtemp", "NamedTemporaryFile",
              "copyfile", "copy", "copy2", "copytree", "move", "rmtree", "write", "writelines", "dump", "system",
              "popen", "call", "check_call", "run", "Popen", "open", "AtomicFile", "_remove"}
HERE = os.path.dirname(os.path.abspath(__file__))
RECORDED = os.path.join(HERE, "c15_guardmap.json")


def _callee(node):
    """normalised text of what is called: arguments and subscripts emptied"""
    txt = ast.unparse(node.func)
    prev = None
    while prev != txt:
        prev = txt
        txt = re.sub(r"\([^()]*\)", "()", txt)
        txt = re.sub(r"\[[^\[\]]*\]", "[]", txt)
    return txt


def _is_write(node):
    txt = _callee(node)
    last = txt.split(".")[-1]
    if last not in WRITE_LAST:
        return None
    if txt == "open":
        mode = None
        if len(node.args) > 1 and isinstance(node.args[1], ast.Constant):
            mode = node.args[1].value
        for k in node.keywords:
            if k.arg == "mode" and isinstance(k.value, ast.Constant):
                mode = k.value.value
        if mode is None or not any(c in str(mode) for c in "wa+x"):
            return None
        return "open(write)"
    if last in ("run", "call", "remove", "replace", "copy", "write", "dump", "link") and not re.match(r"^(os|shutil|subprocess|utils|pickle|self)\b", txt):
        return None          # list.remove, str.replace, dict.copy, ...
    if last == "print":
        return None
    if last in ("mkstemp", "mkdtemp", "NamedTemporaryFile"):
        # a scratch file is allowed to escape the dry-run guards only because it is made in the system's temporary
        # directory, outside every stack: where it is made is part of the site
        pos = {"mkstemp": 2, "mkdtemp": 2, "NamedTemporaryFile": 7}[last]
        where = node.args[pos] if len(node.args) > pos else None
        for k in node.keywords:
            if k.arg == "dir":
                where = k.value
        if where is not None and not (isinstance(where, ast.Constant) and where.value is None):
            return "%s[dir=%s]" % (txt, ast.unparse(where))
        return "%s[dir=system default]" % txt
    return txt


def _mentions_noaction(test):
    return "noaction" in ast.unparse(test)


def _ends_flow(body):
    return bool(body) and isinstance(body[-1], (ast.Return, ast.Raise, ast.Continue, ast.Break))


class _Walker:
    def __init__(self, fn):
        self.fn = fn
        self.sites = []

    def block(self, stmts, guards):
        guards = list(guards)
        for st in stmts:
            self.stmt(st, guards)
            if isinstance(st, ast.If) and _mentions_noaction(st.test) and _ends_flow(st.body) and not st.orelse:
                guards = guards + ["after: if %s: leave" % ast.unparse(st.test)]

    def stmt(self, st, guards):
        if isinstance(st, ast.If):
            self.expr(st.test, guards)
            if _mentions_noaction(st.test):
                t = ast.unparse(st.test)
                self.block(st.body, guards + ["if %s" % t])
                self.block(st.orelse, guards + ["else of: if %s" % t])
            else:
                self.block(st.body, guards)
                self.block(st.orelse, guards)
        elif isinstance(st, (ast.For, ast.While)):
            self.expr(st.iter if isinstance(st, ast.For) else st.test, guards)
            self.block(st.body, guards)
            self.block(st.orelse, guards)
        elif isinstance(st, ast.Try):
            self.block(st.body, guards)
            for h in st.handlers:
                self.block(h.body, guards)
            self.block(st.orelse, guards)
            self.block(st.finalbody, guards)
        elif isinstance(st, ast.With):
            for it in st.items:
                self.expr(it.context_expr, guards)
            self.block(st.body, guards)
        elif isinstance(st, (ast.FunctionDef, ast.ClassDef)):
            self.block(st.body, guards + ["in nested def %s" % st.name])
        else:
            self.expr(st, guards)

    def expr(self, node, guards):
        for n in ast.walk(node):
            if isinstance(n, ast.Call):
                w = _is_write(n)
                if w:
                    g = [x for x in guards]
                    self.sites.append({"fn": self.fn, "call": w, "guards": g, "protected": protected(g)})


def protected(guards):
    """do the dominating conditions imply `not self.noaction`?"""
    for g in guards:
        if g.startswith("after: if ") and re.match(r"^after: if (self\.)?noaction: leave$", g):
            return True
        if g.startswith("else of: if ") and re.match(r"^else of: if (self\.)?noaction$", g):
            return True
        if g.startswith("if "):
            t = g[3:]
            parts = [p.strip() for p in t.split(" and ")]
            if any(re.match(r"^not (self\.)?noaction$", p) for p in parts) and " or " not in t:
                return True
    return False


def extract(repo):
    src = open(os.path.join(repo, "python", "eups", "Eups.py")).read()
    tree = ast.parse(src)
    out = []
    for cls in tree.body:
        if isinstance(cls, ast.ClassDef) and cls.name == "Eups":
            for fn in cls.body:
                if isinstance(fn, ast.FunctionDef) and fn.name in METHODS:
                    w = _Walker(fn.name)
                    w.block(fn.body, [])
                    out += w.sites
    return out


def summarise(sites):
    """multiset of (fn, call, protected, guards) as sorted list of strings"""
    rows = ["%s | %s | %s | %s" % (s["fn"], s["call"], "guarded" if s["protected"] else "UNGUARDED", "; ".join(s["guards"]))
            for s in sites]
    return sorted(rows)


def recorded():
    with open(RECORDED) as f:
        return json.load(f)["sites"]


if __name__ == "__main__":
    import sys
    repo = sys.argv[1] if len(sys.argv) > 1 else os.environ.get("EUPS_REPO", "/repo")
    rows = summarise(extract(repo))
    if "--record" in sys.argv:
        json.dump({"comment": "recorded by harness/c15_guardmap.py --record from the registered tree; see the module docstring",
                   "sites": rows}, open(RECORDED, "w"), indent=1)
    for r in rows:
        print(r)
