"""Static guard map of C15: every call that can write (a `Database` or `ProductStack` mutator, a file-system
mutator) REACHABLE from `Eups.declare / undeclare / assignTag / unassignTag / remove` through methods of class
`Eups`, with whether the `noaction` conditions dominating it — along the whole call chain — imply `not noaction`.

The summary compared with the recorded one (`c15_guardmap.json`) is *semantic*: one row per (chain of the five public
methods the call is reached through, what is called, guarded or not).  Helper methods (`self._anything(...)`) are
inlined at their call sites, so extracting or merging helpers changes nothing; the receiver of a call is dropped
(`self.versions[d].save` = `stack.save`); the text of the guards is dropped (`if not self.noaction:` = `if
self.noaction: ...; return` = `else:` of `if self.noaction`); a local alias of the flag (`dry = self.noaction`) is
expanded; rows are a set (duplicated code may be merged).  A write site that loses its guard, a new unguarded kind of
write, a scratch file made elsewhere than the system's temporary directory: the rows differ.  The dynamic part of
harness/c15.py (call trace + audit of every write under the stacks in every generated dry run) covers what a
summary of this kind cannot see."""
import ast
import json
import os
import re

METHODS = ["declare", "undeclare", "assignTag", "unassignTag", "remove"]
WRITE_LAST = {"declare", "undeclare", "assignTag", "unassignTag",                       # Database / Eups / ProductStack
              "addProduct", "removeProduct", "save", "refreshFromDatabase", "persist", "reload", "clearCache",
              "makedirs", "mkdir", "rmdir", "removedirs", "unlink", "remove", "rename", "replace", "symlink", "link",
              "chmod", "chown", "utime", "truncate", "fdopen", "mkstemp", "mkdtemp", "NamedTemporaryFile",
              "copyfile", "copy", "copy2", "copytree", "move", "rmtree", "write", "writelines", "dump", "system",
              "popen", "call", "check_call", "run", "Popen", "open", "AtomicFile", "_remove"}
HERE = os.path.dirname(os.path.abspath(__file__))
RECORDED = os.path.join(HERE, "c15_guardmap.json")


def _callee(node):
    """normalised text of what is called: arguments and subscripts emptied"""
    txt = ast.unparse(node.func)
    prev = None
    while prev != txt:
        prev = txt
        txt = re.sub(r"\([^()]*\)", "()", txt)
        txt = re.sub(r"\[[^\[\]]*\]", "[]", txt)
    return txt


def _is_write(node):
    txt = _callee(node)
    last = txt.split(".")[-1]
    if last not in WRITE_LAST:
        return None
    if txt == "open":
        mode = None
        if len(node.args) > 1 and isinstance(node.args[1], ast.Constant):
            mode = node.args[1].value
        for k in node.keywords:
            if k.arg == "mode" and isinstance(k.value, ast.Constant):
                mode = k.value.value
        if mode is None or not any(c in str(mode) for c in "wa+x"):
            return None
        return "open(write)"
    if last in ("run", "call", "remove", "replace", "copy", "write", "dump", "link") and not re.match(r"^(os|shutil|subprocess|utils|pickle|self)\b", txt):
        return None          # list.remove, str.replace, dict.copy, ...
    if last == "print":
        return None
    if last in ("mkstemp", "mkdtemp", "NamedTemporaryFile"):
        # a scratch file is allowed to escape the dry-run guards only because it is made in the system's temporary
        # directory, outside every stack: where it is made is part of the site
        pos = {"mkstemp": 2, "mkdtemp": 2, "NamedTemporaryFile": 7}[last]
        where = node.args[pos] if len(node.args) > pos else None
        for k in node.keywords:
            if k.arg == "dir":
                where = k.value
        if where is not None and not (isinstance(where, ast.Constant) and where.value is None):
            return "%s[dir=%s]" % (txt, ast.unparse(where))
        return "%s[dir=system default]" % txt
    return txt


def _mentions_noaction(test):
    return "noaction" in ast.unparse(test)


def _ends_flow(body):
    return bool(body) and isinstance(body[-1], (ast.Return, ast.Raise, ast.Continue, ast.Break))


MODULES = ("os", "shutil", "subprocess", "utils", "pickle", "tempfile")
MAXDEPTH = 6


def _kind(w):
    """what is called, receiver dropped unless it is a module"""
    head = w.split("[dir=")[0]
    tail = w[len(head):]
    parts = head.split(".")
    if parts[0] in MODULES:
        return head + tail
    return parts[-1] + tail


class _Subst(ast.NodeTransformer):
    def __init__(self, env):
        self.env = env

    def visit_Name(self, node):
        if isinstance(node.ctx, ast.Load) and node.id in self.env:
            return self.env[node.id]
        return node


def _aliases(fn):
    """local names bound exactly once, to an expression of the dry-run flag (`dry = self.noaction`)"""
    count, val = {}, {}
    for n in ast.walk(fn):
        if isinstance(n, ast.Assign):
            for t in n.targets:
                for x in ast.walk(t):
                    if isinstance(x, ast.Name):
                        count[x.id] = count.get(x.id, 0) + 1
                        if len(n.targets) == 1 and isinstance(t, ast.Name):
                            val[x.id] = n.value
        elif isinstance(n, (ast.AugAssign, ast.AnnAssign, ast.For, ast.With, ast.NamedExpr)):
            for x in ast.walk(getattr(n, "target", None) or ast.Pass()):
                if isinstance(x, ast.Name):
                    count[x.id] = count.get(x.id, 0) + 2
    return {k: v for k, v in val.items() if count.get(k) == 1 and "noaction" in ast.unparse(v)}


def _test_text(test, env):
    import copy
    t = _Subst(env).visit(copy.deepcopy(test)) if env else test
    txt = ast.unparse(ast.fix_missing_locations(t))
    txt = re.sub(r"not \((self\.noaction)\)", r"not \1", txt)
    return txt


class _Walker:
    """sites of one public method, helper methods of the class inlined"""
    def __init__(self, root, methods):
        self.root = root
        self.methods = methods          # name -> FunctionDef of class Eups
        self.sites = []
        self.stack = []                 # methods being inlined (cycle guard)
        self.chain = [root]
        self.env = {}

    def run(self):
        self.enter(self.root, [])
        return self.sites

    def enter(self, name, guards):
        fn = self.methods[name]
        saved = self.env
        self.env = _aliases(fn)
        self.stack.append(name)
        self.block(fn.body, guards)
        self.stack.pop()
        self.env = saved

    def mentions(self, test):
        return "noaction" in _test_text(test, self.env)

    def block(self, stmts, guards):
        guards = list(guards)
        for st in stmts:
            self.stmt(st, guards)
            if isinstance(st, ast.If) and self.mentions(st.test) and _ends_flow(st.body) and not st.orelse:
                guards = guards + ["after: if %s: leave" % _test_text(st.test, self.env)]

    def stmt(self, st, guards):
        if isinstance(st, ast.If):
            self.expr(st.test, guards)
            if self.mentions(st.test):
                t = _test_text(st.test, self.env)
                self.block(st.body, guards + ["if %s" % t])
                self.block(st.orelse, guards + ["else of: if %s" % t])
            else:
                self.block(st.body, guards)
                self.block(st.orelse, guards)
        elif isinstance(st, (ast.For, ast.While)):
            self.expr(st.iter if isinstance(st, ast.For) else st.test, guards)
            self.block(st.body, guards)
            self.block(st.orelse, guards)
        elif isinstance(st, ast.Try):
            self.block(st.body, guards)
            for h in st.handlers:
                self.block(h.body, guards)
            self.block(st.orelse, guards)
            self.block(st.finalbody, guards)
        elif isinstance(st, ast.With):
            for it in st.items:
                self.expr(it.context_expr, guards)
            self.block(st.body, guards)
        elif isinstance(st, (ast.FunctionDef, ast.ClassDef)):
            self.block(st.body, guards + ["in nested def %s" % st.name])
        else:
            self.expr(st, guards)

    def expr(self, node, guards):
        for n in ast.walk(node):
            if not isinstance(n, ast.Call):
                continue
            f = n.func
            if isinstance(f, ast.Attribute) and isinstance(f.value, ast.Name) and f.value.id == "self" and f.attr in self.methods:
                # a method of the class: inlined at the call site, under the guards of the call site
                if f.attr in self.stack or len(self.stack) >= MAXDEPTH:
                    continue
                public = f.attr in METHODS
                if public:
                    self.chain.append(f.attr)
                self.enter(f.attr, guards)
                if public:
                    self.chain.pop()
                continue
            w = _is_write(n)
            if w:
                self.sites.append({"fn": ">".join(self.chain), "call": _kind(w), "guards": list(guards),
                                   "protected": protected(guards)})


def protected(guards):
    """do the dominating conditions imply `not self.noaction`?"""
    for g in guards:
        if g.startswith("after: if ") and re.match(r"^after: if (self\.)?noaction: leave$", g):
            return True
        if g.startswith("else of: if ") and re.match(r"^else of: if (self\.)?noaction$", g):
            return True
        if g.startswith("if "):
            t = g[3:]
            parts = [p.strip() for p in t.split(" and ")]
            if any(re.match(r"^not (self\.)?noaction$", p) for p in parts) and " or " not in t:
                return True
    return False


def extract(repo):
    src = open(os.path.join(repo, "python", "eups", "Eups.py")).read()
    tree = ast.parse(src)
    out = []
    for cls in tree.body:
        if isinstance(cls, ast.ClassDef) and cls.name == "Eups":
            methods = {fn.name: fn for fn in cls.body if isinstance(fn, ast.FunctionDef)}
            for name in METHODS:
                if name in methods:
                    out += _Walker(name, methods).run()
    return out


def summarise(sites):
    """the set of (chain of public methods, call, guarded or not), as a sorted list of strings"""
    return sorted(set("%s | %s | %s" % (s["fn"], s["call"], "guarded" if s["protected"] else "UNGUARDED") for s in sites))


def explain(sites, row):
    """the guards of the sites behind one row of the summary (for the note of a disagreement)"""
    return ["; ".join(s["guards"]) or "(no guard)" for s in sites
            if "%s | %s | %s" % (s["fn"], s["call"], "guarded" if s["protected"] else "UNGUARDED") == row][:3]


def recorded():
    with open(RECORDED) as f:
        return json.load(f)["sites"]


if __name__ == "__main__":
    import sys
    repo = sys.argv[1] if len(sys.argv) > 1 else os.environ.get("EUPS_REPO", "/repo")
    rows = summarise(extract(repo))
    if "--record" in sys.argv:
        json.dump({"comment": "recorded by harness/c15_guardmap.py --record from the registered tree; see the module docstring",
                   "sites": rows}, open(RECORDED, "w"), indent=1)
    for r in rows:
        print(r)
