"""C02 — unsetup is the inverse of setup; a failing request leaves the environment as it found it.

Same implementation runner and model as C01 (harness/lib_setup.py).  Three streams:
 * round trips: prior environment (clean, duplicates, empty elements, custom delimiters, pre-set envSet targets,
   pre-contained elements, directories with blanks) -> `setup p` -> `unsetup p`; oracle: the shell's environment after
   sourcing both command lists equals the prior one (every variable as a duplicate-free list of non-empty elements,
   unset = empty) and every shell function defined by setup is unset again;
 * failing requests (unknown version, missing required dependency): the command list is ["false"] or an exception;
 * a failing optional dependency inside a successful request: the same history is run on the graph with and without
   the `setupOptional` line (whose target sets up a product, contributes, then fails): the environments are equal."""
import copy

from . import common
from . import lib_setup as L

RULE = ("round trips: graph (as C01) x prior (8 kinds) x requested product/version -> setup, unsetup; failing requests; "
        "gadget pairs (graph with / without a failing setupOptional subtree) x histories of 1-3 requests; non-trivial = the "
        "setup step changes the environment or the request fails; distinct = distinct case digests")
TRUSTED = ["harness/lib_setup.py (generator, canonicaliser, the shell-word reading of the emitted command list: "
           "export K=V / export K='V' / unset K / f() { ... ; })",
           "CPython dict/str semantics, os.environ handling, fork"]
ASSUMPTIONS = ["as C01; equality of environments is the property's own (duplicate-free lists of non-empty elements, "
               "unset = empty); the round-trip clause is evaluated when no product of the request's closure is set up "
               "beforehand"]
PID = "C02"
MIRRORS = L.mirrors(PID)


def gen_roundtrip(rng):
    cyc = rng.random() < 0.08
    g = L.gen_graph(rng, cyc=cyc)
    prior, mode = L.gen_prior(rng, g)
    hist = []
    inexact = rng.random() < 0.2
    if rng.random() < 0.3:           # a bystander set up first
        r = L.gen_request(rng, g, op="setup", plain=True)
        r["inexact"] = inexact
        hist.append(r)
    r = L.gen_request(rng, g, op="setup", plain=True)
    r["inexact"] = inexact
    if g.get("eups_named") and rng.random() < 0.5:
        r["name"], r["ver"] = g["eups_named"], None      # product eups_…: EUPS_…_DIR, SETUP_EUPS_…, envSet(EUPS_FOO)
    elif g.get("eups_named") and rng.random() < 0.3:
        users = [d["name"] for d in g["decls"] if any(a.get("a") == "dep" and a["name"] == g["eups_named"] for _, a in L.flat_table(d["table"]))]
        if users:
            r["name"], r["ver"] = rng.choice(users), None
    if rng.random() < 0.2:
        r["types"] = ["build"]          # setup --type build p; unsetup --type build p
        for h in hist:
            h["types"] = ["build"]
    u = dict(r, op="unsetup", ver=None)
    if g.get("nstacks", 1) > 1 and rng.random() < 0.6:
        # the unsetup command runs with another EUPS_PATH than the setup (setup -Z other p; unsetup p): the record's
        # -Z names the stack, so the right table is unwound whatever the path
        u["path"] = rng.choice([[0], [1], [0, 1], [1, 0]])
    hist += [r, u]
    return {"graph": g, "prior": prior, "prior_mode": mode, "history": hist}


def gadget_oracle(ctx, pairs, stats):
    """pairs = [(case with the failing optional line, same case without it)]"""
    flat = [c for p in pairs for c in p]
    res = L.run_cases(ctx, flat)
    for k in range(len(pairs)):
        (c1, G1, raw1, impl1, model1), (c0, G0, raw0, impl0, model0) = res[2 * k], res[2 * k + 1]
        for i, (a, b) in enumerate(zip(impl1, impl0)):
            for d in L.compare(impl1[i], model1[i]):
                ctx.disagree(d, dict(L.case_input(c1), step=i), impl1[i], model1[i])
            if a.get("deep") or b.get("deep"):
                continue
            stats["gadget_steps"] = stats.get("gadget_steps", 0) + 1
            if a != b:
                ctx.hist("clause_failed=failed_optional_dependency_leaves_no_trace")
                ctx.fail("failed_optional_dependency_leaves_no_trace", dict(L.case_input(c1), step=i), a, model1[i],
                         note="with the failing setupOptional(w) line: %r; without it: %r" % (a, b))
            if a["outcome"] != "ok" or raw1[i]["after"] != raw0[i]["after"] and L.canon_env(G1, raw1[i]["after"]) != L.canon_env(G1, raw0[i]["after"]):
                break
        ctx.case(key=L.case_input(c1), nontrivial=True)
        ctx.hist("gadget_pair")


def run(ctx):
    stats = {}
    L.evaluate(ctx, PID, L.load_corpus(PID), stats, extra=L.roundtrip_oracle)
    target = ctx.n(1500, 20000)
    done = 0
    import time
    soft = L.soft_deadline(ctx)
    while done < target and not ctx.out_of_time() and time.time() < soft:
        batch = [gen_roundtrip(ctx.rng) for _ in range(96)]
        L.evaluate(ctx, PID, batch, stats, extra=L.roundtrip_oracle)
        done += len(batch)
        pairs = []
        for _ in range(12):
            c = L.gen_case(ctx.rng, cyc=False, nreq=ctx.rng.randint(1, 3), plain=True)
            g1, g0, host = L.add_gadget(ctx.rng, c["graph"])
            c["history"][0]["name"] = host if ctx.rng.random() < 0.6 else c["history"][0]["name"]
            c["history"][0]["ver"] = None
            c1, c0 = copy.deepcopy(c), copy.deepcopy(c)
            c1["graph"], c0["graph"] = g1, g0
            pairs.append((c1, c0))
        gadget_oracle(ctx, pairs, stats)
    for k, v in sorted(stats.items()):
        ctx.hist("stat_" + k, v)
    if done >= 200 and (stats.get("roundtrips", 0) < done * 0.3):
        raise common.InfraError("degenerate distribution: %r of %d round trips" % (stats, done))
    if done >= 300 and stats.get("class_eups_named", 0) < 5:
        raise common.InfraError("too few unsetups of a product named eups_…: %r" % (stats,))
    if done >= 300 and stats.get("class_mid_reference", 0) < 10:
        raise common.InfraError("too few set-ups of tables with ${<NAME>_DIR} in the middle of a value: %r" % (stats,))
    if done >= 200 and stats.get("sh_compared", 0) < stats.get("ok", 0) * 0.5:
        raise common.InfraError("command lists compared string by string on too few requests: %r" % (stats,))
    bad = ctx.histogram.get("outcome=notfound", 0) + ctx.histogram.get("outcome=raised", 0)
    if done >= 200 and bad < 30:
        raise common.InfraError("degenerate distribution: only %d failing requests" % bad)


def replay(ctx, rp):
    return L.replay_case(ctx, PID, rp)
