"""C07 — answers served from the product cache equal the answers in the database files.

Implementation: histories of the C06 generator split across two users with separate EUPS_USERDATA (hence
separate cache directories), with commands killed between the database update and the cache update
(`crash@k`: the child `_exit`s right after its k-th top-level `Database` mutation; module attribute replacement
in the child), and cache files deleted; after every command both users query, each in a fresh forked child,
through the cache (`findProducts`, `findProduct`, `findTaggedProduct`) and through the files (the same with
`noCache=True`, `Database.findProducts`).  Mtimes are renumbered after every command (DESIGN 4.4).
Model: `Model/Cache.lean` (load-or-rebuild rule, write-through, save, crash) over `Model/Db.lean`, driver op
"c07".  Oracle (i): outcome, flavors loaded per stack, the in-memory stacks after `Eups.__init__` and the
database listing, for every command and every query process.  Oracle (ii): cache answer = file answer for every
query of the universe, computed from the implementation alone."""
import os
import time

from . import common, lib_db, c06
from .common import parallel_map
from .lib_db import NAMES, VERS, TAGS
from .lib_dbref import fallbacks

RULE = ("cases = histories of 4-14 commands of the C06 generator by users A and B (separate cache directories), "
        "~12% of the mutating commands killed after their 1st-3rd Database mutation, ~8% cache events: a cache file of a "
        "user or of the stack-wide cache inside ups_db/ deleted, `eups admin clearCache`, `eups admin buildCache -A` "
        "(writes the stack-wide cache; the user's own caches go); after every command each user runs a query process "
        "(Linux, sometimes generic) answering, through the cache and through the files, 'is (n, v) declared / where / "
        "with which tags' for 3x3 (n, v), 'which version has tag t' for 3x3 (n, t) and the listing of each product; a "
        "history is non-trivial when at least 3 commands change the database and at least one query process accepted "
        "a cache and one rebuilt one; distinct = distinct digests")
TRUSTED = ["fork-per-command runner, audit-log mtime normaliser, crash interposer of harness/lib_db.py",
           "pickle round-trips the cache object graph (exercised, not modelled)"]
ASSUMPTIONS = ["commands do not interleave (C09 owns the locks); two events within one kernel timestamp tick are not "
               "exhibited: the harness renumbers modification times in the order of the audit log",
               "the users share the database files and the cache inside ups_db/, nothing else; all stacks writable; global "
               "tags only; the stacks have no ups_db/global.tags, so `Eups(asAdmin=True)` ends with RuntimeError in "
               "_loadServerTags after it has read or built the caches (reported as the outcome, the caches are checked)"]

# the functions the model mirrors (harness/fingerprint.py): a changed fingerprint makes the quick tier run with the thorough case budget
MIRRORS = [
    ('python/eups/Eups.py', 'Eups.declare'),
    ('python/eups/Eups.py', 'Eups.undeclare'),
    ('python/eups/Eups.py', 'Eups.assignTag'),
    ('python/eups/Eups.py', 'Eups.unassignTag'),
    ('python/eups/Eups.py', 'Eups.remove'),
    ('python/eups/Eups.py', 'Eups._remove'),
    ('python/eups/Eups.py', 'Eups.findProducts'),
    ('python/eups/Eups.py', 'Eups.findProduct'),
    ('python/eups/Eups.py', 'Eups.__init__'),
    ('python/eups/Eups.py', 'Eups._setProductStack_fromCache'),
    ('python/eups/Eups.py', 'Eups.findTaggedProduct'),
    ('python/eups/stack/ProductStack.py', '*'),
    ('python/eups/stack/ProductFamily.py', '*'),
    ('python/eups/db/Database.py', '*'),
    ('python/eups/app.py', 'clearCache'),
    ('python/eups/utils.py', 'userStackCacheFor'),
]

WORKERS = c06.WORKERS


# ---- the query process ---------------------------------------------------------------------------------

def _si(world, p):
    r = p.stackRoot()
    return world.stacks.index(r) if r in world.stacks else r


def probe(world, e):
    """answers of one Eups instance through the cache and through the files"""
    from eups.db import Database
    from eups import utils
    flavors = utils.Flavor().getFallbackFlavors(e.flavor, True)

    def ptuple(p, tags=True):
        if p is None:
            return None
        si = _si(world, p)
        t = [world.canon_path(p.dir), world.canon_table(p.name, p.dir, p.tablefile,
                                                         (si, p.flavor, p.version) if isinstance(si, int) else None)]
        return [si] + t + ([sorted(str(x) for x in p.tags)] if tags else [])
    out = {"cache": {}, "files": {}}
    for n in NAMES:
        out["cache"]["list/" + n] = sorted([[p.version, p.flavor] + ptuple(p) for p in e.findProducts(n)])
        raw = []
        for si, s in enumerate(world.stacks):
            db = Database(os.path.join(s, "ups_db"))
            for fl in flavors:
                for p in db.findProducts(n, flavors=fl):
                    raw.append([p.version, p.flavor] + ptuple(p))
        out["files"]["list/" + n] = first_stack_wins(raw)
        out.setdefault("raw", {})["list/" + n] = raw
        for v in VERS:
            out["cache"]["find/%s/%s" % (n, v)] = ptuple(e.findProduct(n, v))
            out["files"]["find/%s/%s" % (n, v)] = ptuple(e.findProduct(n, v, noCache=True))
        for t in TAGS:
            p = e.findTaggedProduct(n, t)
            out["cache"]["tagged/%s/%s" % (n, t)] = p and [_si(world, p), p.version]
            p = e.findTaggedProduct(n, t, noCache=True)
            out["files"]["tagged/%s/%s" % (n, t)] = p and [_si(world, p), p.version]
    return out


def first_stack_wins(raw):
    """a listing keeps, for each (version, flavor), the product of the first stack on the path"""
    seen, lst = set(), []
    for x in raw:
        if (x[0], x[1]) not in seen:
            seen.add((x[0], x[1]))
            lst.append(x)
    return sorted(lst)


def _run_one(case):
    try:
        return lib_db.run_history(case, probe=probe)
    except Exception as e:  # noqa
        import traceback
        return {"error": "%r\n%s" % (e, traceback.format_exc()[-1500:])}


# ---- generation ----------------------------------------------------------------------------------------

def gen_case(rng):
    h = lib_db.gen_history(rng, rng.randint(4, 14), users=("A", "B"), crash=0.12, rmcache=0.08, noaction=0.04,
                           remove=0.03)
    cmds = []
    for c in h["cmds"]:
        cmds.append(c)
        for u in ("A", "B"):
            if rng.random() < 0.8:
                cmds.append({"op": "query", "user": u, "flavor": "generic" if rng.random() < 0.12 else "Linux"})
    return {"missing": h["missing"], "cmds": cmds}


# ---- oracles -------------------------------------------------------------------------------------------

def d16_query_class(key, a, raw, flavor, loaded):
    """class predicate of D16 (repaired in 9143b09; kept so that a regression is named) for a query whose cache
    answer `a` differs from the file answer: it is a listing, the querying process holds only its native flavor
    for some stack, and the cache answer is exactly the file answer computed with the other flavors of those
    stacks hidden"""
    accepted = [si for si, fl in enumerate(loaded or []) if fl == [flavor]]
    if not accepted or not key.startswith("list/") or raw is None:
        return False
    visible = [x for x in raw if not (x[2] in accepted and x[1] != flavor)]
    return len(visible) < len(raw) and a == first_stack_wins(visible)


def check_case(ctx, case, steps, msteps):
    inp = {"missing": case.get("missing", []), "cmds": case["cmds"]}
    prev = c06.EMPTY
    nchange = nacc = nreb = 0
    for i, (cmd, rec) in enumerate(zip(case["cmds"], steps)):
        m = msteps[i] if msteps and i < len(msteps) else None
        sub = {"missing": inp["missing"], "cmds": case["cmds"][:i + 1]}
        impl_obs, model_obs = c06.observations(rec, m)
        if "error" in rec["db"]:
            ctx.fail("reader_total", sub, impl_obs, model_obs, note="fresh reader raised %s" % (rec["db"]["error"],))
            return
        c06.oracle_i(ctx, i, sub, rec, impl_obs, model_obs)
        if rec["db"] != prev:
            nchange += 1
        prev = rec["db"]
        if cmd["op"] in ("rmcache", "clearcache", "adminbuild"):
            ctx.hist({"rmcache": "rm cache", "clearcache": "eups admin clearCache", "adminbuild": "eups admin buildCache -A"}[cmd["op"]])
            if cmd["op"] == "adminbuild" and rec["out"] == "ok" and \
                    not all("%s/%d/%s" % (lib_db.SYS, si, f) in rec.get("sys_caches", []) for si in range(lib_db.NSTACKS)
                            for f in fallbacks(cmd.get("flavor", "Linux"))):
                ctx.fail("admin_build_builds", sub, dict(impl_obs, sys_caches=rec.get("sys_caches")), model_obs,
                         note="cache files inside ups_db/ after eups admin buildCache -A: %s" % rec.get("sys_caches"))
            if rec.get("caches_left"):
                ctx.fail("clear_cache_clears", sub, dict(impl_obs, caches_left=rec["caches_left"]), model_obs,
                         note="cache files of the user left after eups admin clearCache: %s" % rec["caches_left"])
            continue
        ctx.hist("cmd=%s/%s" % (cmd["op"], rec["out"]))
        fl = cmd.get("flavor", "Linux")
        for si, l in enumerate(rec.get("loaded") or []):
            if l == sorted(set(fallbacks(fl))):            # exactly the needed flavors: the cache files were accepted
                nacc += 1
                ctx.hist("stack load: accepted")
            else:
                nreb += 1
                ctx.hist("stack load: rebuilt")
        pr = rec.get("probe")
        if cmd["op"] != "query" or pr is None:
            continue
        for key in sorted(pr["cache"]):
            a, b = pr["cache"][key], pr["files"][key]
            ctx.hist("queries")
            if a != b:
                kind = key.split("/")[0]
                cls = "D16" if d16_query_class(key, a, pr.get("raw", {}).get(key), fl, rec.get("loaded")) else None
                ctx.fail("cache_equals_files/" + kind, sub, dict(impl_obs, query=key, cache=a, files=b),
                         None if model_obs is None else dict(model_obs, query=key, cache=a, files=b), finding=cls,
                         note="%s by user %s (%s): cache %s / files %s" % (key, cmd["user"], fl, common.jdump(a)[:200], common.jdump(b)[:200]))
    ctx.case(key=inp, nontrivial=nchange >= 3 and nacc >= 1 and nreb >= 1,
             sample={"input": inp} if ctx.evaluations % 53 == 0 else None)


def evaluate(ctx, cases):
    impl = parallel_map(_run_one, cases, workers=WORKERS)
    answers = ctx.lean.ask_many([lib_db.model_request(c, m="c07") for c in cases])
    for c, steps, ans in zip(cases, impl, answers):
        if isinstance(steps, dict):
            raise common.InfraError("runner failed: %s" % steps["error"])
        check_case(ctx, c, steps, lib_db.model_steps(ans))


def _shrinker():
    return c06.make_shrinker("C07", _run_one, check_case, "c07")


def run(ctx):
    cases = c06.corpus_cases("C07")
    ctx.hist("corpus", len(cases))
    evaluate(ctx, cases)
    n = ctx.n(1500, 12000)
    done = 0
    soft = ctx.t0 + (70 if ctx.tier == "quick" and not ctx.escalated else 1e9)
    while done < n and not ctx.out_of_time() and time.time() < soft:
        k = min(96, n - done)
        evaluate(ctx, [gen_case(ctx.rng) for _ in range(k)])
        done += k
    _shrinker()[2](ctx)
    if ctx.disagreements or any(not f.get("finding_class") for f in ctx.failures):
        return      # the counts below are taken from the implementation's behaviour: on a tree that violates the property they measure the defect, not the generator
    if ctx.evaluations > 20 and ctx.distinct_nontrivial < ctx.evaluations * 0.3:
        raise common.InfraError("degenerate distribution: %d non-trivial of %d" % (ctx.distinct_nontrivial, ctx.evaluations))
    crashed = ctx.histogram.get("cmd=declare/Crashed", 0) + ctx.histogram.get("cmd=undeclare/Crashed", 0)
    if ctx.evaluations > 50 and crashed < ctx.evaluations // 10:
        raise common.InfraError("degenerate distribution: %d crashed commands in %d histories" % (crashed, ctx.evaluations))


def replay(ctx, rp):
    common.import_eups()
    case = rp["input"]
    steps = _run_one(case)
    ms = lib_db.model_steps(ctx.lean.ask(lib_db.model_request(case, m="c07")))
    sub = common.Ctx("C07", "quick", 0, 60)
    check_case(sub, case, steps, ms)
    last = steps[-1] if steps else {}
    io, mo = c06.observations(last, ms[-1]) if steps and ms else (None, None)
    fails = [{"clause": f["clause"], "class": f["finding_class"], "detail": f["note"]} for f in sub.failures]
    for f in sub.failures[-1:]:
        io, mo = f["impl_output"], f["model_output"]
    return {"input": case, "impl_output": io, "model_output": mo, "agree": not sub.disagreements,
            "disagreements": [{"observable": d["observable"], "note": d["note"]} for d in sub.disagreements],
            "fails": fails}
