"""C07 — answers served from the product cache equal the answers in the database files.

Implementation: histories of the C06 generator split across two users with separate EUPS_USERDATA (hence
separate cache directories), with commands killed between the database update and the cache update
(`crash@k`: the child `_exit`s right after its k-th top-level `Database` mutation; module attribute replacement
in the child), and cache files deleted; after every command both users query, each in a fresh forked child,
through the cache (`findProducts`, `findProduct`, `findTaggedProduct`) and through the files (the same with
`noCache=True`, `Database.findProducts`).  Mtimes are renumbered after every command (DESIGN 4.4).
Model: `Model/Cache.lean` (load-or-rebuild rule, write-through, save, crash) over `Model/Db.lean`, driver op
"c07".  Oracle (i): outcome, flavors loaded per stack, the in-memory stacks after `Eups.__init__` and the
database listing, for every command and every query process.  Oracle (ii): cache answer = file answer for every
query of the universe, computed from the implementation alone."""
import os
import time

from . import common, lib_db, c06, lib_cachesync
from .common import parallel_map
from .lib_db import NAMES, VERS, TAGS
from .lib_dbref import fallbacks

RULE = ("cases = histories of 4-14 commands of the C06 generator by users A and B (separate cache directories), "
        "~12% of the mutating commands killed after their 1st-3rd Database mutation, ~8% cache events: a cache file of a "
        "user or of the stack-wide cache inside ups_db/ deleted, `eups admin clearCache`, `eups admin buildCache -A` "
        "(writes the stack-wide cache; the user's own caches go); after every command each user runs a query process "
        "(Linux, sometimes generic) answering, through the cache and through the files, 'is (n, v) declared / where / "
        "with which tags' for 3x3 (n, v), 'which version has tag t' for 3x3 (n, t) and the listing of each product; a "
        "history is non-trivial when at least 3 commands change the database and at least one query process accepted "
        "a cache and one rebuilt one; distinct = distinct digests")
TRUSTED = ["fork-per-command runner, audit-log mtime normaliser, crash interposer of harness/lib_db.py",
           "pickle round-trips the cache object graph (exercised, not modelled)"]
ASSUMPTIONS = ["the `live2` steps (two Eups instances alive in one process) are checked against the property only (oracle (ii): "
               "every later query through the cache equals the files); the model covers one instance per process",
               "commands do not interleave (C09 owns the locks); two events within one kernel timestamp tick are not "
               "exhibited: the harness renumbers modification times in the order of the audit log",
               "the users share the database files and the cache inside ups_db/, nothing else; all stacks writable; global "
               "tags only; the stacks have no ups_db/global.tags, so `Eups(asAdmin=True)` ends with RuntimeError in "
               "_loadServerTags after it has read or built the caches (reported as the outcome, the caches are checked)"]

# the functions the model mirrors (harness/fingerprint.py): a changed fingerprint makes the quick tier run with the thorough case budget
MIRRORS = [
    ('python/eups/Eups.py', 'Eups.declare'),
    ('python/eups/Eups.py', 'Eups.undeclare'),
    ('python/eups/Eups.py', 'Eups.assignTag'),
    ('python/eups/Eups.py', 'Eups.unassignTag'),
    ('python/eups/Eups.py', 'Eups.remove'),
    ('python/eups/Eups.py', 'Eups._remove'),
    ('python/eups/Eups.py', 'Eups.findProducts'),
    ('python/eups/Eups.py', 'Eups.findProduct'),
    ('python/eups/Eups.py', 'Eups.__init__'),
    ('python/eups/Eups.py', 'Eups._setProductStack_fromCache'),
    ('python/eups/Eups.py', 'Eups.findTaggedProduct'),
    ('python/eups/stack/ProductStack.py', '*'),
    ('python/eups/stack/ProductFamily.py', '*'),
    ('python/eups/db/Database.py', '*'),
    ('python/eups/app.py', 'clearCache'),
    ('python/eups/utils.py', 'userStackCacheFor'),
]

WORKERS = c06.WORKERS


# ---- the query process ---------------------------------------------------------------------------------

def _si(world, p):
    r = p.stackRoot()
    return world.stacks.index(r) if r in world.stacks else r


def probe(world, e):
    """answers of one Eups instance through the cache and through the files"""
    from eups.db import Database
    from eups import utils
    flavors = utils.Flavor().getFallbackFlavors(e.flavor, True)

    def ptuple(p, tags=True):
        if p is None:
            return None
        si = _si(world, p)
        t = [world.canon_path(p.dir), world.canon_table(p.name, p.dir, p.tablefile,
                                                         (si, p.flavor, p.version) if isinstance(si, int) else None)]
        return [si] + t + ([sorted(str(x) for x in p.tags)] if tags else [])
    out = {"cache": {}, "files": {}}
    for n in NAMES:
        out["cache"]["list/" + n] = sorted([[p.version, p.flavor] + ptuple(p) for p in e.findProducts(n)])
        raw = []
        for si, s in enumerate(world.stacks):
            db = Database(os.path.join(s, "ups_db"))
            for fl in flavors:
                for p in db.findProducts(n, flavors=fl):
                    raw.append([p.version, p.flavor] + ptuple(p))
        out["files"]["list/" + n] = first_stack_wins(raw)
        out.setdefault("raw", {})["list/" + n] = raw
        for v in VERS:
            out["cache"]["find/%s/%s" % (n, v)] = ptuple(e.findProduct(n, v))
            out["files"]["find/%s/%s" % (n, v)] = ptuple(e.findProduct(n, v, noCache=True))
        for t in TAGS:
            p = e.findTaggedProduct(n, t)
            out["cache"]["tagged/%s/%s" % (n, t)] = p and [_si(world, p), p.version]
            p = e.findTaggedProduct(n, t, noCache=True)
            out["files"]["tagged/%s/%s" % (n, t)] = p and [_si(world, p), p.version]
    return out


def first_stack_wins(raw):
    """a listing keeps, for each (version, flavor), the product of the first stack on the path"""
    seen, lst = set(), []
    for x in raw:
        if (x[0], x[1]) not in seen:
            seen.add((x[0], x[1]))
            lst.append(x)
    return sorted(lst)


def _run_one(case):
    try:
        return lib_db.run_history(case, probe=probe)
    except Exception as e:  # noqa
        import traceback
        return {"error": "%r\n%s" % (e, traceback.format_exc()[-1500:])}


# ---- generation ----------------------------------------------------------------------------------------

def gen_live2(rng, names=None):
    """two Eups instances of one user alive in one process, 2-5 mutating API calls dealt between them"""
    u = rng.choice(("A", "B"))
    fl = "generic" if rng.random() < 0.1 else "Linux"
    sub = lib_db.gen_history(rng, rng.randint(2, 5), users=(u,), crash=0.0, rmcache=0.0, noaction=0.0, remove=0.04,
                             envrm=0.0, ext=0.0, tables=0.0)
    seq = []
    for c in sub["cmds"]:
        c = dict(c)
        c["flavor"] = fl
        c.pop("force", None)
        c.pop("setup", None)
        if names and rng.random() < 0.7:
            c["name"] = rng.choice(names)
            if c.get("dir"):
                c["dir"] = [c["dir"][0], lib_db.rel_of(fl, c["name"], c.get("version") or "1")]
        seq.append([len(seq) % 2 if rng.random() < 0.7 else rng.randrange(2), c])
    live = {"op": "live2", "user": u, "flavor": fl, "seq": seq}
    if rng.random() < 0.6:
        # the stacks spelled non-normally on EUPS_PATH (trailing slash, doubled slash, dot component): the in-memory
        # stacks are keyed by the path entries, assignTag / undeclare / unassignTag take the stack from the product
        live["spell"] = [rng.randrange(4) for _ in range(lib_db.NSTACKS)]
        if not any(live["spell"]):
            live["spell"][rng.randrange(lib_db.NSTACKS)] = rng.randint(1, 3)
    if rng.random() < 0.5:
        # ONE instance: a tag move or an undeclare, then a plain declare (which saves the in-memory stack)
        n = rng.choice(names) if names else rng.choice(NAMES)
        si = rng.randrange(lib_db.NSTACKS)
        v1, v2, v3 = rng.sample(VERS, 3)
        t = rng.choice(["stable", "rc-1", "current"])
        D = lambda v, tag=None, d=True: {"user": u, "flavor": fl, "name": n, "op": "declare", "version": v, "stack": None,
                                         "tag": tag, "dir": [si, lib_db.rel_of(fl, n, v)] if d else None, "force": True}
        mid = D(v2, t, False) if rng.random() < 0.6 else \
            {"user": u, "flavor": fl, "name": n, "op": "undeclare", "version": v1, "stack": None, "tag": None, "vat": False}
        live["seq"] = [[0, D(v1, t)], [0, D(v2)], [0, mid], [0, D(v3)]]
        live["pattern"] = "tag move or undeclare, then a plain declare, one instance"
    return live


def gen_race(rng, h):
    """two unserialised writers of one user: B's whole command at a gate inside A's ProductStack.reload.  Both commands
    name products the history has declared (a command that adds or removes a product NAME makes A rebuild: harmless)"""
    u = rng.choice(("A", "B"))
    fl = "generic" if rng.random() < 0.1 else "Linux"
    known = [(c["name"], c.get("version"), c["dir"][0]) for c in h["cmds"]
             if c.get("op") == "declare" and c.get("dir") and c["dir"][0] < lib_db.NSTACKS and c.get("flavor", "Linux") == fl]
    names = sorted(set(k[0] for k in known)) or [rng.choice(NAMES)]

    def one():
        n = rng.choice(names)
        v = rng.choice(VERS)
        si = rng.randrange(lib_db.NSTACKS)
        r = rng.random()
        if r < 0.5:
            return {"user": u, "flavor": fl, "name": n, "op": "declare", "version": v, "stack": None,
                    "tag": rng.choice([None, None, "stable", "rc-1"]), "dir": [si, lib_db.rel_of(fl, n, v)]}
        if r < 0.7 and known:
            n, v, si = rng.choice(known)
            return {"user": u, "flavor": fl, "name": n, "op": "declare", "version": v, "stack": None,
                    "tag": rng.choice(["stable", "rc-1", "current"]), "dir": None}
        if known:
            n, v, si = rng.choice(known)
        return {"user": u, "flavor": fl, "name": n, "op": "undeclare", "version": v, "stack": None, "tag": None, "vat": False}
    # Only the windows inside ProductStack.reload are scheduled here.  A second writer inside the first one's save()
    # window (gate "at_save") is NOT a history the property speaks of: C07 quantifies over histories of commands by any
    # user or process, and two writers are serialised by the stack lock (C09).  The rebuild window of the constructor is
    # covered, with model and theorem, by the ProductStack-level scenarios (gate `rebuild0`, C07_writer_inside_rebuild_safe).
    # Tried and withdrawn (thorough tier, seed 0): on an EMPTY stack a writer whose in-memory stack holds no flavor
    # cannot notice the other's cache file (cacheIsInSync over no flavors is True), its save() is refused
    # (CacheOutOfSync -> refreshFromDatabase, modtimes left as they were), and its next ensureInSync reloads the other
    # writer's file - older than the database by then - and saves it as a fresh one: see docs/notes/g06.md.
    gate = [rng.choice(["after_load", "after_load", "at_open"]), rng.choice([0, 0, 1, 2, 3])]
    pre = [{"op": "query", "user": u, "flavor": fl}]      # A reads caches that are current: its constructor unpickles
    return pre + [{"op": "race", "user": u, "flavor": fl, "gate": gate, "a": one(), "b": one()}]


def gen_case(rng):
    h = lib_db.gen_history(rng, rng.randint(4, 14), users=("A", "B"), crash=0.12, rmcache=0.08, noaction=0.04,
                           remove=0.03)
    if rng.random() < 0.3:
        k = rng.randint(max(1, len(h["cmds"]) // 2), len(h["cmds"]))
        h["cmds"] = h["cmds"][:k] + gen_race(rng, {"cmds": h["cmds"][:k]}) + h["cmds"][k:k + 2]
    if rng.random() < 0.3:       # the tail of the history after the insertion is checked by oracle (ii) only
        names = sorted(set(c["name"] for c in h["cmds"] if "name" in c))
        k = rng.randint(max(1, len(h["cmds"]) // 2), len(h["cmds"]))
        live = gen_live2(rng, names)
        pre = []
        if rng.random() < 0.45:  # both instances read the stack-wide cache (the user's own files are gone or stale)
            pre = [{"op": "adminbuild", "user": live["user"], "flavor": live["flavor"]}]
        elif rng.random() < 0.3:
            pre = [{"op": "clearcache", "user": live["user"]}]
        h["cmds"] = h["cmds"][:k] + pre + [live] + h["cmds"][k:k + 2]
    if rng.random() < 0.3:
        # undeclare (or remove) of one of several versions killed at the entry of Database.undeclare: between the cache
        # write and the database write, were the code to write the cache first
        u, fl, si = rng.choice(("A", "B")), ("generic" if rng.random() < 0.15 else "Linux"), rng.randrange(lib_db.NSTACKS)
        n = rng.choice(NAMES)
        v1, v2 = rng.sample(VERS, 2)
        D = lambda v: {"user": u, "flavor": fl, "name": n, "op": "declare", "version": v, "stack": None, "tag": None,
                       "dir": [si, lib_db.rel_of(fl, n, v)], "force": True}
        kill = {"user": rng.choice(("A", "B")), "flavor": fl, "name": n, "version": v1, "crash_before": rng.choice([1, 1, 2])}
        if rng.random() < 0.25:
            kill.update(op="remove")
        else:
            kill.update(op="undeclare", stack=None, tag=None, vat=False)
        k = rng.randint(0, len(h["cmds"]))
        h["cmds"] = h["cmds"][:k] + [D(v1), D(v2), kill] + h["cmds"][k:]
    for c in h["cmds"]:
        if c.get("op") in ("declare", "undeclare", "assignTag", "unassignTag", "remove", "query", "race") and rng.random() < 0.25:
            c["spell"] = [rng.randrange(4) for _ in range(lib_db.NSTACKS)]
    cmds = []
    for c in h["cmds"]:
        cmds.append(c)
        for u in ("A", "B"):
            if rng.random() < 0.8:
                cmds.append({"op": "query", "user": u, "flavor": "generic" if rng.random() < 0.12 else "Linux"})
    return {"missing": h["missing"], "cmds": cmds}


# ---- oracles -------------------------------------------------------------------------------------------

def d16_query_class(key, a, raw, flavor, loaded):
    """class predicate of D16 (repaired in 9143b09; kept so that a regression is named) for a query whose cache
    answer `a` differs from the file answer: it is a listing, the querying process holds only its native flavor
    for some stack, and the cache answer is exactly the file answer computed with the other flavors of those
    stacks hidden"""
    accepted = [si for si, fl in enumerate(loaded or []) if fl == [flavor]]
    if not accepted or not key.startswith("list/") or raw is None:
        return False
    visible = [x for x in raw if not (x[2] in accepted and x[1] != flavor)]
    return len(visible) < len(raw) and a == first_stack_wins(visible)


def check_case(ctx, case, steps, msteps):
    inp = {"missing": case.get("missing", []), "cmds": case["cmds"]}
    prev = c06.EMPTY
    nchange = nacc = nreb = 0
    ctx.hist("histories")
    for i, (cmd, rec) in enumerate(zip(case["cmds"], steps)):
        m = msteps[i] if msteps and i < len(msteps) else None
        sub = {"missing": inp["missing"], "cmds": case["cmds"][:i + 1]}
        impl_obs, model_obs = c06.observations(rec, m)
        if "error" in rec["db"]:
            ctx.fail("reader_total", sub, impl_obs, model_obs, note="fresh reader raised %s" % (rec["db"]["error"],))
            return
        c06.oracle_i(ctx, i, sub, rec, impl_obs, model_obs)
        if rec["db"] != prev:
            nchange += 1
        prev = rec["db"]
        if cmd["op"] == "race":
            ra = rec.get("race") or {}
            if rec["out"] != "ok":
                raise common.InfraError("race child failed: %s" % (rec["out"],))
            ctx.hist("race: two unserialised writers")
            fired = str(ra.get("fired"))
            ctx.hist("race: B ran %s" % ("inside A's reload" if fired.startswith(("after_load", "at_open")) else
                                         "before a save() of A" if fired.startswith("at_save") else "after A's constructor"))
            ctx.hist("race: A=%s/%s B=%s/%s" % (cmd["a"]["op"], ra.get("a", ["?"])[0], cmd["b"]["op"], ra.get("b")))
            continue
        if cmd["op"] == "live2":
            ctx.hist("live2: two instances in one process")
            if cmd.get("spell"):
                ctx.hist("live2 under a non-normal spelling of a stack path")
                if cmd.get("pattern") and all(o == "ok" for o, _ in (rec.get("live") or {}).get("outs", [["?"]])):
                    ctx.hist("non-normal spelling: tag move or undeclare then plain declare in one instance, all ok")
            if i > 0 and case["cmds"][i - 1]["op"] == "adminbuild":
                ctx.hist("live2 right after eups admin buildCache -A (both read the stack-wide cache)")
            for (i, c), (o, calls) in zip(cmd["seq"], (rec.get("live") or {}).get("outs", [])):
                ctx.hist("live2 sub=%s/%s" % (c["op"], o))
            if rec["out"] != "ok":
                raise common.InfraError("live2 child failed: %s" % (rec["out"],))
            continue
        if cmd["op"] in ("rmcache", "clearcache", "adminbuild"):
            ctx.hist({"rmcache": "rm cache", "clearcache": "eups admin clearCache", "adminbuild": "eups admin buildCache -A"}[cmd["op"]])
            if cmd["op"] == "adminbuild" and rec["out"] == "ok" and \
                    not all("%s/%d/%s" % (lib_db.SYS, si, f) in rec.get("sys_caches", []) for si in range(lib_db.NSTACKS)
                            for f in fallbacks(cmd.get("flavor", "Linux"))):
                ctx.fail("admin_build_builds", sub, dict(impl_obs, sys_caches=rec.get("sys_caches")), model_obs,
                         note="cache files inside ups_db/ after eups admin buildCache -A: %s" % rec.get("sys_caches"))
            if rec.get("caches_left"):
                ctx.fail("clear_cache_clears", sub, dict(impl_obs, caches_left=rec["caches_left"]), model_obs,
                         note="cache files of the user left after eups admin clearCache: %s" % rec["caches_left"])
            continue
        ctx.hist("cmd=%s/%s" % (cmd["op"], rec["out"]))
        if cmd.get("crash_before") and rec["out"] == "Crashed":
            ctx.hist("killed at the entry of a Database mutation/%s" % cmd["op"])
            if cmd["op"] in ("undeclare", "remove") and cmd.get("version") and \
                    sum(1 for d in rec["db"]["decls"] if d[1] == cmd["name"] and d[3] == cmd.get("flavor", "Linux")) >= 2:
                ctx.hist("undeclare killed before Database.undeclare, several versions declared")
        fl = cmd.get("flavor", "Linux")
        for si, l in enumerate(rec.get("loaded") or []):
            if l == sorted(set(fallbacks(fl))):            # exactly the needed flavors: the cache files were accepted
                nacc += 1
                ctx.hist("stack load: accepted")
            else:
                nreb += 1
                ctx.hist("stack load: rebuilt")
        pr = rec.get("probe")
        if cmd["op"] != "query" or pr is None:
            continue
        for key in sorted(pr["cache"]):
            a, b = pr["cache"][key], pr["files"][key]
            ctx.hist("queries")
            if a != b:
                kind = key.split("/")[0]
                cls = "D16" if d16_query_class(key, a, pr.get("raw", {}).get(key), fl, rec.get("loaded")) else None
                ctx.fail("cache_equals_files/" + kind, sub, dict(impl_obs, query=key, cache=a, files=b),
                         None if model_obs is None else dict(model_obs, query=key, cache=a, files=b), finding=cls,
                         note="%s by user %s (%s): cache %s / files %s" % (key, cmd["user"], fl, common.jdump(a)[:200], common.jdump(b)[:200]))
    ctx.case(key=inp, nontrivial=nchange >= 3 and nacc >= 1 and nreb >= 1,
             sample={"input": inp} if ctx.evaluations % 53 == 0 else None)


def evaluate(ctx, cases):
    impl = parallel_map(_run_one, cases, workers=WORKERS)
    answers = ctx.lean.ask_many([lib_db.model_request(c, m="c07") for c in cases])
    for c, steps, ans in zip(cases, impl, answers):
        if isinstance(steps, dict):
            raise common.InfraError("runner failed: %s" % steps["error"])
        check_case(ctx, c, steps, lib_db.model_steps(ans))


# ---- the staleness test between live ProductStack objects (Model/CacheSync.lean) -----------------------------

def check_sync(ctx, case, real, model):
    """both oracles on one scenario of lib_cachesync: `real` = states observed on the code, `model` = the model's"""
    inp = dict(case)
    if isinstance(real, dict):
        raise common.InfraError("sync scenario failed: %s" % (real["error"],))
    stale = False
    for k, st in enumerate(real):
        sub = dict(case, evs=case["evs"][:k])
        m = model[k] if model is not None and k < len(model) else None
        differs = m is not None and common.jdump(m) != common.jdump(st)
        if differs:
            ctx.disagree("sync_state", sub, st, m, note="after %s" % (case["evs"][k - 1] if k else "the constructors",))
        if any(st[i]["mod"] == "older" for i in ("i0", "i1")):
            stale = True
        if differs and not (st["fresh"] and st["file"] != st["db"]):
            break
        if st["fresh"] and st["file"] != st["db"]:
            deleted = any(e[0] == "delete" for e in case["evs"][:k])
            cls = "D61" if deleted else ("D62" if case.get("gate") == "rebuild0" else None)   # D62 is fixed: naming it marks a regression
            ctx.fail("fresh_cache_is_complete", sub, st, m, finding=cls,
                     note="the user's cache file is not older than the database and holds %s, the database %s" % (st["file"], st["db"]))
            break
    ctx.hist("sync scenario: %s" % ("an instance went stale" if stale else "nobody stale"))
    if case.get("gate"):
        ctx.hist("sync scenario: another writer inside the rebuilding constructor")
    for e in case["evs"]:
        ctx.hist("sync event %s" % e[0])
    ctx.case(key={"sync": inp}, nontrivial=stale, sample={"input": inp} if ctx.evaluations % 97 == 0 else None)


def sync_protocol(ctx, corpus=()):
    """every scenario (user's file absent / stale / fresh x stack-wide cache or none) x every event sequence up to
    length 2 (quick) / 4 (thorough), plus sampled longer ones"""
    thorough = ctx.tier == "thorough"
    cases = list(corpus) + lib_cachesync.all_cases(4 if thorough else 2)
    for _ in range(1500 if thorough else 120):
        k = ctx.rng.randint(3, 6)
        cases.append({"n": ctx.rng.choice([1, 2, 3]), "fileKind": ctx.rng.randrange(3), "sysOk": ctx.rng.random() < 0.5,
                      "evs": [list(ctx.rng.choice(lib_cachesync.ALPHABET)) for _ in range(k)]})
    ctx.hist("sync scenarios", len(cases))
    stop = ctx.t0 + (600 if thorough else 20)      # the histories below need the rest of the budget
    for i in range(0, len(cases), 128):
        if ctx.out_of_time() or (i and time.time() > stop):
            break
        chunk = cases[i:i + 128]
        real = parallel_map(lib_cachesync.run_real, chunk, workers=WORKERS)
        answers = ctx.lean.ask_many([lib_cachesync.model_request(c) for c in chunk])
        for c, r, a in zip(chunk, real, answers):
            if "states" not in a:
                raise common.InfraError("model driver (sync): %s" % (a,))
            check_sync(ctx, c, r, lib_cachesync.canon_model(a["states"]))


def _shrinker():
    return c06.make_shrinker("C07", _run_one, check_case, "c07")


def run(ctx):
    corpus = c06.corpus_cases("C07")
    sync_corpus = [c["sync"] for c in corpus if "sync" in c]
    cases = [c for c in corpus if "sync" not in c]
    ctx.hist("corpus", len(corpus))
    sync_protocol(ctx, sync_corpus)
    evaluate(ctx, cases)
    n = ctx.n(1500, 12000)
    done = 0
    soft = ctx.t0 + (88 if ctx.tier == "quick" and not ctx.escalated else 1e9)
    while done < n and not ctx.out_of_time() and time.time() < soft:
        k = min(48, n - done)          # small batches: the last one overruns the soft limit by its own length
        evaluate(ctx, [gen_case(ctx.rng) for _ in range(k)])
        done += k
    _shrinker()[2](ctx)
    if ctx.disagreements or any(not f.get("finding_class") for f in ctx.failures):
        return      # the counts below are taken from the implementation's behaviour: on a tree that violates the property they measure the defect, not the generator
    if ctx.evaluations > 20 and ctx.distinct_nontrivial < ctx.evaluations * 0.3:
        raise common.InfraError("degenerate distribution: %d non-trivial of %d" % (ctx.distinct_nontrivial, ctx.evaluations))
    live = ctx.histogram.get("live2: two instances in one process", 0)
    nh = ctx.histogram.get("histories", 0)
    if nh > 60 and (live < nh // 8 or
                                 not ctx.histogram.get("live2 right after eups admin buildCache -A (both read the stack-wide cache)", 0)):
        raise common.InfraError("degenerate distribution: %d histories with two live instances in %d" % (live, nh))
    if ctx.histogram.get("sync scenario: an instance went stale", 0) < 50 or ctx.histogram.get("sync event delete", 0) < 20:
        raise common.InfraError("degenerate distribution of the staleness scenarios: %s" % ({k: v for k, v in ctx.histogram.items() if k.startswith("sync")},))
    sp = ctx.histogram.get("non-normal spelling: tag move or undeclare then plain declare in one instance, all ok", 0)
    if nh > 60 and sp < max(2, nh // 60):        # observed ≈ 7 % of the quick tier's histories, ≈ 3.5 % of the thorough tier's: the floor guards against degeneration, not against binomial noise
        raise common.InfraError("degenerate distribution: %d single-instance tag-move-then-declare sequences under a non-normal "
                                "spelling of the stack path in %d histories" % (sp, nh))
    inside = ctx.histogram.get("race: B ran inside A's reload", 0)
    if nh > 60 and inside < nh // 12:
        raise common.InfraError("degenerate distribution: %d races with writer B inside writer A's reload in %d histories" % (inside, nh))
    kb = ctx.histogram.get("undeclare killed before Database.undeclare, several versions declared", 0)
    if nh > 60 and kb < nh // 12:
        raise common.InfraError("degenerate distribution: %d undeclare commands killed before Database.undeclare in %d histories" % (kb, nh))
    crashed = ctx.histogram.get("cmd=declare/Crashed", 0) + ctx.histogram.get("cmd=undeclare/Crashed", 0)
    if nh > 50 and crashed < nh // 10:
        raise common.InfraError("degenerate distribution: %d crashed commands in %d histories" % (crashed, nh))


def replay(ctx, rp):
    common.import_eups()
    case = rp["input"]
    if "sync" in case or "evs" in case:
        case = case.get("sync", case)
        real = lib_cachesync.run_real(case)
        model = lib_cachesync.canon_model(ctx.lean.ask(lib_cachesync.model_request(case))["states"])
        sub = common.Ctx("C07", "quick", 0, 60)
        check_sync(sub, case, real, model)
        return {"input": case, "impl_output": real[-1] if isinstance(real, list) else real, "model_output": model[-1],
                "agree": not sub.disagreements,
                "disagreements": [{"observable": d["observable"], "note": d["note"]} for d in sub.disagreements],
                "fails": [{"clause": f["clause"], "class": f["finding_class"], "detail": f["note"]} for f in sub.failures]}
    steps = _run_one(case)
    ms = lib_db.model_steps(ctx.lean.ask(lib_db.model_request(case, m="c07")))
    sub = common.Ctx("C07", "quick", 0, 60)
    check_case(sub, case, steps, ms)
    last = steps[-1] if steps else {}
    io, mo = c06.observations(last, ms[-1]) if steps and ms else (None, None)
    fails = [{"clause": f["clause"], "class": f["finding_class"], "detail": f["note"]} for f in sub.failures]
    for f in sub.failures[-1:]:
        io, mo = f["impl_output"], f["model_output"]
    return {"input": case, "impl_output": io, "model_output": mo, "agree": not sub.disagreements,
            "disagreements": [{"observable": d["observable"], "note": d["note"]} for d in sub.disagreements],
            "fails": fails}
