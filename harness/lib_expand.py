"""Generator and stack builder for C17 (expanded table files): product graphs with their table files,
build-time selections, syntactic variants of a table text, and later evolutions of the database.

Everything here is data -> data (plus writing a stack to disk); no eups code runs in this module."""
import os
import re
import shutil

NAMES = list("abcdef")
ABSENT = ["x", "y"]            # names that are not declared at build time (optional dependencies on them fail)
VERS = ["1", "2", "3"]
NEWVERS = ["0", "4", "5"]      # declared by the evolution only


# ---- table lines ------------------------------------------------------------------------------------
# a table is a list of line descriptions:
#   {"k": "setup", "optional": bool, "name": str, "spec": None | {"v": ver} | {"e": expr} | {"v": ver, "e": expr},
#    "flags": [..], "deco": {...}}           deco = purely syntactic choices (quotes, white space, comment, bracket)
#   {"k": "unsetup", "optional": bool, "name": str, "flags": [..]}     unsetupRequired / unsetupOptional(name [-j]): takes a product
#                                             (with -j: that product alone) away again; intermediate tables only
#   {"k": "cmd", "text": str}                 any other command, passed to the table parser as it is
#   {"k": "raw", "text": str}                 blank line / comment / brace line / anything else, verbatim

def render_setup(l):
    d = l.get("deco") or {}
    cmd = "setupOptional" if l["optional"] else "setupRequired"
    spec = l.get("spec") or {}
    words = []
    if "v" in spec:
        words.append(spec["v"])
    if "e" in spec:
        if "v" in spec or d.get("bracket"):
            e = spec["e"]
            words.append({0: "[%s]", 1: "[ %s ]", 2: "[%s ]"}[d.get("brstyle", 0)] % e)
        else:
            words.append(spec["e"])
    flags = list(l.get("flags") or [])
    if d.get("flags_last"):
        body = [l["name"]] + words + flags
    else:
        body = [l["name"]] + flags + words
    sep = d.get("sep", " ")
    body = sep.join(body)
    if d.get("pad"):
        body = " " + body + " "
    if d.get("quote"):
        body = '"%s"' % body
    return "%s%s(%s)%s" % (d.get("lead", ""), cmd, body, d.get("trail", ""))


def render_unsetup(l):
    cmd = "unsetupOptional" if l["optional"] else "unsetupRequired"
    return "%s(%s)" % (cmd, " ".join([l["name"]] + list(l.get("flags") or [])))


def render_line(l):
    if l["k"] == "setup":
        return render_setup(l)
    if l["k"] == "unsetup":
        return render_unsetup(l)
    return l["text"]


def table_text(lines, final_newline=True):
    txt = "\n".join(render_line(l) for l in lines)
    return txt + ("\n" if final_newline and lines else "")


CMDS = ["envPrepend(PATH, ${PRODUCT_DIR}/bin)", "envAppend(LIBP, ${PRODUCT_DIR}/lib)", "envSet(%(N)s_X, x)",
        "envPrepend(PYTHONPATH, ${PRODUCT_DIR}/python)", "addAlias(%(n)sdo, echo %(n)s)",
        "envAppend(MANPATH, ${PRODUCT_DIR}/man, :)"]


def gen_deco(rng, rich):
    d = {}
    if not rich:
        return d
    r = rng.random
    if r() < 0.15:
        d["quote"] = True
    if r() < 0.2:
        d["lead"] = rng.choice(["  ", "\t", "    "])
    if r() < 0.25:
        d["trail"] = rng.choice(["  # needed", " #x", "   ", "\t# a (b) c"])
    if r() < 0.1:
        d["sep"] = "  "          # (the table parser splits arguments at blanks and commas only, not at tabs)
    if r() < 0.1:
        d["pad"] = True
    if r() < 0.5:
        d["bracket"] = True
    if r() < 0.3:
        d["brstyle"] = rng.choice([1, 2])
    if r() < 0.3:
        d["flags_last"] = True
    return d


def gen_spec(rng, stream, m, vers, build):
    """A version specification for a dependency on product m."""
    if stream == "cf":
        bm = build[m]
        choices = [None, None, {"v": bm}]
        lower = [v for v in VERS if int(v) <= int(bm)]
        if bm == max(vers[m], key=int):
            choices += [{"e": ">= " + rng.choice(lower)}, {"e": ">= " + rng.choice(lower)}]
        choices.append({"v": bm, "e": ">= " + rng.choice(lower)})
        return rng.choice(choices)
    return rng.choice([None, None, {"v": rng.choice(VERS)}, {"e": ">= " + rng.choice(VERS)},
                       {"v": rng.choice(VERS), "e": ">= 1"}, {"e": "< " + rng.choice(VERS[1:])}])


def gen_table(rng, stream, i, names, vers, build, top=False, pdep=0.45):
    n = names[i]
    lines = [{"k": "cmd", "text": CMDS[0]}]
    for c in CMDS[1:]:
        if rng.random() < 0.3:
            lines.append({"k": "cmd", "text": c % {"N": n.upper(), "n": n}})
    deps = []
    for m in names[i + 1:]:
        if rng.random() < pdep:
            deps.append({"k": "setup", "optional": rng.random() < 0.33, "name": m,
                         "spec": gen_spec(rng, stream, m, vers, build),
                         "flags": ["-j"] if rng.random() < 0.13 else (["--external"] if top and rng.random() < 0.05 else []),
                         "deco": gen_deco(rng, top)})
    for x in ABSENT:
        if rng.random() < (0.2 if top else 0.08):
            deps.append({"k": "setup", "optional": True, "name": x, "spec": rng.choice([None, None, {"v": "1"}]),
                         "flags": [], "deco": gen_deco(rng, top)})
    rng.shuffle(deps)
    for dl in deps:
        lines.insert(rng.randint(0, len(lines)), dl)
    if top:
        # comments, blank lines and a flavor block of plain commands (the table parser has no nested blocks,
        # so setup lines stay at the top level)
        for _ in range(rng.randint(0, 3)):
            lines.insert(rng.randint(0, len(lines)), {"k": "raw", "text": rng.choice(["", "# a comment", "   ", "   # indented comment", "#"])})
        if rng.random() < 0.3:
            at = rng.randint(0, len(lines))
            blk = [{"k": "raw", "text": rng.choice(["if (flavor == Linux) {", "if (flavor == Linux)  {  ", "if (flavor == Darwin) {"])},
                   {"k": "cmd", "text": "   envSet(%s_FL, 1)" % n.upper()}]
            if rng.random() < 0.4:
                blk += [{"k": "raw", "text": "} else {"}, {"k": "cmd", "text": "envSet(%s_FL, 2)" % n.upper()}]
            blk.append({"k": "raw", "text": rng.choice(["}", "  }"])})
            later = [m for m in names[i + 1:] if stream != "cf" or m in build]
            if rng.random() < 0.25 and later:
                # a setup line INSIDE the table's own block (D74 / O8): in a block that applies a declared product (the expander nests
                # its `if (type …) {` block there; harmless without an else branch, D74(b) with one); in a block that does not apply
                # (`flavor == Darwin`) a required product that is not there at all (D74(a): the expansion refuses it)
                if "Darwin" in blk[0]["text"]:
                    inner = {"k": "setup", "optional": False, "name": rng.choice(ABSENT), "spec": None, "flags": [], "deco": {}, "in_block": "inactive"}
                else:
                    m = rng.choice(later)
                    inner = {"k": "setup", "optional": False, "name": m, "spec": gen_spec(rng, stream, m, vers, build), "flags": [], "deco": {},
                             "in_block": "active_else" if len(blk) > 3 else "active"}
                blk.insert(rng.randint(1, 2), inner)
            lines[at:at] = blk
    return lines


def gen_graph(rng, stream):
    """-> dict(names, decl [[n, v, lines]..], tags {n: v}, build {n: v} (cf stream only))"""
    k = rng.randint(3, 6)
    names = NAMES[:k]
    vers = {n: sorted(rng.sample(VERS, rng.randint(1, 3)), key=int) for n in names}
    build, tags = {}, {}
    if stream == "cf":
        build = {n: rng.choice(vers[n]) for n in names}
        tags = dict(build)
    else:
        tags = {n: rng.choice(vers[n]) for n in names if rng.random() < 0.85}
    top = names[0]
    topv = build.get(top) or rng.choice(vers[top])
    lonely = rng.random() < 0.06        # the top product has no declared dependency at all
    decl = []
    for i, n in enumerate(names):
        for v in vers[n]:
            is_top = (n == top and v == topv)
            pdep = (0.0 if lonely else 0.6) if is_top else 0.4
            decl.append([n, v, gen_table(rng, stream, i, names, vers, build, top=is_top, pdep=pdep)])
    g = {"names": names, "decl": decl, "tags": tags, "build": build, "top": [top, topv], "stream": stream}
    if stream == "cf" and rng.random() < 0.3:
        add_unsetup_lines(rng, g)
    if stream == "cf" and not lonely and rng.random() < 0.18:
        add_top_unsetup_lines(rng, g)
    if rng.random() < 0.12:
        add_tag_named_version(rng, g)
    if stream == "cf" and rng.random() < 0.25:
        add_pre_history(rng, g)
    return g


def reach(g, n, v):
    """names reached from the table of (n, v) through setup lines on declared products (build versions), n excluded"""
    tables = {(a, b): l for a, b, l in g["decl"]}
    build, out = g["build"], []

    def walk(n, v):
        for l in tables.get((n, v), []):
            if l["k"] == "setup" and "--external" not in (l.get("flags") or []) and l["name"] in build and l["name"] not in out:
                out.append(l["name"])
                if "-j" not in (l.get("flags") or []):
                    walk(l["name"], build[l["name"]])
    walk(n, v)
    return out


def add_unsetup_lines(rng, g):
    """Intermediate tables that take a product away again: after a setup line of table (n, build[n]) an
    unsetupRequired / unsetupOptional(X [-j]) line for an X that line brought in (X itself or something below it),
    preferably one that has dependencies of its own (shared with the rest of the closure or not).  The graph stays a DAG by
    name order (X comes after n), so no cycle runs through an unsetup line."""
    topn = g["top"][0]
    build = g["build"]
    for n, v, lines in g["decl"]:
        if n == topn or build.get(n) != v or rng.random() < 0.4:
            continue
        cands = [i for i, l in enumerate(lines) if l["k"] == "setup" and l["name"] in build and not (l.get("flags") or [])]
        if not cands:
            continue
        i = rng.choice(cands)
        m = lines[i]["name"]
        below = [m] + reach(g, m, build[m])
        withdeps = [x for x in below if reach(g, x, build[x])]
        x = rng.choice(withdeps) if withdeps and rng.random() < 0.7 else rng.choice(below)
        lines.insert(rng.randint(i + 1, len(lines)), {"k": "unsetup", "optional": rng.random() < 0.5, "name": x,
                                                       "flags": ["-j"] if rng.random() < 0.65 else []})


TAGNAMES = ["current", "beta"]      # recognised tags of the harness's startup file (common.mkstacks: extra_tags=("beta",))


def add_tag_named_version(rng, g):
    """A declared version whose NAME is a recognised tag name, while the tag of that name is assigned to another version of
    the product: Eups.findSetupVersion must report the version recorded in SETUP_<PRODUCT> (it asks whether a version of
    that name is declared before it takes the name for a tag).  cf stream: the tag-named version is the build version, every
    line for the product names it explicitly; arb stream: some version is renamed and the lines that named it follow."""
    vers = {}
    for n, v, _ in g["decl"]:
        vers.setdefault(n, []).append(v)
    cf = g["stream"] == "cf"
    cands = [n for n in g["names"][1:] if len(vers[n]) >= 2]
    if not cands:
        return
    m = rng.choice(cands)
    old = g["build"][m] if cf else rng.choice(vers[m])
    tname = rng.choice(TAGNAMES)
    other = rng.choice([v for v in vers[m] if v != old])
    for d in g["decl"]:
        if d[0] == m and d[1] == old:
            d[1] = tname
        for l in d[2]:
            if l["k"] == "setup" and l["name"] == m and (cf or (l.get("spec") or {}).get("v") == old):
                l["spec"] = {"v": tname}
    if cf:
        g["build"][m] = tname
    if cf or m in g["tags"]:
        g["tags"][m] = other if (tname == "current" or rng.random() < 0.5 or g["tags"].get(m) == old) else g["tags"][m]
    g["tag_named"] = {"product": m, "name": tname, "tagged": other}


def add_pre_history(rng, g):
    """Process history `listing(s) first, redeclare, then build + expand` (one long-lived process).  Grafted onto the graph: a
    product k whose table the listing walks (reached from the top product through lines without -j) gets a bare required line
    for a new product m; m 1 (the build version) needs the new leaf h, the older m 0 does not.  Before the listings only m 0 is
    declared (and current); then m 1 is declared and made current.  m is NESTED (not named by the top table itself: the expander
    reads the tables of the top table's own products directly; the version pins of a listing only decide which table is read
    for the products below them), h is brought in by nothing else."""
    if g["stream"] != "cf" or g.get("tag_named") or any(l["k"] == "unsetup" for _, _, ls in g["decl"] for l in ls):
        return
    topn, topv = g["top"]
    build = g["build"]
    tables = {(a, b): l for a, b, l in g["decl"]}
    walked = []

    def walk(n, v):
        for l in tables.get((n, v), []):
            fl = l.get("flags") or []
            if l["k"] == "setup" and not fl and l["name"] in build and l["name"] not in walked:
                walked.append(l["name"])
                walk(l["name"], build[l["name"]])
    walk(topn, topv)
    if not walked:
        return
    k = rng.choice(walked)
    plain = {"k": "cmd", "text": CMDS[0]}
    klines = tables[(k, build[k])]
    klines.insert(rng.randint(0, len(klines)), {"k": "setup", "optional": False, "name": "m", "spec": None, "flags": [], "deco": {}})
    g["decl"] += [["m", "1", [dict(plain), {"k": "setup", "optional": False, "name": "h", "spec": None, "flags": [], "deco": {}}]],
                  ["m", "0", [dict(plain)]], ["h", "1", [dict(plain)]]]
    g["names"] = g["names"] + ["m", "h"]
    build.update({"m": "1", "h": "1"})
    g["tags"].update({"m": "1", "h": "1"})
    g["pre_history"] = {"product": "m", "version": "1", "old": "0", "extra": "h", "via": k,
                        "list": rng.sample(["api_topological", "api_cycles", "cli_list"], rng.randint(1, 3))}


def hide_redeclared(stack, userdata, case):
    """the database as it was before the redeclaration: the build version of the product is not declared, current is the old one"""
    ph = case["pre_history"]
    f = os.path.join(stack, "ups_db", ph["product"], ph["version"] + ".version")
    if os.path.exists(f):
        os.unlink(f)
    write_current(stack, ph["product"], ph["old"])
    drop_caches(userdata)


def redeclare(stack, userdata, case):
    ph = case["pre_history"]
    lines = [l for n, v, l in case["decl"] if n == ph["product"] and v == ph["version"]][0]
    write_product(stack, ph["product"], ph["version"], table_text(lines))
    write_current(stack, ph["product"], ph["version"])
    drop_caches(userdata)


def final_current(case, name):
    """the version the current tag of `name` names after the evolution"""
    v = case["tags"].get(name)
    for op in case.get("evolve") or []:
        if op[0] == "current" and op[1] == name:
            v = op[2]
    return v


def level0(lines, lo=0):
    """positions >= lo at which a line can be inserted outside every `if` block of the table"""
    out, depth = [], 0
    for i in range(len(lines) + 1):
        if i < len(lines):
            t = render_line(lines[i]).split("#")[0].strip()
            closes, opens = t.startswith("}"), t.endswith("{")
        else:
            closes = opens = False
        if depth == 0 and not closes and i >= lo:
            out.append(i)
        depth += (1 if opens else 0) - (1 if closes else 0)
    return out or [len(lines)]


def add_top_unsetup_lines(rng, g):
    """unsetupRequired / unsetupOptional lines in the table that is going to be expanded (D73: the expander took them for
    setup lines).  Three shapes that leave the build environment complete: (a) `unsetupOptional(y)` of a product that is not
    there; (b) a leaf product m that nothing else in the closure needs, set up by an optional line of the top table (added if
    there is none) and taken away again by a later line; (c) a leaf product of the closure taken away and required again at
    the end of the table."""
    topn, topv = g["top"]
    build = g["build"]
    lines = [l for n, v, l in g["decl"] if n == topn and v == topv][0]
    leaves = [m for m in g["names"][1:] if m in build and not reach(g, m, build[m])]
    r = rng.random()
    if r < 0.35 or not leaves:
        lines.insert(rng.choice(level0(lines)), {"k": "unsetup", "optional": True, "name": rng.choice(ABSENT), "flags": [], "top": "a"})
        return
    if r < 0.7:
        for m in rng.sample(leaves, len(leaves)):
            own = [i for i, l in enumerate(lines) if l["k"] == "setup" and l["name"] == m]
            needed = set()
            for l in lines:
                if l["k"] == "setup" and l["name"] != m and l["name"] in build and "--external" not in (l.get("flags") or []):
                    if "-j" not in (l.get("flags") or []):
                        needed |= set(reach(g, l["name"], build[l["name"]]))
            if m in needed or len(own) > 1 or (own and (not lines[own[0]]["optional"] or (lines[own[0]].get("flags") or []))):
                continue
            if not own:
                lines.insert(rng.choice(level0(lines)), {"k": "setup", "optional": True, "name": m, "spec": None, "flags": [], "deco": {}})
                own = [i for i, l in enumerate(lines) if l["k"] == "setup" and l["name"] == m]
            lines.insert(rng.choice(level0(lines, own[0] + 1)), {"k": "unsetup", "optional": rng.random() < 0.4, "name": m,
                                                               "flags": ["-j"] if rng.random() < 0.3 else [], "top": "b"})
            return
    closure = reach(g, topn, topv)
    cands = [m for m in leaves if m in closure]
    if not cands:
        lines.append({"k": "unsetup", "optional": True, "name": rng.choice(ABSENT), "flags": [], "top": "a"})
        return
    m = rng.choice(cands)
    lines.append({"k": "unsetup", "optional": rng.random() < 0.5, "name": m, "flags": [], "top": "c"})
    lines.append({"k": "setup", "optional": False, "name": m, "spec": None, "flags": [], "deco": {}})


HARNESS_FLAVOR = "Linux"


def inactive_setup_lines(lines, flavor=HARNESS_FLAVOR):
    """The setup / unsetup lines of a table that stand inside an `if (flavor == F) {` block (or its else branch) whose
    condition is false for this flavor -- lines the table does not apply here.  Only the block shapes the tables of this
    harness use: `if (flavor == F) {`, `} else {`, `}`."""
    out, active = [], [True]
    for l in lines:
        if l["k"] == "raw":
            t = l["text"].split("#")[0].strip()
            m = re.match(r"^if\s*\(\s*flavor\s*==\s*(\S+?)\s*\)\s*{$", t)
            if m:
                active.append(active[-1] and m.group(1) == flavor)
            elif re.match(r"^}\s*else\s*{$", t) and len(active) > 1:
                cur = active.pop()
                active.append(active[-1] and not cur)
            elif t == "}" and len(active) > 1:
                active.pop()
        elif l["k"] in ("setup", "unsetup") and not active[-1]:
            out.append(l)
    return out


def setup_in_block_with_else(lines):
    """True when a setup / unsetup line of the table stands inside an `if` block that has an else branch: the expander then
    nests its `if (type …) {` block inside that block, which the (nesting-free) table parser reads with the else branch
    turned into unconditional commands."""
    depth, has_setup, has_else = 0, False, False
    for l in lines:
        if l["k"] == "raw":
            t = l["text"].split("#")[0].strip()
            if re.match(r"^if\s*\(.*\)\s*{$", t):
                depth += 1
                if depth == 1:
                    has_setup = has_else = False
            elif re.match(r"^}\s*else\b.*{$", t):
                has_else = True
            elif t == "}" and depth > 0:
                depth -= 1
                if depth == 0 and has_setup and has_else:
                    return True
        elif l["k"] in ("setup", "unsetup") and depth > 0:
            has_setup = True
    return depth > 0 and has_setup and has_else          # (a block left open at the end of the table counts as well)


def has_unsetup(case):
    return any(l["k"] == "unsetup" for _, _, lines in case["decl"] for l in lines)


def retaken(case, built):
    """Class predicate of D72, from the generator's description: the names that are set up at build time although a table
    of a set-up product (at its build-time version) takes them away again -- as the target of an unsetupRequired /
    unsetupOptional line or as something below that target -- i.e. products that were taken away and set up again later."""
    out = set()
    build = case.get("build") or {}
    for n, v, lines in case["decl"]:
        if built.get(n) != v:
            continue
        for l in lines:
            if l["k"] == "unsetup" and l["name"] in build:
                out |= {l["name"]} | set(reach(case, l["name"], build[l["name"]]))
    return {x for x in out if x in built}


def unsetup_targets(case, built):
    """names that a table of a set-up product (at its build-time version) takes away again"""
    out = set()
    for n, v, lines in case["decl"]:
        if built.get(n) == v:
            out |= {l["name"] for l in lines if l["k"] == "unsetup"}
    return out


def gen_evolution(rng, g):
    """Later history of the database: new versions (lower and higher than everything), moved current tags,
    previously absent products appearing.  Build-time declarations are never removed or edited."""
    ops = []
    names = g["names"]
    have = {}
    for n, v, _ in g["decl"]:
        have.setdefault(n, []).append(v)
    for i, n in enumerate(names):
        r = rng.random()
        if r < 0.6:
            nv = rng.choice(NEWVERS)
            lines = gen_table(rng, "arb", i, names, have, {}, top=False)
            ops.append(["declare", n, nv, lines])
            have[n] = have[n] + [nv]
            if rng.random() < 0.75:
                ops.append(["current", n, nv])
        elif r < 0.85:
            ops.append(["current", n, rng.choice(have[n])])
    for x in ABSENT:
        if rng.random() < 0.6:
            ops.append(["declare", x, "1", [{"k": "cmd", "text": CMDS[0]}]])
            ops.append(["current", x, "1"])
    return ops


# ---- syntactic variants (oracle (i) only) -------------------------------------------------------------

WEIRD_SETUP = [
    "setupRequired(%(m)s -f Linux)", "setupRequired(%(m)s -f)", "setupOptional(%(m)s -B)", "setupRequired(%(m)s --foo -q x)",
    "setupRequired(-j %(m)s)", "setupRequired(%(m)s -j3)", "setupRequired(%(m)s [ >= 1 ])", "setupRequired(%(m)s [>= 1 || == 3])",
    "setupRequired(%(m)s >= 1 [>= 2])", "setupRequired(%(m)s 1 2 3)", "setupRequired(%(m)s [>= 1)", "setupRequired(%(m)s >= 1])",
    "setupRequired(%(m)s ] [)", "setupRequired(%(m)s [])", "setupRequired(%(m)s [ ])", "setupRequired()", "setupRequired( )",
    "setupRequired(-j)", "setupRequired(eups)", "setupOptional(eups 1.2)", "setupRequired(\"eups\")", "setupRequired( eups)",
    "setupRequired(%(m)s --external)", "setupOptional(%(m)s 1 --external)", "setupRequired(%(m)s --externally)",
    "setupRequired(\"%(m)s\") setupOptional(\"%(p)s\")", "setupRequired(%(m)s) setupOptional(%(p)s)",
    "setupRequired(\"%(m)s\" # c", "setupRequired(%(m)s", "setupRequired (%(m)s)", "SetupRequired(%(m)s)", "xsetupRequired(%(m)s)",
    "setupRequired(%(m)s) ;", "setupRequired(\"%(m)s)", "setupRequired(%(m)s\")", "setupRequired(\")", "setupRequired(\"\")",
    "setupRequired(%(m)s == 1)", "setupRequired(%(m)s =1)", "setupRequired(%(m)s LOCAL:/tmp/x)", "setupRequired(%(m)s -t current)",
    "setupRequired(%(m)s -r /tmp/x)", "setupRequired(%(m)s -)", "setupRequired(%(m)s - j)", "setupRequired(%(m)s [>= 1] 1)",
    "setupRequired(%(m)s   1\t[>=\t1])", "setupRequired(%(m)s\t1)", "   setupRequired(%(m)s)   # c # d", "setupRequired(%(m)s#1)",
    "setupRequired(%(m)s <2)", "setupRequired(%(m)s>=1)", "setupRequired(%(m)s -T build)", "setupOptional(%(m)s 1 -j [>= 1] -k)",
    "unsetupRequired(%(m)s)", "unsetupOptional(%(m)s -j)", "envSet(A, \"setupRequired(%(m)s)\")", "print(setupRequired(%(m)s))", "setupRequired(%(t)s)", "setupOptional(%(t)s 1)",
]
WEIRD_OTHER = [
    "if (type == exact) {", "if(type==exact){", "  if (type == exact) {  # pre", "} else {", "}", "  }  ", "{", "if (flavor == Linux) {",
    "} else if (flavor == Darwin) {", "if (type != exact) {", "# if (type == exact) {", "envSet(A, b) # { ", "envSet(B, \"x # y\")",
    "", "   ", "#", "# comment", "\t", "envPrepend(PATH, ${PRODUCT_DIR}/bin)", "envSet(C, {)", "}}", "print(hello)",
    "if (type == exact) { envSet(A, 1)", "x if (type == exact) {",
]


def gen_variant(rng, g, base_lines):
    """A table text built by mutating the top table's text: inserted odd setup lines, odd structure lines,
    re-ordered lines, a previously expanded table, missing final newline.  Returns (text, note)."""
    names = g["names"] + ABSENT
    lines = [render_line(l) for l in base_lines]
    nins = rng.randint(1, 5)
    for _ in range(nins):
        if rng.random() < 0.6:
            t = rng.choice(WEIRD_SETUP) % {"m": rng.choice(names), "p": rng.choice(names), "t": g["top"][0]}
        else:
            t = rng.choice(WEIRD_OTHER)
        lines.insert(rng.randint(0, len(lines)), t)
    if rng.random() < 0.2:
        rng.shuffle(lines)
    if rng.random() < 0.15 and lines:
        del lines[rng.randrange(len(lines))]
    txt = "\n".join(lines)
    if rng.random() < 0.85:
        txt += "\n"
    return txt


def gen_opts(rng, g, plain):
    """Options of an expansion.  plain = the CLI defaults for the top product's own table."""
    top = g["top"][0]
    if plain:
        return {"pins": {}, "force": False, "expandVersions": True, "addExactBlock": True, "toplevel": top, "recurse": True}
    pins = {}
    if rng.random() < 0.4:
        for n in rng.sample(g["names"] + ABSENT, rng.randint(1, 2)):
            pins[n] = rng.choice(VERS + ["9", "", "LOCAL:/tmp/p"])
    return {"pins": pins, "force": rng.random() < 0.4, "expandVersions": rng.random() < 0.75,
            "addExactBlock": rng.random() < 0.8, "toplevel": rng.choice([top, top, None, rng.choice(g["names"])]),
            "recurse": rng.random() < 0.85}


def gen_case(rng, stream=None):
    stream = stream or ("cf" if rng.random() < 0.6 else "arb")
    g = gen_graph(rng, stream)
    topn, topv = g["top"]
    top_lines = [l for n, v, l in g["decl"] if n == topn and v == topv][0]
    case = dict(g)
    case["inexact_build"] = rng.random() < 0.5
    case["opts"] = gen_opts(rng, g, True)
    if rng.random() < 0.15:
        case["opts"]["force"] = True
    if rng.random() < 0.1:
        case["opts"]["toplevel"] = None       # the API call without toplevelName (what `eups expandtable` does for standard input)
    case["final_newline"] = rng.random() < 0.9
    case["variants"] = []
    for _ in range(rng.choice([0, 1, 1, 2, 3])):
        case["variants"].append({"text": gen_variant(rng, g, top_lines), "opts": gen_opts(rng, g, rng.random() < 0.4)})
    if rng.random() < 0.3:        # the same table under other options
        case["variants"].append({"text": table_text(top_lines), "opts": gen_opts(rng, g, False)})
    case["evolve"] = gen_evolution(rng, g)
    # undeclare one dependency between the build and the expansion: findSetupProduct then finds nothing while
    # getSetupVersion still reports the version (the model's spv / sv); outside the property's premise -> oracle (i) + never_foreign only
    case["tamper"] = [rng.choice(g["names"][1:])] if rng.random() < 0.07 else []
    if g.get("pre_history"):
        case["tamper"] = []         # (the expansion of a history case runs inside the history process, before any tampering)
    if case["tamper"] and (g.get("tag_named") or {}).get("product") == case["tamper"][0]:
        # a set-up version named like a tag AND undeclared before the expansion: findSetupVersion then (by design: old records
        # held tag names) takes the recorded name for the tag and reports the tagged version -- outside every premise (O6)
        case["tamper"] = []
    case["cli_check"] = rng.random() < 0.3           # also run `eups expandtable` itself and compare with the API call
    case["replay_mode"] = rng.choice(["object", "api_noversion", "api_noversion", "api_version", "cli_exact"])   # entry point of the exact replay
    case["cli_mode"] = rng.choice(["stdout", "stdout", "inplace", "outdir", "stdin", "warn"])   # where the command reads / writes
    case["expanded_deps"] = []
    if stream == "cf" and rng.random() < 0.4 and not has_unsetup(case):       # installed products usually carry expanded tables
        case["expanded_deps"] = [[n, v] for n, v, _ in g["decl"] if (n, v) != (topn, topv) and rng.random() < 0.6]
    return case


# ---- writing a stack ------------------------------------------------------------------------------------

VERSION_FILE = ("FILE = version\nPRODUCT = %(n)s\nVERSION = %(v)s\nGroup:\n   FLAVOR = Linux\n   QUALIFIERS = \"\"\n"
                "   PROD_DIR = Linux/%(n)s/%(v)s\n   UPS_DIR = ups\n   TABLE_FILE = %(n)s.table\nEnd:\n")
CHAIN_FILE = ("FILE = version\nPRODUCT = %(n)s\nCHAIN = current\n#Group:\n   FLAVOR = Linux\n   VERSION = %(v)s\n"
              "   QUALIFIERS = \"\"\n#End:\n")


def table_path(stack, n, v):
    return os.path.join(stack, "Linux", n, v, "ups", n + ".table")


def write_product(stack, n, v, text):
    d = os.path.join(stack, "Linux", n, v, "ups")
    os.makedirs(d, exist_ok=True)
    with open(os.path.join(d, n + ".table"), "w") as f:
        f.write(text)
    os.makedirs(os.path.join(stack, "ups_db", n), exist_ok=True)
    with open(os.path.join(stack, "ups_db", n, v + ".version"), "w") as f:
        f.write(VERSION_FILE % {"n": n, "v": v})


def write_current(stack, n, v, tag="current"):
    os.makedirs(os.path.join(stack, "ups_db", n), exist_ok=True)
    with open(os.path.join(stack, "ups_db", n, tag + ".chain"), "w") as f:
        f.write((CHAIN_FILE % {"n": n, "v": v}).replace("CHAIN = current", "CHAIN = " + tag))


def drop_caches(userdata):
    """Remove everything eups cached in the user data directory (keeps startup.py)."""
    for f in os.listdir(userdata):
        if f != "startup.py":
            p = os.path.join(userdata, f)
            if os.path.isdir(p):
                shutil.rmtree(p, ignore_errors=True)
            else:
                os.unlink(p)


def closure_of(case, n, v, build):
    """[(name, version, optional)] the build-time closure of product (n, v) as its own expansion would have recorded it:
    the products its table sets up (declared ones, at their build versions), descending unless the line carries -j."""
    tables = {(a, b): l for a, b, l in case["decl"]}
    out, seen = [], set()

    def walk(n, v, opt):
        for l in tables.get((n, v), []):
            fl = l.get("flags") or []
            if l["k"] != "setup" or "--external" in fl or l["name"] not in build:
                continue
            m = l["name"]
            o = opt or l["optional"]
            if m not in seen:
                seen.add(m)
                out.append((m, build[m], o))
                if "-j" not in fl:
                    walk(m, build[m], o)
    walk(n, v, False)
    return out


def expanded_form(case, n, v):
    """The table of (n, v) the way an installed product carries it: already expanded (cf stream only)."""
    build = case["build"]
    lines = [l for a, b, l in case["decl"] if (a, b) == (n, v)][0]
    blocks = []
    for l in lines:
        is_setup = l["k"] == "setup"
        if not blocks or blocks[-1][0] != is_setup:
            blocks.append((is_setup, []))
        blocks[-1][1].append(l)
    last = max([i for i, b in enumerate(blocks) if b[0]], default=None)
    out = []
    for i, (is_setup, ls) in enumerate(blocks):
        if not is_setup:
            out += [render_line(l) for l in ls]
            continue
        if i == last:
            out.append("if (type == exact) {")
            for m, bm, o in closure_of(case, n, v, build):
                out.append("   %s(%-15s -j %s)" % ("setupOptional" if o else "setupRequired", m, bm))
            out.append("} else {")
        else:
            out.append("if (type != exact) {")
        for l in ls:
            spec = l.get("spec") or {}
            m = l["name"]
            words = [m] + list(l.get("flags") or [])
            if "v" in spec:
                words.append(spec["v"])
            elif m in build:
                words.append(build[m])
            if "e" in spec:
                words.append("[%s]" % spec["e"])
            elif "v" not in spec and m in build:
                words.append("[>= %s]" % build[m])
            out.append("   %s(%s)" % ("setupOptional" if l["optional"] else "setupRequired", " ".join(words)))
        out.append("}")
    return "\n".join(out) + "\n"


def install(stack, userdata, case):
    """(Re)create the stack of the case's build-time database."""
    shutil.rmtree(stack, ignore_errors=True)
    os.makedirs(os.path.join(stack, "ups_db"))
    drop_caches(userdata)
    topn, topv = case["top"]
    exp = {tuple(x) for x in case.get("expanded_deps") or []}
    for n, v, lines in case["decl"]:
        fn = case.get("final_newline", True) if (n == topn and v == topv) else True
        write_product(stack, n, v, expanded_form(case, n, v) if (n, v) in exp else table_text(lines, fn))
    for n, v in case["tags"].items():
        write_current(stack, n, v)
    tn = case.get("tag_named")
    if tn and tn["name"] != "current":
        write_current(stack, tn["product"], tn["tagged"], tag=tn["name"])


def evolve(stack, userdata, case):
    for op in case["evolve"]:
        if op[0] == "declare":
            write_product(stack, op[1], op[2], table_text(op[3]))
        elif op[0] == "current":
            write_current(stack, op[1], op[2])
    drop_caches(userdata)


# ---- reading what the implementation produced (no model, no eups) -----------------------------------------

def records(env):
    """{product name: version} from SETUP_* variables, parsed independently of eups."""
    out = {}
    for k, v in env.items():
        if k.startswith("SETUP_"):
            f = v.split()
            if len(f) >= 2:
                out[f[0]] = f[1]
            elif f:
                out[f[0]] = None
    return out


PIN_RE = re.compile(r"^setup(Required|Optional)\((\S+)\s+-j (\S*)\)$")


def exact_block(text_lines):
    """The lines of the (first) `if (type == exact) {` ... `} else {` block of an expanded table, stripped;
    None if there is no such block."""
    ls = [l.strip() for l in text_lines]
    if "if (type == exact) {" not in ls:
        return None
    i = ls.index("if (type == exact) {")
    out = []
    for l in ls[i + 1:]:
        if l == "} else {":
            return out
        out.append(l)
    return None
