"""C10 — version names are ordered consistently.

Implementation: hooks.version_cmp(a, b, mustReturnInt) (= VersionCompare()), Eups.version_match(v, expr),
Eups._selectPreferredProduct(products, ["latest"]).
Model: lean/EupsModel/Model/VersionCmp.lean through the driver model "c10".
Oracle (ii): reflexivity, antisymmetry, no crash, agreement of the strict and the sorting mode, and — on
conventional names, from the generator's structured description — totality, transitivity (every triple of
the set, by bit sets), numeric components, longer-follows-prefix, pre-release precedes, post-release
follows; match <=> relation in the implementation's own order; latest = maximum.  None of it uses the model."""
import contextlib
import io
import json
import os

from . import common
from . import lib_version as L
from .common import parallel_map

RULE = ("cases = ordered pairs (a, b) of names compared in both modes (sorting / strict), drawn as all pairs of name sets: "
        "the 1,404-name conventional grammar (quick: a seeded sample), a wider conventional grammar with mixed separators, "
        "leading zeros and several prefixes together with the one-step neighbours of its members, and sets of arbitrary strings "
        "over [A-Za-z0-9._+-] (random, edited conventional names, several-hyphen names with signs inside components, "
        "VVVm#/VVVp# spellings); relational expressions (1-4 terms, || / or / && / and, odd spacing, malformed tails) against "
        "a name; lists of 1-8 conventional names for 'latest'.  A pair is non-trivial when the two strings differ, an "
        "expression when it has a term, a list when it has two different names; distinct = distinct inputs")
TRUSTED = ["CPython `re`, `int()` and `str` comparison on ASCII input (exercised, not verified)",
           "Python's list.sort with a comparator that is a total preorder on the list returns a stably sorted list (used for 'latest')"]
ASSUMPTIONS = ["names and expressions are ASCII; names are over [A-Za-z0-9._+-] (no blanks, no newline)",
               "blanks in expressions are space, \\t, \\n, \\v, \\f, \\r (Python's \\s also matches the control characters 0x1c-0x1f, which are not generated)",
               "a name that makes _splitVersion raise AttributeError (it starts with '-' or '+') is a name the comparator does not accept",
               "components have fewer than 4300 digits (CPython's int/str conversion limit)",
               "VersionCompare.stdCompare is entered with suffix=True only (compare/__call__ and its own recursive calls)"]

MIRRORS = [("python/eups/VersionCompare.py", "*"), ("python/eups/hooks.py", "*"),
           ("python/eups/Eups.py", "Eups.version_match"), ("python/eups/Eups.py", "Eups.version_match_prim"),
           ("python/eups/Eups.py", "Eups.isLegalRelativeVersion"),
           ("python/eups/Eups.py", "Eups._findLatestProduct"), ("python/eups/Eups.py", "Eups._selectPreferredProduct"),
           ("python/eups/Eups.py", "Eups._findProductsByExpr"), ("python/eups/Eups.py", "Eups._findPreferredProductByExpr"),
           ("python/eups/Eups.py", "Eups.findTaggedProduct"), ("python/eups/Eups.py", "Eups._findTaggedProduct"),
           ("python/eups/distrib/Repositories.py", "Repositories.findPackage"), ("python/eups/distrib/Repository.py", "Repository.findPackage"),
           ("python/eups/distrib/Repository.py", "Repository.listPackages"), ("python/eups/distrib/Repository.py", "Repository._getPackageLookup"),
           ("python/eups/app.py", "listCache"), ("python/eups/app.py", "printProducts"),
           ("python/eups/Eups.py", "Eups.findProducts"), ("python/eups/Eups.py", "_TagSet"), ("python/eups/utils.py", "uniq"),
           ("python/eups/db/Database.py", "_Database.findProducts"), ("python/eups/db/Database.py", "_cmp_by_verflav"),
           ("python/eups/stack/ProductStack.py", "ProductStack.getVersions"), ("python/eups/stack/ProductFamily.py", "ProductFamily.getVersions")]

WORKERS = 4
MODEL_FLAGS = {"pinned": True} if os.environ.get("C10_MODEL") == "pinned" else {}     # development aid, see docs/notes/g10.md


# ---- implementation ------------------------------------------------------------------------------------

def impl_cmp(a, b, strict):
    from eups import hooks
    try:
        r = hooks.version_cmp(a, b, mustReturnInt=not strict)
    except ValueError:
        return "U"
    except AttributeError:
        return "M"
    except Exception:  # noqa
        return "E"
    if not isinstance(r, int) or isinstance(r, bool):
        return "E"
    return "<" if r < 0 else ">" if r > 0 else "="


def impl_rows(job):
    names, lo, hi = job
    out = []
    for i in range(lo, hi):
        a = names[i]
        out.append(("".join(impl_cmp(a, b, False) for b in names), "".join(impl_cmp(a, b, True) for b in names)))
    return out


def impl_matrix(names):
    n = len(names)
    if n <= 60:
        rows = impl_rows((names, 0, n))
    else:
        step = max(1, n // (WORKERS * 4))
        jobs = [(names, lo, min(n, lo + step)) for lo in range(0, n, step)]
        rows = [r for ch in parallel_map(impl_rows, jobs, workers=WORKERS) for r in ch]
    return [r[0] for r in rows], [r[1] for r in rows]


_bare = None


def bare_eups():
    """An Eups instance that was never initialised: version_match/version_match_prim read only
    self.version_cmp, self.verbose and the class attribute _relop_re."""
    global _bare
    if _bare is None:
        from eups import hooks
        M = common.eups_mod("Eups")
        _bare = M.Eups.__new__(M.Eups)
        _bare.version_cmp = hooks.version_cmp
        _bare.verbose = 0
    return _bare


def impl_match(case):
    e = bare_eups()
    v, expr = case["v"], case["expr"]
    try:
        with contextlib.redirect_stderr(io.StringIO()), contextlib.redirect_stdout(io.StringIO()):
            from eups import utils
            old = utils.stdwarn
            utils.stdwarn = io.StringIO()
            try:
                r = e.version_match(v, expr)
            finally:
                utils.stdwarn = old
        res = "match" if (r is not None and r is not False and r == v) else "nomatch"
    except IndexError:
        res = "I"
    except AttributeError:
        res = "M"
    except Exception as ex:  # noqa
        res = "E:" + type(ex).__name__
    terms = [impl_cmp(v, tv, True) for _, tv in case["terms"]]
    return {"r": res, "terms": terms}


def impl_legal(case):
    """Eups.isLegalRelativeVersion: is the version argument a relational request?"""
    e = bare_eups()
    try:
        r = e.isLegalRelativeVersion(case["expr"])
    except Exception as ex:  # noqa
        return {"r": "bad" if type(ex).__name__ == "EupsException" else "E:" + type(ex).__name__}
    return {"r": "relational" if r is True else "plain" if r is False else "E:%r" % (r,)}


_E = None


def real_eups():
    global _E
    if _E is None:
        root = common.scratch("c10")
        common.mkstacks(root)
        _E = common.new_eups()
        _E._c10root = root
    return _E


def impl_latest(case):
    e = real_eups()
    P = common.eups_mod("Product").Product
    prods = [P("prod", v, "Linux", "/nonexistent/%d" % i) for i, v in enumerate(case["names"])]
    try:
        with contextlib.redirect_stderr(io.StringIO()), contextlib.redirect_stdout(io.StringIO()):
            p = e._selectPreferredProduct(prods, ["latest"])
    except AttributeError:
        return {"err": "Malformed"}
    except Exception as ex:  # noqa
        return {"err": "E:" + type(ex).__name__}
    idx = None
    for i, q in enumerate(prods):
        if q is p:
            idx = i
    if p is not None and idx is None:
        return {"err": "foreign product returned"}
    names = case["names"]
    cmps = "".join(impl_cmp(q, names[idx], False) for q in names) if idx is not None else ""
    return {"idx": idx, "cmp_to_latest": cmps}


def _stack_build(case):
    root = common.scratch("c10s")
    stacks, _ = common.mkstacks(root, nstacks=len(case["stacks"]))
    e = common.new_eups()
    with contextlib.redirect_stderr(io.StringIO()), contextlib.redirect_stdout(io.StringIO()):
        for si, vers in enumerate(case["stacks"]):
            for v in vers:
                d = common.mkprod(stacks[si], "prod", v)
                e.declare("prod", v, d, eupsPathDir=stacks[si])
    return root, stacks


PATHS = ("cache", "db")      # the two branches of _findLatestProduct / _findProductsByExpr


def _stack_query(case, root, stacks, path):
    """All lookups of one case through one branch, in a fresh process (first Eups of the process).
    path 'cache': Eups() — the product cache is read and used;  path 'db': Eups(readCache=False), what
    `setup` does — every lookup goes to the database files (Database.findProducts, sorted as strings)."""
    os.environ["EUPS_PATH"] = ":".join(stacks)
    ud = os.path.join(root, "userdataA")
    os.environ["EUPS_USERDATA"] = ud
    if path == "db":
        # Eups(readCache=False) looks the default product up in __init__; a name of None raises TypeError there
        sp = os.path.join(ud, "startup.py")
        with open(sp) as f:
            txt = f.read()
        with open(sp, "w") as f:
            f.write(txt.replace('defaultProduct["name"] = None', 'defaultProduct["name"] = ""'))
    from eups import utils
    utils.stdwarn = io.StringIO()
    e = common.new_eups(readCache=(path == "cache"))
    holds = [bool(e.versions.get(st)) for st, vers in zip(stacks, case["stacks"]) if vers]
    used = "cache" if (holds and all(holds)) else ("db" if not any(holds) else "mixed")
    tag_latest = e.tags.getTag("latest")
    no_cache = (path == "db")

    def ref(p):
        return None if p is None else [stacks.index(p.stackRoot()), p.version]

    def guarded(f):
        try:
            with contextlib.redirect_stderr(io.StringIO()), contextlib.redirect_stdout(io.StringIO()):
                return f()
        except IndexError:
            return {"err": "IndexError"}
        except AttributeError:
            return {"err": "Malformed"}
        except Exception as ex:  # noqa
            return {"err": "E:" + type(ex).__name__}

    expr = case["expr"]
    relational = bool(e._relop_re.search(expr)) and not e._bad_relop_re.match(expr)
    out = {"branch": used,
           "latest": {
               "findTaggedProduct": guarded(lambda: ref(e.findTaggedProduct("prod", "latest"))),
               "findProduct(Tag)": guarded(lambda: ref(e.findProduct("prod", tag_latest))),
               "findProductFromVRO": guarded(lambda: ref(e.findProductFromVRO("prod", vro=["latest"])[0]))},
           "latest_min": guarded(lambda: ref(e._findLatestProduct("prod", e.path, e.flavor, minver=case.get("minver") or None,
                                                                  noCache=no_cache))),
           "matches": guarded(lambda: sorted(ref(p) for p in e._findProductsByExpr("prod", expr, e.path, e.flavor, no_cache))),
           # the latest of the matching versions: what `setup prod "expr"` does (VRO element versionExpr); an expression
           # without an operator is not a version expression for that entry point, so the two steps are called directly
           "preferred": guarded((lambda: ref(e.findProductFromVRO("prod", version=expr, vro=["versionExpr"], noCache=no_cache)[0]))
                                if relational else
                                (lambda: ref(e._selectPreferredProduct(
                                    e._findProductsByExpr("prod", expr, e.path, e.flavor, no_cache), ["latest"]))))}
    allv = [v for st in case["stacks"] for v in st]
    # the implementation's own order, for oracle (ii)
    refs = set()
    for r in list(out["latest"].values()) + [out["latest_min"], out["preferred"]]:
        if isinstance(r, list):
            refs.add(r[1])
    out["cmp_to"] = {r: "".join(impl_cmp(v, r, False) for v in allv) for r in refs}
    if case.get("minver"):
        out["cmp_to_minver"] = "".join(impl_cmp(v, case["minver"], False) for v in allv)
    out["terms"] = {v: [impl_cmp(v, tv, True) for _, tv in case["terms"]] for v in allv}
    return out


def impl_stack(case):
    """One child builds the stacks (declare); a fresh child per branch answers the lookups."""
    r = common.in_child(_stack_build, case)
    if r[0] != "ok":
        raise common.InfraError("building the stacks failed: %r" % (r,))
    root, stacks = r[1]
    res = {}
    try:
        for path in PATHS:
            q = common.in_child(_stack_query, case, root, stacks, path)
            if q[0] != "ok":
                raise common.InfraError("querying the stacks (%s) failed: %r" % (path, q,))
            res[path] = q[1]
    finally:
        common.rmtree(root)
    return res


LIST_TAGS = ("current", "beta")     # global tags of the scratch stacks (common.mkstacks); "latest" is the pseudo-tag


def _list_build(case):
    root = common.scratch("c10l")
    stacks, _ = common.mkstacks(root, nstacks=len(case["stacks"]))
    e = common.new_eups()
    with contextlib.redirect_stderr(io.StringIO()), contextlib.redirect_stdout(io.StringIO()):
        first = None
        for si, decls in enumerate(case["stacks"]):
            for d in decls:
                pd = common.mkprod(stacks[si], "prod", d["ver"])
                e.declare("prod", d["ver"], pd, eupsPathDir=stacks[si])
                if first is None:
                    first = (si, d["ver"])
        if first is not None:
            # the very first declaration of a product is made `current` by declare(); the case says who carries which tag
            e.unassignTag("current", "prod", first[1], eupsPathDir=stacks[first[0]])
        for si, decls in enumerate(case["stacks"]):
            for d in decls:
                for t in d["tags"]:
                    e.assignTag(t, "prod", d["ver"], eupsPathDir=stacks[si])
    return root, stacks


def _list_query(case, root, stacks):
    """Eups.findProducts(name, version, tags) — what `eups list prod <version> -t <tag>` prints — in a fresh process."""
    os.environ["EUPS_PATH"] = ":".join(stacks)
    os.environ["EUPS_USERDATA"] = os.path.join(root, "userdataA")
    from eups import utils
    utils.stdwarn = io.StringIO()
    e = common.new_eups()
    # the stacks are what the case says (otherwise nothing below means anything)
    for si, decls in enumerate(case["stacks"]):
        for d in decls:
            p = e.findProduct("prod", d["ver"], eupsPathDirs=[stacks[si]])
            if p is None or sorted(t for t in p.tags if t in LIST_TAGS) != sorted(d["tags"]):
                raise common.InfraError("stack %d: %r should carry %r, has %r" % (si, d["ver"], d["tags"], p and p.tags))
    try:
        with contextlib.redirect_stderr(io.StringIO()), contextlib.redirect_stdout(io.StringIO()):
            ps = e.findProducts("prod", version=(case["version"] or None), tags=(list(case["tags"]) or None))
        res = [[stacks.index(p.stackRoot()), p.version] for p in ps]
    except IndexError:
        res = {"err": "IndexError"}
    except AttributeError:
        res = {"err": "Malformed"}
    except Exception as ex:  # noqa
        res = {"err": "BadExpr" if type(ex).__name__ == "EupsException" else "E:" + type(ex).__name__}
    def ref(p):
        return None if p is None else [stacks.index(p.stackRoot()), p.version]

    def guarded(f):
        try:
            with contextlib.redirect_stderr(io.StringIO()), contextlib.redirect_stdout(io.StringIO()):
                return f()
        except IndexError:
            return {"err": "IndexError"}
        except AttributeError:
            return {"err": "Malformed"}
        except Exception as ex:  # noqa
            return {"err": "BadExpr" if type(ex).__name__ == "EupsException" else "E:" + type(ex).__name__}

    def cli():
        # `eups list prod [version] [-t tag …]` as the command prints it: one line per product, version and tags
        import eups.app as app
        buf = io.StringIO()
        with contextlib.redirect_stdout(buf), contextlib.redirect_stderr(io.StringIO()):
            app.printProducts(buf, "prod", case["version"] or None, eupsenv=e, tags=(list(case["tags"]) or None))
        # a tag carried in several stacks is printed as tag[stack]
        return [[ln.split()[0], sorted(t.split("[")[0] for t in ln.split()[1:] if t.split("[")[0] in LIST_TAGS)]
                for ln in buf.getvalue().splitlines() if ln.strip()]

    try:
        printed = cli()
    except IndexError:
        printed = {"err": "IndexError"}
    except AttributeError:
        printed = {"err": "Malformed"}
    except Exception as ex:  # noqa
        printed = {"err": {"EupsException": "BadExpr", "ProductNotFound": "ProductNotFound"}.get(type(ex).__name__, "E:" + type(ex).__name__)}
    def list_cache():
        # `eups admin listCache -v`: one line per product and stack, its versions sorted with the comparator
        import eups.app as app
        buf = io.StringIO()
        with contextlib.redirect_stdout(buf), contextlib.redirect_stderr(io.StringIO()):
            app.listCache(path=list(stacks), verbose=1, flavor=e.flavor)
        return [ln.split()[1:] for ln in buf.getvalue().splitlines() if ln.split()[:1] == ["prod"]]
    try:
        cache_lines = list_cache()
    except AttributeError:
        cache_lines = {"err": "Malformed"}
    except Exception as ex:  # noqa
        cache_lines = {"err": "E:" + type(ex).__name__}
    arg = case["version"]
    find = entry = None
    if arg:
        # the other entry points that take a version argument: findProduct(name, arg) (a relational argument goes to
        # _findPreferredProductByExpr and the session's preferred tags) and the way `setup prod arg` resolves it
        if case["argkind"] == "expr":
            find = guarded(lambda: ref(e.findProduct("prod", arg)))

        def vro():
            p, why = e.findProductFromVRO("prod", version=arg, vro=["version", "versionExpr"])
            # which VRO entry found it: the expression, or the explicit version (reported as "version" or "commandLine")
            return [ref(p), None if not why else "versionExpr" if why[0] == "versionExpr" else "explicit"]
        entry = guarded(vro)
    allv = list(dict.fromkeys(d["ver"] for st in case["stacks"] for d in st))
    return {"products": res, "cli": printed, "list_cache": cache_lines, "find": find, "entry": entry, "preferred": list(e.preferredTags),
            "terms": {v: [impl_cmp(v, tv, True) for _, tv in case["terms"]] for v in allv},
            "order": {v: "".join(impl_cmp(w, v, False) for w in allv) for v in allv}}


def impl_list(case):
    r = common.in_child(_list_build, case)
    if r[0] != "ok":
        raise common.InfraError("building the stacks of a listing case failed: %r" % (r,))
    root, stacks = r[1]
    try:
        q = common.in_child(_list_query, case, root, stacks)
        if q[0] != "ok":
            raise common.InfraError("listing failed: %r" % (q,))
        return q[1]
    finally:
        common.rmtree(root)


def _repos_query(case):
    """distrib.Repositories.findPackage(product, Tag("latest")) over package repositories given as directories of manifests"""
    root = common.scratch("c10r")
    try:
        common.mkstacks(root, nstacks=1)
        e = common.new_eups()
        roots = []
        for i, vers in enumerate(case["repos"]):
            r = os.path.join(root, "srv%d" % i)
            os.makedirs(os.path.join(r, "manifests"))
            for v in vers:
                with open(os.path.join(r, "manifests", "prod-%s.manifest" % v), "w") as fh:
                    fh.write("EUPS distribution manifest for prod (%s). Version 1.0\n#\n" % v)
            roots.append(r)
        from eups.distrib.Repositories import Repositories

        def ref(out):
            return None if out is None else [roots.index(out[3]), out[1]]

        def guarded(f):
            try:
                with contextlib.redirect_stderr(io.StringIO()), contextlib.redirect_stdout(io.StringIO()):
                    return f()
            except AttributeError:
                return {"err": "Malformed"}
            except Exception as ex:  # noqa
                return {"err": "E:" + type(ex).__name__}
        reps = Repositories(roots, eupsenv=e, verbosity=-1, log=io.StringIO())
        tag = e.tags.getTag("latest")
        per = []
        for r in roots:
            o = guarded(lambda: reps.repos[r].findPackage("prod", tag))
            per.append(o if isinstance(o, dict) else (None if o is None else o[1]))
        allv = [v for vers in case["repos"] for v in vers]
        from eups.utils import Flavor
        res = {"passes": len(Flavor().getFallbackFlavors(e.flavor, True)),      # the loop over the repositories runs once per preferred flavor
               "latest": guarded(lambda: ref(reps.findPackage("prod", tag))),
               "default": guarded(lambda: ref(reps.findPackage("prod"))),       # no version: the preferred tags, of which only `latest` finds anything here
               "per_repo": per}
        refs = set(x[1] for x in (res["latest"], res["default"]) if isinstance(x, list)) | set(x for x in per if isinstance(x, str))
        res["cmp_to"] = {r: "".join(impl_cmp(v, r, False) for v in allv) for r in refs}
        return res
    finally:
        common.rmtree(root)


def impl_repos(case):
    q = common.in_child(_repos_query, case)
    if q[0] != "ok":
        raise common.InfraError("querying the package repositories failed: %r" % (q,))
    return q[1]


def eval_repos(ctx, c, inp, io_, ans):
    repos = c["repos"]
    allv = [v for vers in repos for v in vers]
    ctx.case(key=("R", json.dumps(repos)), nontrivial=len(set(allv)) > 1,
             sample={"input": inp, "impl": {k: io_[k] for k in ("latest", "default", "per_repo")}} if ctx.evaluations % 97 == 5 else None)
    ctx.hist("repos/n=%d" % len(repos))
    mo = ans["r"]
    per_latest = [x for x in io_["per_repo"] if isinstance(x, str)]
    if len(per_latest) >= 2 and io_["cmp_to"].get(per_latest[0]):
        # is the first repository's latest the overall maximum?  (the class on which a wrong comparison shows)
        col = io_["cmp_to"][per_latest[0]]
        ctx.hist("repos/first-repository-has-the-latest" if all(ch in "<=" for ch in col) else "repos/a-later-repository-has-the-latest")
    for api in ("latest", "default"):
        got = io_[api]
        if got != mo:
            ctx.disagree("latest_across_repositories/" + api, inp, {k: io_[k] for k in ("latest", "default", "per_repo")}, mo)
        # oracle (ii): declared there, and no available version is later (the implementation's own comparisons)
        if isinstance(got, dict):
            ctx.fail("latest_no_crash", inp, got, mo, note="%s raised %s" % (api, got["err"]))
        elif (got is None) != (not allv):
            ctx.fail("latest_exists", inp, got, mo, note="%s = %r for available versions %r" % (api, got, allv[:6]))
        elif got is not None:
            if got[1] not in repos[got[0]]:
                ctx.fail("latest_is_max", inp, got, mo, note="[repositories] %r is not in repository %d" % (got[1], got[0]))
            else:
                bad = [allv[i] for i, ch in enumerate(io_["cmp_to"][got[1]]) if ch not in "<="]
                if bad:
                    ctx.fail("latest_is_max", inp, got, mo, finding=None,
                             note="[repositories, %s] %r returned but %r are later" % (api, got[1], bad[:3]))
    for i, x in enumerate(io_["per_repo"]):
        if isinstance(x, str):
            bad = [v for v in repos[i] if io_["cmp_to"][x][allv.index(v)] not in "<="]
            if bad:
                ctx.fail("latest_is_max", inp, io_["per_repo"], mo, note="[repository %d] %r returned but %r are later" % (i, x, bad[:3]))


def gen_repos(ctx, pool, n):
    rng = ctx.rng
    bypre = {}
    for nme, d in pool:
        bypre.setdefault(d["prefix"], []).append((nme, d))
    groups = [g for g in bypre.values() if len(g) >= 12]
    cases = []
    for _ in range(n):
        grp = rng.choice(groups)
        base = rng.sample(grp, min(len(grp), 9))
        d0 = dict(rng.choice(base)[1])
        for nums in (["9"], ["10"], ["1", "9"], ["1", "10"]):
            if rng.random() < 0.4:
                e = dict(d0, nums=nums, seps=[rng.choice("._")] * (len(nums) - 1), pre=None, post=None)
                base.append((L.render(e), e))
        repos = []
        for _s in range(rng.choice([1, 2, 2, 3, 3, 4])):
            st, keys = [], set()
            for nme, d in rng.sample(base, min(len(base), rng.choice([0, 1, 1, 2, 3]))):
                k = spelling_key(d)
                if k not in keys:                      # no two versions of a repository compare equal (directory order is not modelled)
                    keys.add(k)
                    st.append(nme)
            repos.append(st)
        cases.append({"kind": "repos", "repos": repos})
    return cases


def _list_queries(cases, root, stacks):
    """several requests against the same stacks, one after the other in one process (the stacks are only read)"""
    return [_list_query(c, root, stacks) for c in cases]


def impl_list_family(job):
    """job = (stacks description, [listing cases on it]): one child declares and tags, one child answers all the requests"""
    config, cases = job
    r = common.in_child(_list_build, config)
    if r[0] != "ok":
        raise common.InfraError("building the stacks of a listing family failed: %r" % (r,))
    root, stacks = r[1]
    try:
        q = common.in_child(_list_queries, cases, root, stacks)
        if q[0] != "ok":
            raise common.InfraError("listing failed: %r" % (q,))
        return q[1]
    finally:
        common.rmtree(root)


def impl_list_families(jobs):
    return [impl_list_family(j) for j in jobs]


def enum_list_families(ctx, n):
    """Exhaustive small enumeration for the listing: one stack with 1.9, 1.10, 1_10 (two spellings that compare equal) in every order of
    declaration x `current` on one of them or on none x `beta` likewise, and against each every request of a fixed set
    (6 version arguments x 5 tag lists).  n = number of stack configurations (None: all 96)."""
    import itertools
    vers = ["1.9", "1.10", "1_10"]
    configs = []
    for order in itertools.permutations(vers):
        for cur in [None] + vers:
            for beta in [None] + vers:
                configs.append({"stacks": [[{"ver": v, "tags": [t for t, w in (("current", cur), ("beta", beta)) if w == v]} for v in order]]})
    if n is not None and n < len(configs):
        configs = ctx.rng.sample(configs, n)
    args = [(">= 1.10", "expr", [[">=", "1.10"]]), ("< 1.10", "expr", [["<", "1.10"]]), ("== 1_10", "expr", [["==", "1_10"]]),
            ("> 1.9 || == 1.9", "expr", [[">", "1.9"], ["==", "1.9"]]), ("1.1*", "glob", []), ("", "none", [])]
    tagsets = [[], ["current"], ["latest"], ["beta", "current"], ["latest", "current"]]
    jobs = []
    for cf in configs:
        cases = [{"kind": "list", "stacks": cf["stacks"], "version": a, "argkind": k, "terms": t, "pure": True, "tags": ts, "family": True}
                 for a, k, t in args for ts in tagsets]
        jobs.append((cf, cases))
    return jobs


def eval_list_families(ctx, jobs):
    if not jobs:
        return
    nw = min(WORKERS, len(jobs))
    chunks = [jobs[i::nw] for i in range(nw)]
    outs = parallel_map(impl_list_families, chunks, workers=nw) if nw > 1 else [impl_list_families(jobs)]
    impl = {}
    for k, ch in enumerate(outs):
        for j, v in enumerate(ch):
            impl[k + j * nw] = v
    cases, ios = [], []
    for idx, (cf, cs) in enumerate(jobs):
        cases += cs
        ios += impl[idx]
    reqs = [{"m": "c10", "op": "list", "version": c["version"], "tags": c["tags"], "stacks": c["stacks"], "preferred": io_["preferred"]}
            for c, io_ in zip(cases, ios)]
    answers = ctx.lean.ask_many(reqs)
    for c, io_, ans in zip(cases, ios, answers):
        if "bad-op" in ans:
            raise common.InfraError("model refused %r: %s" % (c, ans["bad-op"]))
        ctx.hist("list/enumerated-family")
        eval_list(ctx, c, {k: v for k, v in c.items() if not k.startswith("_")}, io_, ans)


def impl_small(jobs):
    out = []
    for c in jobs:
        if c["kind"] == "stack":
            out.append(impl_stack(c))
            continue
        if c["kind"] == "list":
            out.append(impl_list(c))
            continue
        if c["kind"] == "repos":
            out.append(impl_repos(c))
            continue
        out.append(impl_match(c) if c["kind"] == "match" else impl_legal(c) if c["kind"] == "legal" else impl_latest(c))
    if _E is not None:
        common.rmtree(_E._c10root)
    return out


def impl_small_forked(cases, nw):
    """Always in forked children: the parent never constructs an Eups."""
    if nw <= 1 or len(cases) < 2:
        r = common.in_child(impl_small, cases)
        if r[0] != "ok":
            raise common.InfraError("child running match/latest cases failed: %r" % (r,))
        return r[1]
    chunks = [cases[i::nw] for i in range(nw)]
    outs = parallel_map(impl_small, chunks, workers=nw)
    impl = [None] * len(cases)
    for k, ch in enumerate(outs):
        for j, v in enumerate(ch):
            impl[k + j * nw] = v
    return impl


# ---- model -----------------------------------------------------------------------------------------------

def model_matrix(ctx, names):
    reqs = [dict({"m": "c10", "op": "matrix", "names": names, "strict": s}, **MODEL_FLAGS) for s in (False, True)]
    a, b = ctx.lean.ask_many(reqs)
    for x in (a, b):
        if "bad-op" in x:
            raise common.InfraError("model refused a matrix request: %s" % x["bad-op"])
    return a["rows"], b["rows"], a["conv"], a["conventional"]


# ---- oracle (ii) on a matrix of the implementation ----------------------------------------------------------

FLIP = str.maketrans("<>", "><")


def sub(rows, idx):
    return ["".join(rows[i][j] for j in idx) for i in idx]


def names_case(names, idx):
    return {"kind": "names", "names": [names[i] for i in idx]}


def oracle_matrix(names, descs, srt, stc):
    """Yields (clause, indices, note) for every clause the implementation's matrices break.
    descs[i] = structured description of names[i] when it is a conventional name, else None."""
    n = len(names)
    rng_ = range(n)
    tsrt = ["".join(srt[i][j] for i in rng_) for j in rng_]
    tstc = ["".join(stc[i][j] for i in rng_) for j in rng_]
    rejected = [srt[i][i] == "M" for i in rng_]
    for i in rng_:
        rs, rt = srt[i], stc[i]
        # no crash; rejection is a property of the name
        if "E" in rs or "E" in rt:
            j = (rs.find("E") if "E" in rs else rt.find("E"))
            yield ("no_crash", (i, j), "comparison raised something other than ValueError/AttributeError")
        if "U" in rs:
            yield ("sort_mode_returns_int", (i, rs.find("U")), "ValueError with mustReturnInt=True")
        for rows, mode in ((rs, "sort"), (rt, "strict")):
            if rejected[i]:
                if rows != "M" * n:
                    j = next(j for j in rng_ if rows[j] != "M")
                    yield ("rejection_per_name", (i, j), "%s: a rejected name compared with something" % mode)
            else:
                for j in rng_:
                    if rows[j] == "M" and not rejected[j]:
                        yield ("rejection_per_name", (i, j), "%s: AttributeError for two names that are accepted on their own" % mode)
                        break
        if rejected[i]:
            continue
        # reflexivity
        if rs[i] != "=":
            yield ("refl", (i, i), "sort mode: cmp(a,a) = %s" % rs[i])
        if rt[i] != "=":
            yield ("refl", (i, i), "strict mode: cmp(a,a) = %s" % rt[i])
        # antisymmetry (whole row against the transposed column first)
        if rs.translate(FLIP) != tsrt[i]:
            for j in rng_:
                if rs[j].translate(FLIP) != tsrt[i][j] and "E" not in (rs[j], tsrt[i][j]):
                    yield ("antisym", (i, j), "sort mode: cmp(a,b) = %s, cmp(b,a) = %s" % (rs[j], tsrt[i][j]))
                    break
        if rt.translate(FLIP) != tstc[i]:
            for j in rng_:
                if rt[j].translate(FLIP) != tstc[i][j] and "E" not in (rt[j], tstc[i][j]):
                    yield ("antisym_strict", (i, j), "strict mode: cmp(a,b) = %s, cmp(b,a) = %s" % (rt[j], tstc[i][j]))
                    break
        # the strict mode never contradicts the sorting mode
        if rt != rs:
            for j in rng_:
                if rt[j] != rs[j] and rt[j] not in "UE" and rs[j] != "E":
                    yield ("strict_agrees_with_sort", (i, j), "sort %s, strict %s" % (rs[j], rt[j]))
                    break
    # conventional names: the clauses that fix the order, totality
    conv = [i for i in rng_ if descs[i] is not None]
    bad = {}
    for i in conv:
        a = descs[i]
        rs, rt = srt[i], stc[i]
        for j in conv:
            b = descs[j]
            if rs[j] not in "<=>":
                bad.setdefault("conv_total", ((i, j), "sort mode: %s" % rs[j]))
            if a["prefix"] == b["prefix"] and rt[j] not in "<=>":
                bad.setdefault("conv_total_strict", ((i, j), "strict mode, same prefix: %s" % rt[j]))
            ex = L.expected(a, b)
            if ex is not None:
                clause, want = ex
                if rs[j] != want:
                    bad.setdefault(clause, ((i, j), "sort mode: expected %s, got %s" % (want, rs[j])))
                elif rt[j] != want:
                    bad.setdefault(clause, ((i, j), "strict mode: expected %s, got %s" % (want, rt[j])))
    for clause, (ij, note) in bad.items():
        yield (clause, ij, note)
    for (i, j, k) in L.intransitive_triples(srt, conv, limit=3):
        yield ("conv_trans", (i, j, k), "a<=b (%s), b<=c (%s) but cmp(a,c) = %s" % (srt[i][j], srt[j][k], srt[i][k]))


# ---- evaluation of the three kinds of case ------------------------------------------------------------------

def eval_names(ctx, names, descs=None, tag="set", count=True):
    """All ordered pairs of `names`, both modes, implementation against model, and oracle (ii)."""
    names = list(names)
    if descs is None:
        descs = [L.parse_conventional(x) for x in names]
    isrt, istc = impl_matrix(names)
    msrt, mstc, mconv, mconventional = model_matrix(ctx, names)
    n = len(names)
    # the generator's class must be inside the model's class (the theorems are about the model's)
    for i in range(n):
        if descs[i] is not None and not mconventional[i]:
            raise common.InfraError("generator calls %r conventional, the model's predicate does not" % names[i])
    ctx.hist("names/conventional(generator)", sum(d is not None for d in descs))
    ctx.hist("names/conventional(model)", sum(map(bool, mconventional)))
    ctx.hist("names/conv-class-of-the-theorems(model)", sum(map(bool, mconv)))
    ctx.hist("names/total", n)
    if count:
        for i in range(n):
            a, rs, rt = names[i], isrt[i], istc[i]
            for j in range(n):
                ctx.case(key=(a, names[j]), nontrivial=(a != names[j]),
                         sample=({"input": [a, names[j]], "impl": {"sort": rs[j], "strict": rt[j]}}
                                 if (ctx.evaluations % 100003 == 17) else None))
        for rows, mode in ((isrt, "sort"), (istc, "strict")):
            joined = "".join(rows)
            for ch in "<=>UME":
                k = joined.count(ch)
                if k:
                    ctx.hist("%s/%s:%s" % (tag, mode, ch), k)

    def small(idx):
        idx = list(dict.fromkeys(idx))
        return (names_case(names, idx), {"sort": sub(isrt, idx), "strict": sub(istc, idx)},
                {"sort": sub(msrt, idx), "strict": sub(mstc, idx)})

    ndis = 0
    for i in range(n):
        if isrt[i] != msrt[i] or istc[i] != mstc[i]:
            for j in range(n):
                if isrt[i][j] != msrt[i][j] or istc[i][j] != mstc[i][j]:
                    obs = "cmp_sort" if isrt[i][j] != msrt[i][j] else "cmp_strict"
                    inp, io_, mo = small([i, j])
                    ctx.disagree(obs, inp, io_, mo)
                    ndis += 1
                    break
        if ndis >= 20:
            break
    for clause, idx, note in oracle_matrix(names, descs, isrt, istc):
        inp, io_, mo = small(idx)
        ctx.fail(clause, inp, io_, mo, note=note, finding=None)
        ctx.hist("oracle-failure/" + clause)
    return isrt, istc


def expected_match(case, out):
    """('clause', want) from the implementation's own strict comparisons, or None when the property is silent."""
    if not case.get("pure"):
        return None
    codes = out["terms"]
    if any(c in "ME" for c in codes):
        return None
    if len(codes) == 1 and codes[0] == "U":
        return ("unsortable_no_match", "nomatch")
    if "U" in codes:
        return None
    holds = []
    for (op, _), c in zip(case["terms"], codes):
        holds.append({"<": c == "<", "<=": c in "<=", "==": c == "=", ">=": c in ">=", ">": c == ">"}[op])
    return ("match_iff_relation", "match" if any(holds) else "nomatch")


def eval_small(ctx, cases):
    """match and latest cases"""
    if not cases:
        return
    impl = impl_small_forked(cases, WORKERS if (len(cases) > 200 or cases[0]["kind"] in ("stack", "list", "repos")) else 1)
    reqs = []
    for c in cases:
        if c["kind"] == "match":
            reqs.append({"m": "c10", "op": "match", "v": c["v"], "expr": c["expr"]})
        elif c["kind"] == "legal":
            reqs.append({"m": "c10", "op": "legal", "expr": c["expr"]})
        elif c["kind"] == "repos":
            reqs.append(dict({"m": "c10", "op": "repos", "repos": c["repos"], "passes": impl[len(reqs)]["passes"]}, **MODEL_FLAGS))
        elif c["kind"] == "list":
            reqs.append({"m": "c10", "op": "list", "version": c["version"], "tags": c["tags"], "stacks": c["stacks"],
                         "preferred": impl[len(reqs)]["preferred"]})     # the session's preferred tags are part of the input
        elif c["kind"] == "stack":
            reqs.append({"m": "c10", "op": "stacksboth", "stacks": c["stacks"], "expr": c["expr"], "minver": c.get("minver") or ""})
        else:
            reqs.append({"m": "c10", "op": "latest", "names": c["names"]})
    answers = ctx.lean.ask_many(reqs)
    for c, io_, ans in zip(cases, impl, answers):
        if "bad-op" in ans:
            raise common.InfraError("model refused %r: %s" % (c, ans["bad-op"]))
        inp = {k: v for k, v in c.items() if not k.startswith("_")}
        if c["kind"] == "stack":
            eval_stack(ctx, c, inp, io_, ans)
        elif c["kind"] == "repos":
            eval_repos(ctx, c, inp, io_, ans)
        elif c["kind"] == "list":
            eval_list(ctx, c, inp, io_, ans)
        elif c["kind"] == "legal":
            ctx.case(key=("g", c["expr"]), nontrivial=bool(c["expr"].strip()),
                     sample={"input": inp, "impl": io_} if ctx.evaluations % 997 == 11 else None)
            ctx.hist("legal/shape=%s" % c.get("shape", "corpus"))
            ctx.hist("legal/outcome=" + io_["r"])
            if io_["r"] != ans["r"]:
                ctx.disagree("isLegalRelativeVersion", inp, io_["r"], ans["r"])
            # oracle (ii), from the generator's description: a request with an explicit operator is a relational request,
            # a bare name is not, and the single `=` followed by a blank is refused with the "did you mean ==" message
            want = c.get("want")
            if want is not None and io_["r"] != want:
                ctx.fail("request_recognised", inp, io_["r"], ans["r"], note="expected %s for the shape %s" % (want, c.get("shape")))
        elif c["kind"] == "match":
            mo = ans["r"]
            ctx.case(key=("m", c["v"], c["expr"]), nontrivial=bool(c["terms"]),
                     sample={"input": inp, "impl": io_} if ctx.evaluations % 9973 == 5 else None)
            ctx.hist("match/outcome=" + io_["r"])
            ctx.hist("match/terms=%d" % len(c["terms"]))
            ctx.hist("match/pure-or-chain" if c.get("pure") else "match/enumerated-token-sequence" if c.get("enum") else "match/other")
            ex_ = c["expr"]
            for key, hit in (("match/text:word-or", " or " in ex_), ("match/text:and", "&&" in ex_ or " and " in ex_),
                             ("match/text:no-blank-after-operator", bool(L.re.search(r"[<>=][^\s<>=]", ex_))),
                             ("match/text:no-blank-around-||", bool(L.re.search(r"\S\|\||\|\|\S", ex_))),
                             ("match/text:bare-term", any(("%s %s" % (o, v)) not in L.re.sub(r"\s+", " ", L.re.sub(r"([<>=]+)\s*", r"\1 ", ex_))
                                                          for o, v in c["terms"] if o == "==")),
                             ("match/text:tab-or-double-blank", "\t" in ex_ or "  " in ex_),
                             ("match/text:and-after-or", bool(L.re.search(r"(\|\|| or ).*(&&| and )", ex_))),
                             ("match/text:or-after-and", bool(L.re.search(r"(&&| and ).*(\|\|| or )", ex_)))):
                if hit:
                    ctx.hist(key)
            if io_["r"] != mo:
                ctx.disagree("version_match", inp, io_["r"], mo, note="tokens (model): %s" % ans.get("tokens"))
            ex = expected_match(c, io_)
            if ex is not None:
                ctx.hist("match/oracle:" + ex[0])
                if io_["r"] != ex[1]:
                    if len(c["terms"]) > 1 and not c.get("_shrunk") and ctx.histogram.get("match/shrink-attempts", 0) < 8:
                        # shrink: single terms and two-term sub-chains, canonical spacing; report the smallest that still fails
                        ctx.hist("match/shrink-attempts")
                        ts = c["terms"]
                        subs = [[t] for t in ts] + [[a, b] for i, a in enumerate(ts) for b in ts[i + 1:]]
                        variants = [{"kind": "match", "v": c["v"], "expr": " || ".join("%s %s" % (o, v) for o, v in sub),
                                     "terms": sub, "pure": True, "_shrunk": True} for sub in subs]
                        before = len(ctx.failures)
                        eval_small(ctx, variants)
                        if any(f["clause"] == ex[0] for f in ctx.failures[before:]):
                            ctx.failures[before:] = [f for f in ctx.failures[before:] if f["clause"] == ex[0]][:1]
                            continue
                    ctx.fail(ex[0], inp, io_["r"], mo, note="terms compare %s in the implementation's order; expected %s" % (io_["terms"], ex[1]))
        else:
            mo = {"err": ans["err"]} if "err" in ans else {"idx": ans["idx"]}
            io_cmp = {k: io_[k] for k in ("idx", "err") if k in io_}
            names = c["names"]
            ctx.case(key=("l", names), nontrivial=len(set(names)) > 1,
                     sample={"input": inp, "impl": io_} if ctx.evaluations % 9973 == 7 else None)
            ctx.hist("latest/len=%d" % len(names))
            if io_cmp != mo:
                ctx.disagree("latest", inp, io_cmp, mo)
            if "idx" in io_:
                if (io_["idx"] is None) != (len(names) == 0):
                    ctx.fail("latest_exists", inp, io_cmp, mo, note="no product returned for a non-empty list")
                elif io_["idx"] is not None:
                    if any(ch not in "<=" for ch in io_["cmp_to_latest"]):
                        ctx.fail("latest_is_max", inp, io_cmp, mo,
                                 note="cmp(x, latest) over the list = %s" % io_["cmp_to_latest"])
                    if io_["idx"] != names.index(names[io_["idx"]]):
                        ctx.fail("latest_first_with_that_name", inp, io_cmp, mo, note="a later duplicate was returned")
            elif c.get("conventional"):
                ctx.fail("latest_no_crash", inp, io_cmp, mo, note="selection raised on conventional names")


def eval_chunks(ctx, cases, size):
    """eval_small in pieces, so that the time limit is looked at in between (the search after a correspondence break
    runs under the quick tier's limit with a larger budget)"""
    for i in range(0, len(cases), size):
        if ctx.out_of_time():
            ctx.note("time limit reached after %d of %d %s cases" % (i, len(cases), cases[i]["kind"]))
            break
        eval_small(ctx, cases[i:i + size])


def canon_stack_model(ans):
    return {"latest": ans["latest"], "latest_min": ans["latest_min"], "preferred": ans["preferred"],
            "matches": sorted(ans["matches"]) if isinstance(ans["matches"], list) else ans["matches"]}


def eval_stack(ctx, c, inp, io_, ans):
    allv = [v for st in c["stacks"] for v in st]
    ctx.case(key=("s", c["stacks"], c["expr"], c.get("minver")), nontrivial=len(set(allv)) > 1,
             sample={"input": inp, "impl": {k: {x: v[x] for x in ("branch", "latest", "latest_min", "matches", "preferred")}
                                            for k, v in io_.items()}} if ctx.evaluations % 997 == 3 else None)
    ctx.hist("stack/nstacks=%d" % len(c["stacks"]))
    if c.get("ties"):
        ctx.hist("stack/ties-inside-a-stack")
    if sorted(allv) != sorted(allv, key=lambda v: [int(t) if t.isdigit() else t for t in __import__("re").split(r"(\d+)", v)]):
        ctx.hist("stack/string-order-differs-from-numeric-order")
    for path, out in io_.items():
        if out["branch"] != path and allv:
            raise common.InfraError("the %s lookups of %r went through the %s branch" % (path, c["stacks"], out["branch"]))
        ctx.hist("stack/branch=" + path)
        mo = canon_stack_model(ans[path])
        ic = {"latest": out["latest"], "latest_min": out["latest_min"], "matches": out["matches"], "preferred": out["preferred"]}
        mo_cmp = dict(mo, latest={k: mo["latest"] for k in out["latest"]})
        pinp = dict(inp, path=path)
        for api, got in out["latest"].items():
            if got != mo["latest"]:
                ctx.disagree("latest_through_stacks/%s/%s" % (path, api), pinp, ic, mo_cmp)
        for obs in ("latest_min", "matches", "preferred"):
            if ic[obs] != mo[obs]:
                ctx.disagree("%s_through_stacks/%s" % (obs, path), pinp, ic, mo_cmp)

        # ---- oracle (ii): from the implementation's own comparisons
        def fail(clause, note):
            ctx.fail(clause, pinp, ic, mo_cmp, note="[%s branch] %s" % (path, note))

        def check_max(clause, r, among, what):
            """r = [stack, version] must be declared there and not exceeded by any version of `among` (indices into allv)."""
            if r[1] not in c["stacks"][r[0]]:
                fail(clause, "%s: %r is not declared in stack %d" % (what, r[1], r[0]))
                return
            codes = out["cmp_to"][r[1]]
            bad = [allv[i] for i in among if codes[i] not in "<="]
            if bad:
                fail(clause, "%s = %r but %r compare(s) later" % (what, r[1], bad[:3]))

        everything = range(len(allv))
        for api, lat in out["latest"].items():
            if isinstance(lat, dict):
                fail("latest_no_crash", "%s raised %s" % (api, lat["err"]))
            elif (lat is None) != (not allv):
                fail("latest_exists", "%s = %r for declared versions %r" % (api, lat, allv))
            elif lat is not None:
                check_max("latest_is_max", lat, everything, api)
        lm = out["latest_min"]
        if c.get("minver") and not isinstance(lm, dict):
            ctx.hist("stack/minver:" + ("none" if lm is None else "some"))
            tomin = out["cmp_to_minver"]
            if all(ch in "<=>" for ch in tomin):
                reach = [i for i in everything if tomin[i] in ">="]
                if lm is None:
                    if reach:
                        fail("latest_minver", "nothing returned although %r reach the minimum %r" % ([allv[i] for i in reach][:3], c["minver"]))
                else:
                    check_max("latest_minver", lm, everything, "_findLatestProduct(minver=%r)" % c["minver"])
                    if tomin[allv.index(lm[1])] not in ">=":
                        fail("latest_minver", "%r is below the minimum %r" % (lm[1], c["minver"]))
        matched = None
        if c.get("pure") and isinstance(out["matches"], list):
            got = set(v for _, v in out["matches"])
            decided = True
            for v in dict.fromkeys(allv):
                ex = expected_match(c, {"terms": out["terms"][v]})
                if ex is None:
                    decided = False
                    continue
                ctx.hist("stack/oracle:" + ex[0])
                if (v in got) != (ex[1] == "match"):
                    fail(ex[0] + "_through_stacks", "version %r compares %s with the terms; expected %s" % (v, out["terms"][v], ex[1]))
            for i, v in out["matches"]:
                if v not in c["stacks"][i] or any(v in st for st in c["stacks"][:i]):
                    fail("matches_first_stack", "%r reported from stack %d" % (v, i))
            if decided:
                matched = got
        pr = out["preferred"]
        if matched is not None and not isinstance(pr, dict):
            ctx.hist("stack/oracle:latest_of_matches")
            if (pr is None) != (not matched):
                fail("latest_of_matches_is_max", "latest of the matches = %r, matching versions %r" % (pr, sorted(matched)))
            elif pr is not None:
                if pr[1] not in matched:
                    fail("latest_of_matches_is_max", "latest of the matches = %r does not match" % (pr,))
                else:
                    check_max("latest_of_matches_is_max", pr, [i for i in everything if allv[i] in matched], "latest of the matches")


def eval_list(ctx, c, inp, io_, ans):
    """Eups.findProducts(name, version, tags): the listing entry point."""
    import fnmatch
    stacks, tags, arg = c["stacks"], c["tags"], c["version"]
    allv = list(dict.fromkeys(d["ver"] for st in stacks for d in st))
    ctx.case(key=("L", json.dumps(stacks), arg, tags), nontrivial=len(allv) > 1,
             sample={"input": inp, "impl": io_["products"]} if ctx.evaluations % 97 == 3 else None)
    ctx.hist("list/arg=" + c["argkind"])
    ctx.hist("list/tags=" + ("+".join(tags) or "none"))
    got = io_["products"]
    mo = ans["products"] if "products" in ans else {"err": ans["err"]}
    if got != mo:
        ctx.disagree("findProducts", inp, got, mo)
    eval_list_entries(ctx, c, inp, io_, ans)
    # the command level: what `eups list` prints (sorted by version *string* there) against the model's listing
    decl_ = {(i, d["ver"]): d["tags"] for i, st in enumerate(stacks) for d in st}
    if isinstance(mo, dict):
        mcli = mo
    elif not mo:
        mcli = {"err": "ProductNotFound"}
    else:
        mcli = sorted([v, sorted(decl_.get((i, v), []))] for i, v in mo)
    # `eups admin listCache -v`: the whole sorted list of every stack (not only its last element)
    msorted = [x for x in ans["sorted"] if x != []]

    def canon_ties(lines):
        # listCache enumerates a stack through a set (`_uniquify`): versions that compare equal come in no particular order
        if not isinstance(lines, list):
            return lines
        allv__ = list(dict.fromkeys(d["ver"] for st in stacks for d in st))
        out = []
        for line in lines:
            if not isinstance(line, list):
                out.append(line)
                continue
            groups = []
            for v in line:
                if groups and v in allv__ and groups[-1][-1] in allv__ and io_["order"][v][allv__.index(groups[-1][-1])] == "=":
                    groups[-1].append(v)
                else:
                    groups.append([v])
            out.append([v for g in groups for v in sorted(g)])
        return out
    if canon_ties(io_["list_cache"]) != canon_ties(msorted):
        ctx.disagree("listCache_version_order", inp, io_["list_cache"], msorted)
    if isinstance(io_["list_cache"], list):
        allv_ = list(dict.fromkeys(d["ver"] for st in stacks for d in st))
        nonempty = [st for st in stacks if st]
        if len(io_["list_cache"]) != len(nonempty):
            ctx.fail("sorted_listing_complete", inp, io_["list_cache"], msorted, note="%d lines for %d stacks with the product" % (len(io_["list_cache"]), len(nonempty)))
        for line, st in zip(io_["list_cache"], nonempty):
            ctx.hist("list/listCache-line-of-%d" % min(len(st), 4))
            if sorted(line) != sorted(d["ver"] for d in st):
                ctx.fail("sorted_listing_complete", inp, io_["list_cache"], msorted, note="the line is not the stack's versions: %r" % (line,))
            for a, b in zip(line, line[1:]):
                if a in allv_ and b in allv_ and io_["order"][b][allv_.index(a)] not in "<=":
                    ctx.fail("sorted_listing_in_version_order", inp, io_["list_cache"], msorted, note="%r is printed before %r" % (a, b))
                    break
    ctx.hist("list/cli=" + ("err:" + io_["cli"]["err"] if isinstance(io_["cli"], dict) else "lines"))
    if io_["cli"] != mcli:
        ctx.disagree("eups_list_output", inp, io_["cli"], mcli)
    if isinstance(got, dict):
        ctx.hist("list/outcome=" + got["err"])
        if c["argkind"] in ("expr", "none", "glob") and c.get("pure", True):
            ctx.fail("list_no_crash", inp, got, mo, note="listing raised %s" % got["err"])
        return
    ctx.hist("list/outcome=%s" % ("some" if got else "nothing"))

    # ---- oracle (ii): from the case description and the implementation's own comparisons
    def satisfies(v):
        if c["argkind"] == "none":
            return True
        if c["argkind"] == "glob":
            return fnmatch.fnmatchcase(v, arg)
        ex = expected_match(c, {"terms": io_["terms"][v]})
        return None if ex is None else ex[1] == "match"

    decided = c["argkind"] in ("none", "glob") or (c["argkind"] == "expr" and c.get("pure"))
    sat = {v: satisfies(v) for v in allv} if decided else {}
    if decided and any(x is None for x in sat.values()):
        decided = False
    decl = {(i, d["ver"]): d["tags"] for i, st in enumerate(stacks) for d in st}

    def is_max_of_stack(i, v):
        col = io_["order"][v]
        return all(col[allv.index(d["ver"])] in "<=" for d in stacks[i])

    for i, v in got:
        if (i, v) not in decl:
            ctx.fail("list_declared", inp, got, mo, note="%r is not declared in stack %d" % (v, i))
    if decided:
        wanted = [t for t in tags if t != "latest"]
        carried = [(i, v) for (i, v), ts in decl.items() if set(ts) & set(wanted)]
        if tags and c["argkind"] == "expr":
            if any(not sat[v] for _, v in carried):
                ctx.hist("list/tagged-version-fails-expression")
            if any(sat[v] for _, v in carried):
                ctx.hist("list/tagged-version-satisfies-expression")
            if "latest" in tags and any(st and not any(sat[d["ver"]] and is_max_of_stack(i, d["ver"]) for d in st)
                                        for i, st in enumerate(stacks)):
                ctx.hist("list/latest-of-a-stack-fails-expression")
        # THE clause: every product returned satisfies the request
        for i, v in got:
            if (i, v) in decl and not sat[v]:
                ctx.fail("list_satisfies_request", inp, got, mo,
                         note="%r (stack %d) is listed but %s" % (v, i, "compares %s with the terms" % io_["terms"][v]
                                                                   if c["argkind"] == "expr" else "does not match the pattern"))
                break
        if isinstance(io_["cli"], list):
            for v, _ts in io_["cli"]:
                if v in sat and not sat[v]:
                    ctx.fail("list_satisfies_request", inp, io_["cli"], mo, note="`eups list` prints %r, which does not satisfy the request" % v)
                    break
        gotv = [v for _, v in got]
        if len(set(gotv)) != len(gotv):
            ctx.fail("list_each_version_once", inp, got, mo, note="a version is listed twice")
        if not tags:
            missing = [v for v in allv if sat[v] and v not in gotv]
            if missing:
                ctx.fail("list_complete", inp, got, mo, note="%r satisfy the request and are not listed" % missing[:3])
            # within a stack the versions come in the order of the comparator
            for (i, a), (j, b) in zip(got, got[1:]):
                if i == j and io_["order"][b][allv.index(a)] not in "<=":
                    ctx.fail("list_in_version_order", inp, got, mo, note="%r is listed before %r" % (a, b))
                    break
        else:
            for i, v in got:
                if (i, v) in decl and not (set(decl[(i, v)]) & set(wanted)) and not ("latest" in tags and is_max_of_stack(i, v)):
                    ctx.fail("list_carries_a_tag", inp, got, mo, note="%r (stack %d) carries %r, asked for %r" % (v, i, decl[(i, v)], tags))
                    break
            missing = [v for (i, v) in carried if sat[v] and v not in gotv]
            if "latest" in tags:
                missing += [d["ver"] for i, st in enumerate(stacks) for d in st
                            if sat[d["ver"]] and is_max_of_stack(i, d["ver"]) and d["ver"] not in gotv
                            and not any(e_["ver"] != d["ver"] and is_max_of_stack(i, e_["ver"]) for e_ in st)]
            if missing:
                ctx.fail("list_tagged_complete", inp, got, mo, note="%r carry a requested tag, satisfy the request and are not listed" % missing[:3])


def eval_list_entries(ctx, c, inp, io_, ans):
    """findProduct(name, arg) and findProductFromVRO(name, version=arg, vro=[version, versionExpr]) on a listing case."""
    stacks, arg = c["stacks"], c["version"]
    if not arg:
        return
    allv = list(dict.fromkeys(d["ver"] for st in stacks for d in st))
    decl = {(i, d["ver"]): d["tags"] for i, st in enumerate(stacks) for d in st}
    pure = c["argkind"] == "expr" and c.get("pure")
    sat = {}
    if pure:
        for v in allv:
            ex = expected_match(c, {"terms": io_["terms"][v]})
            sat[v] = None if ex is None else ex[1] == "match"
        if any(x is None for x in sat.values()):
            pure = False
    both = {"find": io_["find"], "entry": io_["entry"]}
    mboth = {"find": ans["find"], "entry": ans["entry"]}

    def later_than(v, among):
        col = io_["order"][v]
        return [w for w in among if col[allv.index(w)] == ">"]

    # ---- findProduct(name, expr)
    if c["argkind"] == "expr":
        got = io_["find"]
        ctx.hist("find/outcome=" + ("err" if isinstance(got, dict) else "none" if got is None else "some"))
        if got != ans["find"]:
            ctx.disagree("findProduct(expr)", inp, both, mboth)
        if pure and not isinstance(got, dict):
            # a version string counts once, for the first stack (path order) that declares it
            matching = [(i, v) for (i, v) in decl if sat[v] and not any((j, v) in decl for j in range(i))]
            if (got is None) != (not matching):
                ctx.fail("find_by_expr_exists", inp, both, mboth, note="findProduct = %r, matching %r" % (got, matching[:4]))
            elif got is not None:
                got = tuple(got)
                if got not in decl:
                    ctx.fail("find_by_expr_declared", inp, both, mboth, note="%r is not declared there" % (got,))
                elif not sat[got[1]]:
                    ctx.fail("find_by_expr_satisfies_request", inp, both, mboth,
                             note="%r compares %s with the terms" % (got[1], io_["terms"][got[1]]))
                else:
                    pref = [t for t in io_["preferred"] if t in LIST_TAGS or t == "latest"]
                    first = next((t for t in pref if t == "latest" or any(t in decl[m] for m in matching)), None)
                    ctx.hist("find/decided-by=%s" % first)
                    if first == "latest":
                        bad = later_than(got[1], [v for _, v in matching])
                        if bad:
                            ctx.fail("find_by_expr_is_max", inp, both, mboth, note="no matching version carries a preferred tag; %r is later than %r" % (bad[:3], got[1]))
                    elif first is not None and first not in decl[got]:
                        ctx.fail("find_by_expr_prefers_tag", inp, both, mboth, note="a matching version carries %r; %r does not" % (first, got))
    # ---- the way `setup prod arg` resolves its argument
    got = io_["entry"]
    kind = "err" if isinstance(got, dict) else ("none" if got[0] is None else str(got[1]))
    ctx.hist("entry/%s/%s" % (c["argkind"], kind))
    if got != ans["entry"]:
        ctx.disagree("findProductFromVRO(version,versionExpr)", inp, both, mboth)
    if isinstance(got, dict):
        if c["argkind"] != "bad" and c.get("pure", True):
            ctx.fail("entry_no_crash", inp, both, mboth, note="raised %s" % got["err"])
        return
    if c["argkind"] == "bad":
        ctx.fail("entry_refuses_single_equals", inp, both, mboth, note="a single = was accepted")
        return
    if pure:
        matching = [v for v in allv if sat[v]]
        if (got[0] is None) != (not matching):
            ctx.fail("entry_exists", inp, both, mboth, note="resolved to %r, matching %r" % (got[0], matching[:4]))
        elif got[0] is not None:
            r = tuple(got[0])
            if r not in decl:
                ctx.fail("entry_declared", inp, both, mboth, note="%r is not declared there" % (r,))
            elif not sat[r[1]]:
                ctx.fail("entry_satisfies_request", inp, both, mboth, note="%r compares %s with the terms" % (r[1], io_["terms"][r[1]]))
            else:
                bad = later_than(r[1], matching)
                if bad:
                    ctx.fail("entry_is_latest_of_matches", inp, both, mboth, note="%r satisfy the request and are later than %r" % (bad[:3], r[1]))
    elif c["argkind"] == "glob" and not any(ch in arg for ch in "*?[] \t|&"):
        # a plain version name: exactly that string, from the first stack that declares it
        where = [i for i, st in enumerate(stacks) if any(d["ver"] == arg for d in st)]
        want = [[where[0], arg], "explicit"] if where else [None, None]
        if got != want:
            ctx.fail("entry_exact_version", inp, both, mboth, note="expected %r" % (want,))


def gen_lists(ctx, pool, n):
    """Listing requests: stacks with tagged versions, a version argument (expression / shell pattern / none / refused), tags."""
    rng = ctx.rng
    bypre = {}
    for nme, d in pool:
        bypre.setdefault(d["prefix"], []).append((nme, d))
    groups = [g for g in bypre.values() if len(g) >= 12]
    odd = ["w9", "foo", "(", "="]
    cases = []
    for _ in range(n):
        grp = rng.choice(groups)
        base = rng.sample(grp, min(len(grp), 8))
        d0 = dict(rng.choice(base)[1])
        for nums in (["9"], ["10"], ["2", "0"], ["1", "9"], ["1", "10"]):
            if rng.random() < 0.4:
                e = dict(d0, nums=nums, seps=[rng.choice("._")] * (len(nums) - 1), pre=rng.choice([None, None, "rc2"]), post=None)
                base.append((L.render(e), e))
        ties = rng.random() < 0.15
        stacks = []
        for _s in range(rng.choice([1, 1, 2, 2, 3])):
            st, keys = [], set()
            for nme, d in rng.sample(base, min(len(base), rng.choice([0, 1, 2, 3, 4, 5]))):
                k = spelling_key(d)
                if (ties or k not in keys) and nme not in [x["ver"] for x in st]:
                    keys.add(k)
                    st.append({"ver": nme, "tags": []})
            for t in LIST_TAGS:
                if st and rng.random() < 0.65:
                    rng.choice(st)["tags"].append(t)
            stacks.append(st)
        names = [nme for nme, _ in base]
        r = rng.random()
        terms, pure = [], True
        if r < 0.6:
            arg, terms, pure = L.random_expr(rng, names, odd)
            kind = "expr"
            if arg == "":
                kind = "none"
            elif not any(op in arg for op in ("<", ">", "==")):
                kind = "glob"          # no operator: the argument is a (literal) shell pattern
                if any(ch in arg for ch in "[]"):
                    continue
        elif r < 0.75:
            declared = [d["ver"] for st in stacks for d in st]
            v = rng.choice(declared) if (declared and rng.random() < 0.8) else rng.choice(names)
            arg = rng.choice([v, v, v, v[:max(1, len(v) // 2)] + "*", "*", "?" + v[1:], "*" + v[-1:], v + "?", v[:1] + "*" + v[-1:]])
            kind = "glob"
        elif r < 0.92:
            arg, kind = "", "none"
        else:
            arg, kind = rng.choice(["= " + rng.choice(names), " =  " + rng.choice(names)]), "bad"
        tags = rng.choice([[], [], ["current"], ["current"], ["latest"], ["beta"], ["current", "latest"], ["beta", "current"],
                           ["latest", "current"], ["latest", "beta", "current"]])
        cases.append({"kind": "list", "stacks": stacks, "version": arg, "argkind": kind, "tags": tags,
                      "terms": [list(t) for t in terms], "pure": pure})
    return cases


def spelling_key(d):
    """Two descriptions with the same key are equal in any order that reads numbers numerically."""
    def part(x):
        return None if not x else tuple(int(t) if t.isdigit() else t for t in __import__("re").findall(r"\d+|[A-Za-z]+|[._]", x.replace("_", ".")))
    return (d["prefix"], tuple(int(x) for x in d["nums"]), part(d["pre"]), part(d["post"]))


def gen_stacks(ctx, pool, n):
    rng = ctx.rng
    bypre = {}
    for nme, d in pool:
        bypre.setdefault(d["prefix"], []).append((nme, d))
    groups = [g for g in bypre.values() if len(g) >= 12]
    odd = ["w9", "foo", "1:2", "(", "=", "-1"]
    cases = []
    for _ in range(n):
        grp = rng.choice(groups)
        base = rng.sample(grp, min(len(grp), 10))
        if rng.random() < 0.5:
            # versions whose order as strings is not their order as versions: 9 / 10, a release and its pre-release,
            # a shorter name and a longer one
            d = dict(rng.choice(base)[1])
            for nums in (["9"], ["10"], ["9", "2"], ["10", "0"], ["2", "0"], ["1", "9"], ["1", "10"]):
                for pre in (None, "rc2"):
                    e = dict(d, nums=nums, seps=[rng.choice("._")] * (len(nums) - 1), pre=pre, post=None)
                    if rng.random() < 0.45:
                        base.append((L.render(e), e))
        if rng.random() < 0.6:        # respellings of the chosen versions: ties between stacks
            base += [(L.render(e), e) for _, d in base[:4] for e in L.neighbours(rng, d)[-2:]]
        ties = rng.random() < 0.2     # ties inside a stack as well: database branch only
        stacks = []
        for _s in range(rng.choice([1, 1, 2, 2, 3])):
            st, keys = [], set()
            for nme, d in rng.sample(base, min(len(base), rng.choice([0, 1, 2, 3, 4, 5]))):
                k = spelling_key(d)
                if (ties or k not in keys) and nme not in st:      # otherwise no two versions of a stack are equal in the order
                    keys.add(k)
                    st.append(nme)
            stacks.append(st)
        text, terms, pure = L.random_expr(rng, [nme for nme, _ in base], odd)
        minver = rng.choice([nme for nme, _ in base]) if rng.random() < 0.7 else ""
        cases.append({"kind": "stack", "stacks": stacks, "expr": text, "terms": [list(t) for t in terms], "pure": pure,
                      "minver": minver, "ties": ties})
    return cases


# ---- generators -------------------------------------------------------------------------------------------

SIZES = {   # name sets and case counts per tier; "search" is the budget of the hunt for a failing input after a correspondence break
    "quick":    dict(g1404=300,  wide=330,  arb_sets=45,  match=2500,  latest=600,  stacks=130,  legal=600,  enum=1500, lists=110, families=3, repos=80),
    "search":   dict(g1404=1404, wide=700,  arb_sets=150, match=10000, latest=2000, stacks=450,  legal=2000, enum=8000, lists=400, families=12, repos=300),
    "thorough": dict(g1404=1404, wide=1600, arb_sets=600, match=40000, latest=8000, stacks=1500, legal=8000, enum=None, lists=1000, families=None, repos=1500),
}


def conv_sets(ctx, sz):
    """(tag, names, descs) — the conventional name sets of this run."""
    g = L.grammar1404()
    keep = ctx.rng.sample(g, sz["g1404"]) if sz["g1404"] < len(g) else g
    yield ("g1404", [L.render(d) for d in keep], keep)
    wide, seen = [], set()
    target = sz["wide"]
    while len(wide) < target:
        d = L.random_conventional(ctx.rng)
        for e in [d] + (L.neighbours(ctx.rng, d) if ctx.rng.random() < 0.35 else []):
            s = L.render(e)
            if s not in seen and len(wide) < target:
                seen.add(s)
                wide.append(e)
    yield ("wide", [L.render(d) for d in wide], wide)


def gen_small(ctx, pool, n_match, n_latest):
    rng = ctx.rng
    odd = ["-1", "+2", "1.0-", "", "w9", "foo", "1:2", "a/b", "(", "1.0|2", "=", "===", "x-y-.a+1", "1.2m3", "rel-0-8-2"]
    cases = []
    byprefix = {}
    for nme, d in pool:
        byprefix.setdefault(d["prefix"], []).append(nme)
    groups = [g for g in byprefix.values() if len(g) >= 8]
    allnames = [nme for nme, _ in pool]
    for _ in range(n_match):
        grp = rng.choice(groups) if rng.random() < 0.8 else allnames
        v = rng.choice(grp) if rng.random() < 0.97 else rng.choice(odd[:4] + ["x-y-.aa1"])
        cand = grp if rng.random() < 0.9 else allnames
        # prefer right-hand sides close to v, so that ==, <=, >= are exercised on equal names too
        near = [x for x in cand if x.split("-")[0].split("+")[0] == v.split("-")[0].split("+")[0]] or cand
        names = near if rng.random() < 0.4 else cand
        text, terms, pure = L.random_expr(rng, names[:400], odd)
        cases.append({"kind": "match", "v": v, "expr": text, "terms": [list(t) for t in terms], "pure": pure})
    for _ in range(n_latest):
        grp = rng.choice(groups) if rng.random() < 0.6 else allnames
        k = rng.choice([0, 1, 2, 2, 3, 3, 4, 5, 6, 8])
        names = [rng.choice(grp) for _ in range(k)]
        if names and rng.random() < 0.3:
            names.append(rng.choice(names))
        cases.append({"kind": "latest", "names": names, "conventional": True})
    return cases


ENUM_TOKENS = [">=", "<", "==", "1.2", "1.10", "||", "or", "&&", "and", "(", "="]


def gen_enum_exprs(ctx, n):
    """Every sequence of 1-4 tokens of ENUM_TOKENS, joined by single blanks and joined by nothing, against the versions
    1.2 / 1.9 / 1.10: all the malformed requests of that size (dangling and doubled operators, missing operators, unknown
    tokens, words glued to versions).  n = how many of them (None: all, the thorough tier).  Correspondence only."""
    import itertools
    texts = []
    for k in (1, 2, 3, 4):
        for toks in itertools.product(ENUM_TOKENS, repeat=k):
            texts.append(" ".join(toks))
            if k > 1:
                texts.append("".join(toks))
    texts = list(dict.fromkeys(texts))
    if n is not None and n < len(texts):
        texts = ctx.rng.sample(texts, n)
    return [{"kind": "match", "v": v, "expr": t, "terms": [], "pure": False, "enum": True}
            for t in texts for v in (("1.2", "1.9", "1.10") if n is None else (ctx.rng.choice(["1.2", "1.9", "1.10"]),))]


def gen_legal(ctx, pool, n):
    """version arguments as `setup prod <arg>` / `setupRequired(prod <arg>)` receive them, with what they are by construction"""
    rng = ctx.rng
    names = [nme for nme, _ in pool] or ["1.0"]
    ws = ["", " ", "  ", "\t"]
    cases = []
    for _ in range(n):
        r = rng.random()
        v = rng.choice(names)
        if r < 0.45:
            k = rng.choice([1, 1, 2, 3])
            ops = [rng.choice(L.OPS + [None]) for _ in range(k)]
            terms = [(rng.choice(ws) + o + rng.choice(ws) if o else "") + rng.choice(names) for o in ops]
            text = rng.choice(ws) + rng.choice([" || ", "||", " or ", " && "]).join(terms) + rng.choice(ws)
            cases.append({"kind": "legal", "expr": text, "shape": "chain/explicit" if any(ops) else "chain/bare",
                          "want": "relational" if any(ops) else "plain"})
        elif r < 0.6:
            cases.append({"kind": "legal", "expr": v, "shape": "name", "want": "plain"})
        elif r < 0.8:
            text = rng.choice(ws) + "=" + rng.choice(ws[1:]) + v + rng.choice(["", " ", " || " + rng.choice(names)])
            cases.append({"kind": "legal", "expr": text, "shape": "single-equals", "want": "bad"})
        elif r < 0.9:
            text = rng.choice(ws) + "=" + rng.choice(ws[1:]) + v + " || " + rng.choice(L.OPS) + " " + rng.choice(names)
            cases.append({"kind": "legal", "expr": text, "shape": "single-equals-then-operator", "want": "relational"})
        else:
            text = rng.choice(["=" + v, "=", "= ", " =  ", "", " ", v + " = " + v, v + " =", "=\t" + v, "= =", "= = 1", "=" + v + " 2", "x= 1"])
            cases.append({"kind": "legal", "expr": text, "shape": "odd", "want": None})
    return cases


# ---- entry points ------------------------------------------------------------------------------------------

def corpus_cases():
    d = os.path.join(common.VERIF, "corpus", "C10")
    out = []
    if os.path.isdir(d):
        for f in sorted(os.listdir(d)):
            if f.endswith(".json"):
                with open(os.path.join(d, f)) as fh:
                    c = json.load(fh)
                c["_corpus"] = f
                out.append(c)
    return out


def run_case(ctx, c):
    if c["kind"] == "names":
        eval_names(ctx, c["names"], tag="corpus")
    else:
        eval_small(ctx, [c])


def arbitrary_set(ctx):
    names = list(dict.fromkeys(L.random_arbitrary(ctx.rng) for _ in range(32)))
    # a few conventional names among them: mixed comparisons
    names += [L.render(L.random_conventional(ctx.rng)) for _ in range(4)]
    eval_names(ctx, list(dict.fromkeys(names)), tag="arbitrary")


def boundary_sets(ctx, pool):
    """The boundary of the conventional class (docs/notes/g10.md, C10_boundary_witness): a component `letters* 9+ letter …`
    is compared as a string with everything and no digit string sorts above it, so the order stays transitive when such
    components are added; any other digit run before a letter closes a cycle.  Not a clause of the property: counted only."""
    import re as _re
    rng = ctx.rng
    base = [nme for nme, _ in rng.sample(pool, min(len(pool), 70))]
    nines, others = [], []
    for nme in base[:50]:
        parts = _re.split(r"([._])", nme.split("-")[0].split("+")[0])
        i = rng.randrange(0, len(parts), 2)
        lead = _re.match(r"[A-Za-z]*", parts[i]).group(0)
        tail = rng.choice("abz") + rng.choice(["", "1", "9", "x2"])
        nines.append("".join(parts[:i] + [lead + "9" * rng.choice([1, 1, 2]) + tail] + parts[i + 1:]))
        others.append("".join(parts[:i] + [lead + rng.choice(["0", "1", "8", "19", "90"]) + tail] + parts[i + 1:]))
    for tag, extra in (("boundary-nines", nines), ("boundary-other-digits", others)):
        names = list(dict.fromkeys(base + extra))
        isrt, _ = eval_names(ctx, names, tag=tag)
        ok = [i for i in range(len(names)) if isrt[i][i] == "="]
        ctx.hist("%s/intransitive-triples(first 50)" % tag, len(L.intransitive_triples(isrt, ok, limit=50)))
    if ctx.histogram.get("boundary-nines/intransitive-triples(first 50)"):
        ctx.note("the order is not transitive on conventional names + all-nines components: the characterisation in docs/notes/g10.md is wrong")


LIST_FLOORS = (("list/tagged-version-fails-expression", 3), ("list/tagged-version-satisfies-expression", 3),
               ("list/latest-of-a-stack-fails-expression", 1), ("list/tags=none", 3), ("list/tags=latest", 1),
               ("list/arg=glob", 3), ("list/arg=none", 3), ("list/arg=bad", 1), ("find/decided-by=current", 2),
               ("find/decided-by=latest", 2), ("entry/expr/versionExpr", 3), ("entry/glob/explicit", 1))
FLOORS = ("stack/branch=cache", "stack/branch=db", "stack/ties-inside-a-stack", "stack/string-order-differs-from-numeric-order",
          "stack/minver:some", "stack/minver:none", "stack/oracle:latest_of_matches", "stack/oracle:match_iff_relation",
          "arbitrary/strict:U", "arbitrary/sort:<", "arbitrary/sort:M", "match/outcome=match", "match/outcome=nomatch",
          "legal/outcome=relational", "legal/outcome=plain", "legal/outcome=bad",
          "match/text:word-or", "match/text:and", "match/text:no-blank-after-operator", "match/text:no-blank-around-||",
          "match/text:bare-term", "match/text:tab-or-double-blank", "match/text:and-after-or", "match/text:or-after-and",
          "match/oracle:match_iff_relation", "match/enumerated-token-sequence", "list/enumerated-family", "list/cli=lines",
          "list/cli=err:ProductNotFound", "list/listCache-line-of-4", "boundary-nines/sort:<", "wide/sort:=", "g1404/sort:<")


def run_sizes(ctx, sz):
    """One pass over every class of case with the budgets `sz`, then the distribution floors.  Returns the pool of
    conventional names.  The classes that need real stacks (the slowest, and the ones whose input classes were added
    last) come before the large name matrices, so that a loaded machine starves the matrices and not them."""
    pool = []
    for tag, names, descs in conv_sets(ctx, dict(sz, g1404=min(sz["g1404"], 120), wide=min(sz["wide"], 120))):
        if ctx.out_of_time():
            break
        eval_names(ctx, names, descs, tag=tag)        # a first, small slice: it also provides the pool for the other classes
        pool += list(zip(names, descs))
    if pool and not ctx.out_of_time():
        eval_chunks(ctx, gen_lists(ctx, pool, sz["lists"]), 60)
        if not ctx.out_of_time():
            eval_list_families(ctx, enum_list_families(ctx, sz["families"]))
        if not ctx.out_of_time():
            for k, floor in LIST_FLOORS:
                if ctx.histogram.get(k, 0) < floor:
                    raise common.InfraError("degenerate distribution: %d listing cases under %r (floor %d)" % (ctx.histogram.get(k, 0), k, floor))
    if pool and not ctx.out_of_time():
        eval_chunks(ctx, gen_stacks(ctx, pool, sz["stacks"]), 80)
    if pool and not ctx.out_of_time():
        eval_chunks(ctx, gen_repos(ctx, pool, sz["repos"]), 80)
        if not ctx.out_of_time():
            for k, floor in (("repos/a-later-repository-has-the-latest", 5), ("repos/first-repository-has-the-latest", 5)):
                if ctx.histogram.get(k, 0) < floor:
                    raise common.InfraError("degenerate distribution: %d repository cases under %r (floor %d)" % (ctx.histogram.get(k, 0), k, floor))
    if pool and not ctx.out_of_time():
        eval_chunks(ctx, gen_small(ctx, pool, sz["match"], sz["latest"]) + gen_legal(ctx, pool, sz["legal"])
                    + gen_enum_exprs(ctx, sz["enum"]), 6000)
    # arbitrary strings over the well-formed alphabet, in sets (all ordered pairs of each set)
    for _ in range(sz["arb_sets"]):
        if ctx.out_of_time():
            break
        arbitrary_set(ctx)
    if pool and not ctx.out_of_time():
        boundary_sets(ctx, pool)
    for tag, names, descs in conv_sets(ctx, sz):
        if ctx.out_of_time():
            break
        eval_names(ctx, names, descs, tag=tag)
        pool += list(zip(names, descs))
    h = ctx.histogram
    if not ctx.out_of_time():
        for k in FLOORS:
            if not h.get(k):
                raise common.InfraError("degenerate distribution: nothing counted under %r" % k)
        if h.get("match/outcome=match", 0) < 0.1 * h.get("match/terms=1", 1):
            raise common.InfraError("degenerate distribution: hardly any expression matches")
    return pool


def run_enlarged(ctx, sz, pool):
    """The thorough tier's budget (also used inside the quick tier's time limit when a mirrored function changed, and by
    the search after a correspondence break): every class gets a piece in turn, so that none is starved when time runs out."""
    def lists():
        cases = gen_lists(ctx, pool, sz["lists"])
        fams = enum_list_families(ctx, sz["families"])
        ctx.rng.shuffle(fams)
        for i in range(0, max(len(cases), 1), 60):
            eval_small(ctx, cases[i:i + 60])
            k = i // 60
            eval_list_families(ctx, fams[k * 4:(k + 1) * 4])
            yield
        rest = fams[(max(len(cases), 1) + 59) // 60 * 4:]
        for i in range(0, len(rest), 8):
            eval_list_families(ctx, rest[i:i + 8])
            yield

    def stacks():
        cases = gen_stacks(ctx, pool, sz["stacks"])
        for i in range(0, len(cases), 80):
            eval_small(ctx, cases[i:i + 80])
            yield

    def repos():
        cases = gen_repos(ctx, pool, sz["repos"])
        for i in range(0, len(cases), 100):
            eval_small(ctx, cases[i:i + 100])
            yield

    def small():
        cases = gen_small(ctx, pool, sz["match"], sz["latest"]) + gen_legal(ctx, pool, sz["legal"]) + gen_enum_exprs(ctx, sz["enum"])
        ctx.rng.shuffle(cases)
        for i in range(0, len(cases), 6000):
            eval_small(ctx, cases[i:i + 6000])
            yield

    def arbitrary():
        for k in range(sz["arb_sets"]):
            arbitrary_set(ctx)
            if k % 25 == 24:
                yield

    def matrices():
        for tag, names, descs in conv_sets(ctx, dict(sz, g1404=0)):      # the wide grammar first …
            if tag != "g1404":
                eval_names(ctx, names, descs, tag=tag)
                yield
        for tag, names, descs in conv_sets(ctx, dict(sz, wide=0)):       # … the whole 1,404 grammar (all pairs, every triple) last
            if tag == "g1404":
                eval_names(ctx, names, descs, tag=tag)
                yield

    its = [lists(), stacks(), repos(), small(), arbitrary(), matrices()]
    while its and not ctx.out_of_time():
        for it in list(its):
            if ctx.out_of_time():
                break
            try:
                next(it)
            except StopIteration:
                its.remove(it)
    if its:
        ctx.note("time limit reached in the enlarged budget: %d of 6 case classes not exhausted" % len(its))


def run(ctx, sz=None):
    """Corpus; then the ORDINARY quick portion, completely and with its floors; only then — thorough tier, or quick tier with
    a stale fingerprint (ctx.escalated: somebody edited mirrored code, which is exactly when the new input classes
    matter), or the search after a correspondence break (sz given) — the enlarged budget, class by class in turn."""
    cc = corpus_cases()
    ctx.hist("corpus", len(cc))
    for c in cc:
        run_case(ctx, c)
    pool = run_sizes(ctx, SIZES["quick"])
    big = sz or (SIZES["thorough"] if (ctx.tier == "thorough" or ctx.escalated) else None)
    if big is not None and pool and not ctx.out_of_time():
        run_enlarged(ctx, big, pool)
    if ctx.evaluations and ctx.distinct_nontrivial < ctx.evaluations * 0.3:
        raise common.InfraError("degenerate distribution: %d non-trivial of %d" % (ctx.distinct_nontrivial, ctx.evaluations))


def names_of(inp):
    if inp.get("kind") == "names":
        return list(inp["names"])
    if inp.get("kind") == "match":
        return [inp["v"]] + [t[1] for t in inp["terms"]]
    if inp.get("kind") in ("latest",):
        return list(inp["names"])
    if inp.get("kind") == "stack":
        return [v for st in inp["stacks"] for v in st] + [t[1] for t in inp["terms"]]
    if inp.get("kind") == "repos":
        return [v for st in inp["repos"] for v in st]
    if inp.get("kind") == "list":
        return [d["ver"] for st in inp["stacks"] for d in st] + [t[1] for t in inp["terms"]]
    return []


def search(ctx):
    """After a correspondence break with no failing input: first the neighbourhood of the disagreeing
    inputs (their names, all one-character edits of them, all ordered pairs and every triple of the
    conventional ones), then a fresh random budget four times the quick one with the whole 1,404 grammar."""
    seeds = []
    for dg in ctx.disagreements[:40]:
        for x in names_of(dg["input"]):
            if x not in seeds and len(x) <= 40:
                seeds.append(x)
    neigh = list(seeds[:40])
    for x in seeds[:12]:
        for i in range(len(x) + 1):
            for ch in "019a._+-":
                neigh.append(x[:i] + ch + x[i:])
                if i < len(x):
                    neigh.append(x[:i] + ch + x[i + 1:])
            if i < len(x):
                neigh.append(x[:i] + x[i + 1:])
    neigh = [x for x in dict.fromkeys(neigh) if all(c.isalnum() or c in "._+-" for c in x)]
    ctx.rng.shuffle(neigh)
    neigh = list(dict.fromkeys(seeds[:40] + neigh[:700]))
    if neigh:
        ctx.hist("search/neighbourhood-names", len(neigh))
        eval_names(ctx, neigh, tag="search")
    for dg in ctx.disagreements[:40]:
        inp = dg["input"]
        if inp.get("kind") in ("match", "stack", "latest") and not ctx.out_of_time():
            # the same request against every neighbour of its version / the same versions with every sub-chain
            variants = []
            if inp["kind"] == "match":
                for v in neigh[:60]:
                    variants.append(dict(inp, v=v))
                for k in range(len(inp["terms"])):
                    t = inp["terms"][k]
                    variants.append(dict(inp, expr="%s %s" % (t[0], t[1]), terms=[t], pure=True))
            eval_small(ctx, variants)
    if not ctx.failures and not ctx.out_of_time():
        sz = dict(SIZES["search"])
        kinds = {dg["input"].get("kind") for dg in ctx.disagreements}
        if "names" not in kinds:        # the comparator itself agrees: spend the budget on expressions and stacks
            sz.update(g1404=SIZES["quick"]["g1404"], wide=SIZES["quick"]["wide"], arb_sets=SIZES["quick"]["arb_sets"])
        elif ctx.time_left() < 120:     # a loaded machine: the whole 1,404 grammar alone would take what is left
            sz.update(g1404=500)
        run(ctx, sz)


def replay(ctx, rp):
    common.import_eups()
    c = rp["input"]
    if c["kind"] == "names":
        names = c["names"]
        isrt, istc = impl_matrix(names)
        msrt, mstc, _, _ = model_matrix(ctx, names)
        descs = [L.parse_conventional(x) for x in names]
        fails = [{"clause": cl, "names": [names[i] for i in idx], "detail": note}
                 for cl, idx, note in oracle_matrix(names, descs, isrt, istc)]
        io_, mo = {"sort": isrt, "strict": istc}, {"sort": msrt, "strict": mstc}
        return {"input": c, "impl_output": io_, "model_output": mo, "agree": io_ == mo, "fails": fails}
    sub_ctx = common.Ctx(ctx.pid, ctx.tier, ctx.seed, 60)
    sub_ctx.lean = ctx.lean
    eval_small(sub_ctx, [c])
    fails = [{"clause": f["clause"], "detail": f["note"]} for f in sub_ctx.failures]
    dis = sub_ctx.disagreements
    io_ = (dis[0]["impl_output"] if dis else (sub_ctx.failures[0]["impl_output"] if sub_ctx.failures else None))
    mo = (dis[0]["model_output"] if dis else (sub_ctx.failures[0]["model_output"] if sub_ctx.failures else None))
    if io_ is None and c["kind"] == "repos":
        io_ = mo = impl_small_forked([c], 1)[0]["latest"]
    if io_ is None and c["kind"] == "list":
        io_ = mo = impl_small_forked([c], 1)[0]["products"]
    if io_ is None:
        out = impl_small_forked([c], 1)[0]
        io_ = mo = out.get("r", {k: out[k] for k in ("idx", "err", "cache", "db") if k in out}) if "r" in out or "idx" in out or "err" in out else \
            {k: {x: v[x] for x in ("latest", "latest_min", "matches", "preferred")} for k, v in out.items()}
    return {"input": c, "impl_output": io_, "model_output": mo, "agree": not dis, "fails": fails}
