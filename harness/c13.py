"""C13 — dependency listings are complete and ordered; `uses` is their inverse.

Implementation: `Eups.getDependentProducts` (every declared product as root, topological x checkCycles),
`Distrib._createDeps` (the installation order derived from the topological listing, every product as root),
`Eups.uses` (every product, with and without version, and unresolvable names), on Eups instances configured
the way `eups list --dependencies` / `eups uses` configure them; a sample of the same queries is also run
through the real command line, one process per command.  `utils.topologicalSort` and
`utils.stronglyConnectedComponents` are additionally run on random integer graphs.
Model: lean/EupsModel/Model/Deps.lean + Topo.lean through the driver handler "c13".
Oracle (ii), model-free: reachability, strongly connected components and edge order computed here from the
generated graph description; `uses` as the inverse of reachability."""
import json
import os

from . import common
from . import lib_deps as L
from .common import parallel_map

RULE = ("cases = (declared graph, root, topological, checkCycles) listings, (declared graph, root) installation orders "
        "of Distrib._createDeps, (declared graph, products set up, root, mode) `--setup` listings, (declared graph, uses target with or "
        "without version) queries, and integer graphs given to topologicalSort/stronglyConnectedComponents; graphs "
        "are generated from shapes (chain, diamond, shared sub-tree, random DAG, cyclic, name-cyclic across versions) "
        "with optional edges, explicit versions of declared and undeclared versions, two versions of one product, "
        "versions that are string prefixes of one another (1.2 / 1.2.11 / 1.20, 1 / 10 / 1.0, 2.0 / 2.0+1 / 2.0-rc1) each with a user "
        "of its own and queried one by one together with undeclared beginnings and continuations, "
        "names without a current version, unresolvable names, -j, --external and unsetupRequired lines, products declared without a "
        "table file or with a table file missing on disk, plus an exhaustive family "
        "(4 products, every subset of 3 candidate lines per table: 4096 graphs; all of them in the thorough tier, a "
        "seed-dependent slice of 30 otherwise); a listing is "
        "non-trivial when the root has at least one dependency, a uses query when it has at least one user, "
        "an integer graph when it has an edge; distinct = distinct (graph, query) digests")
TRUSTED = ["utils.stronglyConnectedComponents (Tarjan) is modelled by its specification (mutual-reachability classes), "
           "not as an algorithm; it is differentially tested against the specification on this run's graphs",
           "resolution of a dependency line is the simple rule (explicit version exact, otherwise the current tag) over "
           "one stack and one flavor; the full VRO is C03's model",
           "CPython list.sort stability, dict insertion order, str comparison by code point"]
ASSUMPTIONS = ["table files contain only setupRequired/setupOptional/unsetupRequired lines (no type/flavor blocks), "
               "no default (implicit) product is configured; no stack has both unsetup lines and a missing table file",
               "versions match [\\w.+-]+ and no version is literally 'None'; product names contain no ':'",
               "dependency chains are shorter than the Python recursion limit"]

MODES = [[False, False], [True, False], [True, True], [False, True]]


# ---- generator ---------------------------------------------------------------------------------------

PREFIX_FAMILIES = [["1.2", "1.2.11", "1.20"], ["1", "10", "1.0"], ["2.0", "2.0+1", "2.0-rc1"], ["3", "3.1", "3.10"]]


def gen_graph(rng, wide=False):
    shape = rng.choice(["chain", "diamond", "shared", "dag", "dag", "dag2", "cyclic", "cyclic", "namecycle", "tiny"])
    n = rng.randint(2, 4) if shape == "tiny" else rng.randint(4, 8 if wide else 7)
    r = rng.random()
    vpool = ["1", "2", "1.0"]
    if r < 0.45:
        names = ["p%d" % i for i in range(n)]
    elif r < 0.88:
        names = list("abcdefgh")[:n]
    else:       # names and versions whose printed forms collide or are regular-expression syntax (D34-D36)
        names = rng.sample(["a", "a-1", "a.b", "axb", "c++", "lib_x", "a-1-2", "cxx"], min(n, 8))
        vpool = ["1", "2", "1-2", "2-1", "1.0+3"]
    two = {"dag2": 0.7, "namecycle": 0.7}.get(shape, 0.3)          # share of names with two versions
    p_unres = 0.12 if rng.random() < 0.5 else 0.0
    p_uns = rng.choice([0.15, 0.35]) if rng.random() < 0.2 else 0.0
    p_j = rng.choice([0.15, 0.3]) if rng.random() < 0.3 else 0.0
    p_missing = 0.25 if (p_uns == 0.0 and rng.random() < 0.1) else 0.0
    p_skip = 0.2 if rng.random() < 0.15 else 0.0          # table lines with --external
    p_expl = rng.choice([0.0, 0.3, 0.6])
    versions = {}
    for m in names:
        versions[m] = rng.sample(vpool[:2] if len(vpool) == 3 else vpool, 2) if rng.random() < two else [rng.choice(vpool)]
    # versions that are string prefixes of one another (a version query must match the whole version, not its beginning)
    prefixed = []
    if rng.random() < 0.4:
        for m in rng.sample(names, min(len(names), rng.choice([1, 1, 2]))):
            fam = rng.choice(PREFIX_FAMILIES)
            versions[m] = rng.sample(fam, rng.choice([2, 3, 3]))
            prefixed.append(m)
    prods = []
    for i, m in enumerate(names):
        r = rng.random()
        cur = None if r < 0.1 else rng.choice(versions[m])
        for v in versions[m]:
            deps = []
            for jx, t in enumerate(names):
                if shape == "chain":
                    p = 0.9 if jx == i + 1 else 0.03
                elif shape == "diamond":
                    p = 0.8 if (i == 0 and jx in (1, 2)) or (i in (1, 2) and jx == 3) else (0.15 if jx > max(i, 3) else 0.0)
                elif shape == "shared":
                    p = 0.7 if jx == n - 1 and i < n - 1 else (0.3 if jx > i else 0.0)
                elif shape in ("dag", "dag2", "tiny"):
                    p = 0.4 if jx > i else 0.0
                elif shape == "cyclic":
                    p = 0.4 if jx > i else (0.12 if jx < i else 0.04)
                else:  # namecycle: forward edges and edges back to *other versions* of earlier names
                    p = 0.4 if jx > i else (0.15 if jx < i else 0.05)
                if rng.random() < p:
                    if rng.random() < p_expl:
                        ver = rng.choice(versions[t]) if rng.random() < 0.75 else rng.choice(["1", "2", "9"])
                    else:
                        ver = None
                    deps.append({"k": "opt" if rng.random() < 0.25 else "req", "n": t, "v": ver, "j": rng.random() < p_j})
                    if p_skip and rng.random() < p_skip:
                        deps[-1]["external"] = True
            if rng.random() < p_unres:
                deps.insert(rng.randint(0, len(deps)), {"k": rng.choice(["req", "opt"]), "n": "zz", "v": rng.choice([None, None, "1"]), "j": False})
            if deps and rng.random() < p_uns:
                deps.insert(rng.randint(1, len(deps)), {"k": "unreq", "n": rng.choice(names), "v": None, "j": rng.random() < 0.3})
            prods.append({"name": m, "version": v, "deps": deps, "tags": ["current"] if v == cur else []})
            if not deps and rng.random() < 0.3:
                prods[-1]["notable"] = True        # declared without a table file
            elif p_missing and rng.random() < p_missing:
                prods[-1]["missing"] = True        # declared with a table file that is not there
    for m in prefixed:
        # each of the versions gets a user of its own (an explicit-version line in the table of a distinct product)
        others = [q for q in prods if q["name"] != m]
        rng.shuffle(others)
        for v, q in zip(versions[m], others):
            q["deps"].append({"k": rng.choice(["req", "req", "opt"]), "n": m, "v": v, "j": False})
            q.pop("notable", None)
    if rng.random() < 0.3 and len(names) >= 3:
        # a product reached through a -j line and through an ordinary path, in both orders, the -j target having
        # dependencies of its own: it must be opened by the ordinary visit whichever comes first
        byname = {}
        for p in prods:
            if "current" in p["tags"]:
                byname.setdefault(p["name"], p)
        cand = [m for m in names if m in byname]
        if len(cand) >= 3:
            x, y, z = rng.sample(cand, 3)
            top = {"name": "jtop", "version": "1", "tags": ["current"], "deps": []}
            jline = {"k": "req", "n": x, "v": None, "j": True}
            oline = {"k": rng.choice(["req", "opt"]), "n": y, "v": None, "j": False}
            top["deps"] = [jline, oline] if rng.random() < 0.5 else [oline, jline]
            if not any(d["n"] == x and not d["j"] and d["k"] in ("req", "opt") for d in byname[y]["deps"]):
                byname[y]["deps"].append({"k": "req", "n": x, "v": None, "j": False})
            if not any(d["k"] in ("req", "opt") for d in byname[x]["deps"]):
                byname[x]["deps"].append({"k": "req", "n": z, "v": None, "j": False})
            prods.append(top)
            for q in (byname[x], byname[y]):
                if q["deps"]:
                    q.pop("notable", None)
            if p_uns:
                for q in prods:
                    q.pop("missing", None)
            shape += "+j"
    if rng.random() < 0.3:
        # a dependency that does not resolve (or whose table cannot be read) and carries a tag / VRO of its own, followed
        # by an unversioned dependency whose tagged and current versions differ and have different dependencies: the VRO
        # pushed for the first line must be gone when the second is resolved — and when another product is listed later
        ghost_declared = rng.random() < 0.4 and not any(d["k"] in ("unreq", "unopt") for p in prods for d in p["deps"])
        gline = {"k": rng.choice(["opt", "opt", "req"]), "n": "tghost", "v": None, "j": rng.random() < 0.2}
        if ghost_declared:
            gline["t"] = "beta"
            gline["v"] = "1"            # (the placeholder made when the table cannot be read carries the version written)
            prods.append({"name": "tghost", "version": "1", "tags": ["current", "beta"], "deps": [], "missing": True})
        elif rng.random() < 0.3:
            gline["vro"] = "beta"
        else:
            gline["t"] = "beta"
        prods.append({"name": "ta", "version": "1", "tags": ["current"], "deps": []})
        prods.append({"name": "tb", "version": "1", "tags": ["current"], "deps": []})
        prods.append({"name": "tx", "version": "1", "tags": ["current"], "deps": [{"k": "req", "n": "ta", "v": None, "j": False}]})
        prods.append({"name": "tx", "version": "2", "tags": ["beta"], "deps": [{"k": "req", "n": "tb", "v": None, "j": False}]})
        before = [{"k": "req", "n": rng.choice(["ta", "tb"]), "v": None, "j": False}] if rng.random() < 0.3 else []
        prods.append({"name": "ttop", "version": "1", "tags": ["current"],
                      "deps": before + [gline, {"k": rng.choice(["req", "opt"]), "n": "tx", "v": None, "j": False}]})
        prods.append({"name": "tu", "version": "1", "tags": ["current"], "deps": [{"k": "req", "n": "tx", "v": None, "j": False}]})
        shape += "+tag"
    if rng.random() < 0.25:
        # expandtable-style tables: `if (type == exact) {…} else {…}` whose branches list DIFFERENT dependencies; listed by
        # an Eups object in exact mode (evaluate_exact): the inexact re-walk of the topological modes must not disturb it
        jx = rng.random() < 0.5
        prods.append({"name": "ed", "version": "1", "tags": ["current"], "deps": []})
        prods.append({"name": "ee", "version": "1", "tags": ["current"], "deps": []})
        prods.append({"name": "eb", "version": "1", "tags": ["current"], "deps": [{"k": "req", "n": "ed", "v": None, "j": False}]})
        prods.append({"name": "ec", "version": "1", "tags": ["current"], "deps": [{"k": rng.choice(["req", "opt"]), "n": "ee", "v": None, "j": False}]})
        prods.append({"name": "etop", "version": "1", "tags": ["current"],
                      "deps": [{"k": "req", "n": "eb", "v": None, "j": False}],
                      "xdeps": [{"k": "req", "n": "ec", "v": "1", "j": jx}] + ([{"k": "req", "n": "ee", "v": "1", "j": True}] if jx or rng.random() < 0.5 else [])})
        prods.append({"name": "eu", "version": "1", "tags": ["current"],
                      "deps": [{"k": "req", "n": "etop", "v": None, "j": False}, {"k": "opt", "n": "ed", "v": None, "j": False}],
                      "xdeps": [{"k": "req", "n": "etop", "v": "1", "j": False}]})
        prods.append({"name": "ev", "version": "1", "tags": ["current"],
                      "deps": [{"k": "req", "n": "ec", "v": None, "j": False}],
                      "xdeps": [{"k": "req", "n": "eb", "v": "1", "j": False}]})
        shape += "+exact"
    rng.shuffle(prods)
    return {"products": prods, "shape": shape}


ENUM_LINES = {
    ("a", "1"): [("req", "b", None), ("req", "c", None), ("req", "c", "2")],
    ("b", "1"): [("req", "a", None), ("req", "c", None), ("opt", "c", "2")],
    ("c", "1"): [("req", "a", None), ("req", "b", None), ("req", "zz", None)],
    ("c", "2"): [("req", "a", None), ("opt", "b", None), ("req", "c", None)],
}


def enum_count(width=3):
    return (2 ** width) ** len(ENUM_LINES)


def enum_graph(i, width=3):
    """The i-th graph of the exhaustive family: products a 1, b 1, c 1 (all current) and c 2; the table of each
    is a subset of its first `width` candidate lines (ENUM_LINES).  Covers every combination of chain, diamond,
    cycle (a-b, a-c, b-c, through either version of c), two versions in one closure, same-name dependency,
    optional and unresolved lines over this alphabet."""
    prods = []
    for key in sorted(ENUM_LINES):
        mask = i % (2 ** width)
        i //= 2 ** width
        deps = [{"k": k, "n": n, "v": v, "j": False} for b, (k, n, v) in enumerate(ENUM_LINES[key][:width]) if mask >> b & 1]
        prods.append({"name": key[0], "version": key[1], "deps": deps, "tags": [] if key == ("c", "2") else ["current"]})
    return {"products": prods, "shape": "enum"}


def queries_of(graph):
    names = sorted({p["name"] for p in graph["products"]} | {d["n"] for p in graph["products"] for d in p["deps"]})
    vers = {}
    for p in graph["products"]:
        vers.setdefault(p["name"], set()).add(p["version"])
        for d in p["deps"]:
            if d["v"]:
                vers.setdefault(d["n"], set()).add(d["v"])
    out = []
    for n in names:
        out.append([n, None])
        mine = sorted(vers.get(n, ()))
        for v in mine:
            out.append([n, v])
        # versions declared nowhere that are a beginning of one that is (and one that continues a declared one)
        extra = []
        for v in mine:
            for k in range(1, len(v)):
                if v[:k] not in vers[n] and v[:k] not in extra:
                    extra.append(v[:k])
            if v + "0" not in vers[n] and v + "0" not in extra:
                extra.append(v + "0")
        for v in extra[:3]:
            out.append([n, v])
    return out


def roots_of(graph):
    return [[p["name"], p["version"]] for p in graph["products"]]


# ---- the graph as the harness reads it (oracle (ii); independent of the model) --------------------------

class Resolved:
    """Edges of the declared graph 'as resolved': an explicit version means that version (a placeholder node
    when it is not declared), no version means the current version (a placeholder `(name, None)` when there is none)."""

    def __init__(self, graph):
        self.decl = {(p["name"], p["version"]): p for p in graph["products"]}
        self.cur = {p["name"]: p["version"] for p in graph["products"] if "current" in p.get("tags", [])}
        self.succ = {}
        self.has_unsetup = {}
        self.unsetup_names = {}
        self.tagged = {(p["name"], t): p["version"] for p in graph["products"] for t in p.get("tags", [])}
        for key, p in self.decl.items():
            node = (key[0], key[1], True)
            out = []
            for d in p["deps"]:
                if d["k"] in ("unreq", "unopt") or d.get("external"):
                    continue            # --external lines denote nothing for a listing
                if d.get("t") or d.get("vro"):
                    # a line with a tag / VRO of its own: only above products without table lines (the pushed VRO is popped
                    # before anything else is resolved), and a --vro only on a name declared nowhere
                    if any(q["deps"] and not q.get("missing") for q in graph["products"] if q["name"] == d["n"]) or \
                            (d.get("vro") and any(q["name"] == d["n"] for q in graph["products"])):
                        raise common.InfraError("generator left the modelled class: tagged line above a product with dependencies")
                v = d["v"] if d["v"] else self.cur.get(d["n"])
                if d.get("t") and (d["n"], d["t"]) in self.tagged:
                    v = self.tagged[(d["n"], d["t"])]        # the tag is in front of the VRO: it outranks the version written
                t = (d["n"], v, True) if v is not None and (d["n"], v) in self.decl else (d["n"], d["v"], False)
                out.append((t, bool(d.get("j")), d["k"] == "opt"))
            self.succ[node] = out
            self.unsetup_names[node] = [d["n"] for d in p["deps"] if d["k"] in ("unreq", "unopt") and not d.get("external")]
            # tables the property says nothing about: with an unsetup line, or declared but missing on disk
            self.has_unsetup[node] = any(d["k"] in ("unreq", "unopt") for d in p["deps"]) or bool(p.get("missing"))

    def closure(self, root, ignore_j=False):
        """(listed nodes, expanded nodes): listed = targets of edges of expanded nodes; a node is expanded when it is
        the root or a declared product reached through an edge without -j (any edge when ignore_j)."""
        expanded, listed, todo = {root}, set(), [root]
        while todo:
            u = todo.pop()
            for t, j, _ in self.succ.get(u, []):
                listed.add(t)
                if t[2] and (ignore_j or not j) and t not in expanded:
                    expanded.add(t)
                    todo.append(t)
        return listed, expanded

    def reach(self, nodes, expanded):
        """reflexive-transitive reachability among `nodes` along the edges of the expanded nodes"""
        r = {}
        for a in nodes:
            seen, todo = {a}, [a]
            while todo:
                u = todo.pop()
                for t, _, _ in self.succ.get(u, []) if u in expanded else []:
                    if t not in seen:
                        seen.add(t)
                        todo.append(t)
            r[a] = seen
        return r


def oracle_listing(R, root, mode, out, stats=None):
    """Yields (clause, finding, detail) for the clauses of C13 the implementation's listing breaks."""
    rootn = (root[0], root[1], True)
    listed, expanded = R.closure(rootn)
    unsetup = any(R.has_unsetup.get(u) for u in expanded)
    topo, cc = mode
    nodes = listed | expanded
    reach = R.reach(nodes, expanded)
    comp = {a: frozenset(b for b in nodes if b in reach[a] and a in reach[b]) for a in nodes}
    cyclic = any(len(c) > 1 for c in comp.values())
    names = {}
    for a in nodes:
        names.setdefault(a[0], set()).add(a)
    twover = any(len(s) > 1 for s in names.values())
    if stats is not None:
        jt = {t for u in expanded for t, j, _ in R.succ.get(u, []) if j and t[2]}
        if any(t in expanded and R.succ.get(t) for t in jt):
            stats("closure:j_target_opened_elsewhere")
        if any(t not in expanded and R.succ.get(t) for t in jt):
            stats("closure:j_target_not_opened")
        # an unsetup line whose own listing comes back to it: where the re-entrance guard of D32's repair acts
        reent = False
        for u in R.closure(rootn, ignore_j=True)[1]:
            for nm in R.unsetup_names.get(u, ()):
                for t in R.succ:
                    if t[0] == nm and u in R.closure(t, ignore_j=True)[1]:
                        reent = True
        for flag, name in ((twover, "twoversions"), (cyclic, "cyclic"), (unsetup, "unsetup"), (reent, "unsetup_reentrant"), (any(not a[2] for a in nodes), "unresolved"),
                           (any(sum(1 for a in s if a[2]) > 1 for s in names.values()), "two_declared_versions")):
            if flag:
                stats("closure:" + name)
    if isinstance(out, str):
        if out == "Cycle":
            if not cc and not unsetup:
                yield ("cycle_only_when_asked", "D31" if twover else None, "RuntimeError without checkCycles")
            elif not cyclic and not unsetup:
                yield ("cycle_only_when_cyclic", "D31" if twover else None, "cycle reported on an acyclic closure")
        elif out == "Recursion":
            # D32 (repaired: re-entrance guard `_unsetupInProgress`): an unsetup line inside a dependency cycle started a fresh
            # listing from inside itself without end; whatever the tables say, a listing returns
            yield ("terminates", None, "RecursionError (D32, repaired, when a table reachable from the root has an unsetup line)")
        else:
            yield ("no_error", None, "listing raised %s" % out)
        return
    if unsetup:
        # the property does not say what an unsetup line means for the listing; it can only take entries away
        got = {(e[0], e[1], e[2]) for e in out}
        missing = any(R.decl.get((u[0], u[1]), {}).get("missing") for u in nodes if u[2])    # adds a placeholder entry
        if not missing and not got <= listed - {rootn}:
            yield ("listing_within_reach", None, "extra %s" % sorted(got - listed, key=repr))
        return
    if cc and cyclic:
        yield ("cycle_reported", "D31" if twover else None, "closure has a cycle, checkCycles returned a listing")
    got = [(e[0], e[1], e[2]) for e in out]
    want = listed - {rootn}
    if set(got) != want:
        yield ("listing_is_reach", None, "missing %s, extra %s" % (sorted(want - set(got), key=repr), sorted(set(got) - want, key=repr)))
    if topo or cc:
        if len(got) != len(set(got)):
            yield ("listed_once", None, "a product is listed twice")
        depth = {}
        for e in out:
            depth[(e[0], e[1], e[2])] = e[4]
        # required wins: a product is optional only if every line that lists it (in a table of the closure) is optional
        allopt = {}
        for u in expanded:
            for t, _, o in R.succ.get(u, []):
                allopt[t] = allopt.get(t, True) and o
        for e in out:
            k = (e[0], e[1], e[2])
            if k in allopt and e[3] != allopt[k]:
                yield ("required_wins", None, "%s listed optional=%s" % (k, e[3]))
                break
        for u in expanded:
            if u == rootn or u not in depth:
                continue
            for t, _, _ in R.succ.get(u, []):
                if t in depth and t != rootn and comp[t] != comp[u] and not depth[t] > depth[u]:
                    yield ("edge_order", "D31" if twover else None,
                           "%s (depth %s) depends on %s (depth %s)" % (u, depth[u], t, depth[t]))
                    return


def oracle_build(R, root, out):
    """The installation order: the root comes last, and no product comes before one of its dependencies from another
    component (products in two versions: D31)."""
    rootn = (root[0], root[1], True)
    listed, expanded = R.closure(rootn)
    if any(R.has_unsetup.get(u) for u in expanded):
        return
    nodes = listed | expanded
    names = {}
    for a in nodes:
        names.setdefault(a[0], set()).add(a)
    twover = any(len(s) > 1 for s in names.values())
    required_unresolved = any(not t[2] and not o for u in expanded for t, _, o in R.succ.get(u, []))
    if isinstance(out, str):
        if out == "NotFound" and required_unresolved:
            return
        yield ("build_no_error", "D31" if (twover and out == "NotFound") else None, "_createDeps raised %s" % out)
        return
    if out[-1][:2] != [root[0], root[1]]:
        yield ("build_root_last", None, "the product itself is not installed last")
    pos = {}
    for i, p in enumerate(out):
        pos.setdefault((p[0], p[1], True), i)
    reach = R.reach(nodes, expanded)
    want = {(t[0], t[1]) for t in listed if t[2]} | {(root[0], root[1])}
    if {(p[0], p[1]) for p in out} != want:
        yield ("build_is_closure", "D31" if twover else None, "installs %s, closure %s" % (sorted({(p[0], p[1]) for p in out}), sorted(want)))
        return
    for u in expanded:
        for t, _, _ in R.succ.get(u, []):
            if t[2] and t in pos and u in pos and not (t in reach and u in reach.get(t, ())) and not pos[t] < pos[u]:
                yield ("build_order", "D31" if twover else None, "%s is installed before its dependency %s" % (u, t))
                return


def expected_users(R, query, reach_cache):
    """{(user, user's version, version needed, optional)} for the query, from the generated graph alone; None when a
    table the property says nothing about (unsetup line, missing file) is involved"""
    n, v = query
    want = set()
    for key in R.decl:
        node = (key[0], key[1], True)
        if node not in reach_cache:
            listed, expanded = R.closure(node)
            allopt = {}
            for u in expanded:
                for t, _, o in R.succ.get(u, []):
                    allopt[t] = allopt.get(t, True) and o
            reach_cache[node] = (listed - {node}, any(R.has_unsetup.get(u) for u in expanded), allopt)
        listed, uns, allopt = reach_cache[node]
        if uns:
            return None
        for t in listed:
            if t[0] == n and (v is None or t[1] == v):
                want.add((key[0], key[1], t[1], allopt[t]))
    return want


def oracle_users(R, graph, query, out, reach_cache):
    if isinstance(out, str):
        yield ("uses_no_error", None, "uses raised %s" % out)
        return
    want = expected_users(R, query, reach_cache)
    if want is None:
        return
    got = [(u[0], u[1], u[2], u[3]) for u in out]
    if set(got) != want:
        yield ("uses_inverse", None, "missing %s, extra %s" % (sorted(want - set(got), key=repr), sorted(set(got) - want, key=repr)))
    elif len(got) != len(set(got)):
        yield ("uses_once", None, "a user is reported twice")


# ---- implementation ------------------------------------------------------------------------------------

def _listing(root, mode):
    ecmd = L.cli_eups("list", ["-D"] + (["--topological"] if mode[0] else []) + (["--checkCycles"] if mode[1] else []) + list(root))
    e = ecmd.createEups(ecmd.opts, versionName=root[1], quiet=1)
    plist = e.findProducts(root[0], root[1], None)
    plist.sort(key=lambda p: (p.name, p.version))
    return L.canon_listing(e.getDependentProducts(plist[0], False, topological=mode[0], checkCycles=mode[1]))


def _build(root):
    """`Distrib._createDeps`: the installation order the distribution machinery derives from the topological listing"""
    import io
    from eups.distrib.Distrib import Distrib
    ecmd = L.cli_eups("list", ["-D", "--topological"] + list(root))
    e = ecmd.createEups(ecmd.opts, versionName=root[1], quiet=1)
    m = Distrib(e, None, verbosity=0, log=io.StringIO())._createDeps(root[0], root[1])
    return [[p.product, p.version, bool(p.isOpt)] for p in m.getProducts()]


def build_err(ex):
    c = L.err_class(ex)
    return "Undetermined" if (c == "Other(EupsException)" and "Unable to determine dependencies" in str(ex)) else c


def run_impl(job):
    """One forked child per graph: every listing and every uses query through the API, on Eups instances
    configured as the command line configures them."""
    graph, roots, queries = job
    root = common.scratch("c13")
    devnull = os.open(os.devnull, os.O_WRONLY)
    os.dup2(devnull, 1)
    os.dup2(devnull, 2)
    try:
        L.install(root, graph)
        lists = []
        for r in roots:
            row = []
            for mode in MODES:
                try:
                    row.append(L.quietly(_listing, r, mode))
                except BaseException as ex:  # noqa
                    row.append(L.err_class(ex))
            lists.append(row)
        # the plain listing of every root once more, all by ONE Eups object, in order: what was listed before must not matter
        sweep = []
        try:
            ecmd = L.cli_eups("list", ["-D"] + list(roots[0]))
            e1 = ecmd.createEups(ecmd.opts, versionName=None, quiet=1)
        except BaseException as ex:  # noqa
            e1 = None
        for r in roots:
            try:
                sweep.append(L.quietly(lambda r: L.canon_listing(e1.getDependentProducts(e1.getProduct(r[0], r[1]), False,
                                                                                      topological=False, checkCycles=False)), r))
            except BaseException as ex:  # noqa
                sweep.append(L.err_class(ex))
        builds = []
        for r in roots:
            try:
                builds.append(L.quietly(_build, r))
            except BaseException as ex:  # noqa
                builds.append(build_err(ex))
        users, uses = None, None
        if queries:
            try:
                ecmd = L.cli_eups("uses", [queries[0][0]])
                e = ecmd.createEups()
                info = L.quietly(e.uses)
                uses = "ok"
            except BaseException as ex:  # noqa
                uses = L.err_class(ex)
            if uses == "ok":
                users = []
                for n, v in queries:
                    try:
                        users.append(L.canon_users(L.quietly(e.uses, n, v, 9999, usesInfo=info)))
                    except BaseException as ex:  # noqa
                        users.append(L.err_class(ex))
        return {"lists": lists, "builds": builds, "uses": uses, "users": users, "sweep": sweep}
    finally:
        common.rmtree(root)


def run_cli_sample(job):
    """The same query through the real command line, one process per command."""
    graph, kind, arg = job
    root = common.scratch("c13c")
    devnull = os.open(os.devnull, os.O_WRONLY)
    os.dup2(devnull, 1)
    os.dup2(devnull, 2)
    try:
        L.install(root, graph)
        if kind == "list":
            r, mode = arg
            res = L.run_cli(["list", "-D"] + (["--topological"] if mode[0] else []) + (["--checkCycles"] if mode[1] else []) + list(r))
            recs = [x for name, x in res["records"] if name == "getDependentProducts"]
        else:
            (n, v), show_opt, depth = arg
            res = L.run_cli(["uses"] + (["--optional"] if show_opt else []) + (["--depth", str(depth)] if depth else []) + [n] + ([v] if v else []))
            recs = [x for name, x in res["records"] if name == "uses" and x[1] != "UsesObject"]
        if recs:
            kind_, val = recs[-1]
        else:
            val = res["error"] or "rc=%s" % res["rc"]
        printed = None
        if kind == "uses" and not isinstance(val, str):
            # what `eups uses --optional` printed after the header: product, version[, version needed][Optional]
            printed = []
            for line in res["stdout"].splitlines()[1:]:
                line = line.rstrip()
                is_opt = line.endswith("Optional")
                parts = (line[:-len("Optional")] if is_opt else line).split()
                if len(parts) >= 2:
                    # user, its version, the version needed (a column only when the query names no version), marker
                    printed.append([parts[0], parts[1], parts[2] if len(parts) > 2 else None, is_opt])
        if kind == "list" and not isinstance(val, str):
            # what `eups list -D` printed: lines "<indent><name>   <version>"
            printed = []
            for line in res["stdout"].splitlines():
                parts = line.replace("|", " ").split()
                if len(parts) == 2:
                    printed.append(parts)
        return {"val": val, "printed": printed}
    finally:
        common.rmtree(root)


def _listing_setup(root, mode):
    """`eups list -D --setup [--topological] [--checkCycles] name`: the root is the set-up version of `name`"""
    ecmd = L.cli_eups("list", ["-D", "--setup"] + (["--topological"] if mode[0] else []) + (["--checkCycles"] if mode[1] else []) + [root[0]])
    e = ecmd.createEups(ecmd.opts, versionName=None, quiet=1)
    plist = e.getSetupProducts(root[0])
    plist.sort(key=lambda p: (p.name, p.version))
    return L.canon_listing(e.getDependentProducts(plist[0], True, topological=mode[0], checkCycles=mode[1]))


def run_impl_setup(job):
    """One forked child per (graph, set of set-up products): the `--setup` listings of every set-up product."""
    graph, setup = job
    root = common.scratch("c13s")
    devnull = os.open(os.devnull, os.O_WRONLY)
    os.dup2(devnull, 1)
    os.dup2(devnull, 2)
    try:
        s = L.install(root, graph)
        L.set_up_in_env(s, setup)
        lists = []
        for r in setup:
            row = []
            for mode in MODES:
                try:
                    row.append(L.quietly(_listing_setup, r, mode))
                except BaseException as ex:  # noqa
                    row.append(L.err_class(ex))
            lists.append(row)
        return {"lists": lists}
    finally:
        common.rmtree(root)


def in_child_setup(job):
    r = common.in_child(run_impl_setup, job)
    return r[1] if r[0] == "ok" else {"crash": r}


def gen_setup(rng, graph):
    """one declared version of some products with plain names, as `setup` would leave them in the environment"""
    byname = {}
    for p in graph["products"]:
        if p["name"].isalnum() and not p.get("missing"):
            byname.setdefault(p["name"], []).append(p["version"])
    names = sorted(byname)
    if len(names) < 2:
        return []
    chosen = rng.sample(names, rng.randint(2, min(len(names), 5)))
    return sorted([n, rng.choice(byname[n])] for n in chosen)


def oracle_setup_listing(R, setup, root, mode, out):
    """`--setup`: the listing names, for every product name the closure of the root holds (the root itself aside),
    the version of it that is set up, and nothing else."""
    rootn = (root[0], root[1], True)
    listed, expanded = R.closure(rootn)
    if any(R.has_unsetup.get(u) for u in expanded):
        return
    if isinstance(out, str):
        if out == "Cycle" and mode[1]:
            return                      # cycles: the clause of the plain listings
        yield ("setup_no_error", None, "listing raised %s" % out)
        return
    sv = {n: v for n, v in setup}
    want = {(t[0], sv[t[0]], True) for t in listed if t != rootn and t[0] in sv}
    got = [(e[0], e[1], e[2]) for e in out]
    if set(got) != want:
        yield ("setup_listing_exact", None, "missing %s, extra %s" % (sorted(want - set(got)), sorted(set(got) - want)))
    elif (mode[0] or mode[1]) and len(got) != len(set(got)):
        yield ("listed_once", None, "a product is listed twice")


def in_child_job(job):
    r = common.in_child(run_impl, job)
    return r[1] if r[0] == "ok" else {"crash": r}


# ---- exact mode: tables with an exact and an else branch, several listings by one object -----------------------

XVRO = "version versionExpr current"        # no `type:exact`: the stock VRO appends `exact` to the setup type at every resolution
XMODES = [[False, False], [True, False], [True, True]]


def _xeups(root):
    ecmd = L.cli_eups("list", ["-D", "-e", "--vro", XVRO] + list(root))
    return ecmd.createEups(ecmd.opts, versionName=root[1], quiet=1)


def run_impl_exact(job):
    """One child per graph.  `shared`: ONE Eups object in exact mode lists every root plainly, topologically, with
    checkCycles and plainly again, root after root; `fresh`: each of these listings by an object of its own; `uses -e`."""
    graph, roots, queries = job
    root = common.scratch("c13x")
    devnull = os.open(os.devnull, os.O_WRONLY)
    os.dup2(devnull, 1)
    os.dup2(devnull, 2)
    try:
        L.install(root, graph)

        def one(e, r, mode):
            try:
                return L.quietly(lambda: L.canon_listing(e.getDependentProducts(e.getProduct(r[0], r[1]), False,
                                                                                 topological=mode[0], checkCycles=mode[1])))
            except BaseException as ex:  # noqa
                return L.err_class(ex)
        e1 = _xeups(roots[0])
        shared, fresh = [], []
        for r in roots:
            shared.append([one(e1, r, m) for m in XMODES + [[False, False]]])
            fresh.append([one(_xeups(r), r, m) for m in XMODES])
        users, uses = None, None
        try:
            ecmd = L.cli_eups("uses", ["-e", "--vro", XVRO, queries[0][0]])
            e = ecmd.createEups()
            info = L.quietly(e.uses)
            uses = "ok"
        except BaseException as ex:  # noqa
            uses = L.err_class(ex)
        if uses == "ok":
            users = []
            for n, v in queries:
                try:
                    users.append(L.canon_users(L.quietly(e.uses, n, v, 9999, usesInfo=info)))
                except BaseException as ex:  # noqa
                    users.append(L.err_class(ex))
        return {"shared": shared, "fresh": fresh, "uses": uses, "users": users}
    finally:
        common.rmtree(root)


def in_child_exact(job):
    r = common.in_child(run_impl_exact, job)
    return r[1] if r[0] == "ok" else {"crash": r}


# ---- the default (implicit) product switched on -----------------------------------------------------------------

IMPLICIT = "implicitProducts"


def gen_default_graph(rng):
    """A DAG of single-version products d0.. (all current, no unsetup lines), and the default product declared with
    dependencies of its own: implicitProducts -> iq -> ipp (and sometimes -> ipp directly); nothing else names these."""
    n = rng.randint(2, 5)
    names = ["d%d" % i for i in range(n)]
    prods = []
    for i, m in enumerate(names):
        deps = [{"k": "opt" if rng.random() < 0.2 else "req", "n": t, "v": None if rng.random() < 0.7 else "1", "j": False}
                for t in names[i + 1:] if rng.random() < 0.5]
        prods.append({"name": m, "version": "1", "tags": ["current"], "deps": deps})
    prods.append({"name": "ipp", "version": "1", "tags": ["current"], "deps": []})
    prods.append({"name": "iq", "version": "1", "tags": ["current"], "deps": [{"k": "req", "n": "ipp", "v": None, "j": False}]})
    ideps = [{"k": "req", "n": "iq", "v": None, "j": False}]
    if rng.random() < 0.4:
        ideps.insert(rng.randint(0, 1), {"k": rng.choice(["req", "opt"]), "n": "ipp", "v": None, "j": False})
    prods.append({"name": IMPLICIT, "version": "1", "tags": ["current"], "deps": ideps})
    rng.shuffle(prods)
    return {"products": prods, "shape": "default_product"}


def with_implicit_lines(g):
    """The graph as the tables read with the default product on (independent of the model's `Db.withImplicit`): every table
    ends with an optional line for the default product, except the tables opened below the default product."""
    R = Resolved(g)
    ip = [p for p in g["products"] if p["name"] == IMPLICIT][0]
    below = {t[0] for t in R.closure((IMPLICIT, ip["version"], True))[0]} - {IMPLICIT}
    line = {"k": "opt", "n": IMPLICIT, "v": None, "j": False}
    return {"products": [p if p["name"] in below else dict(p, deps=p["deps"] + [line]) for p in g["products"]]}


def run_impl_default(job):
    graph, roots = job
    root = common.scratch("c13d")
    devnull = os.open(os.devnull, os.O_WRONLY)
    os.dup2(devnull, 1)
    os.dup2(devnull, 2)
    try:
        L.install(root, graph, default_product=True)
        lists = []
        for r in roots:
            row = []
            for mode in MODES:
                try:
                    row.append(L.quietly(_listing, r, mode))
                except BaseException as ex:  # noqa
                    row.append(L.err_class(ex))
            lists.append(row)
        return {"lists": lists}
    finally:
        common.rmtree(root)


def in_child_default(job):
    r = common.in_child(run_impl_default, job)
    return r[1] if r[0] == "ok" else {"crash": r}


def evaluate_default(ctx, graphs):
    """Listings with the default product declared and switched on; roots: every product not below the default product."""
    L.preimport()
    jobs = [(g, [[p["name"], p["version"]] for p in g["products"] if p["name"] not in ("iq", "ipp")]) for g in graphs]
    impl = parallel_map(in_child_default, jobs, workers=4)
    answers = ctx.lean.ask_many([dict(model_request(g, roots, []), implicit=IMPLICIT) for g, roots in jobs])
    for (g, roots), io_, ans in zip(jobs, impl, answers):
        if "bad-op" in ans:
            raise common.InfraError("driver rejected a C13 default-product request: %s" % ans["bad-op"])
        if "crash" in io_:
            raise common.InfraError("implementation child failed: %r" % (io_["crash"],))
        R = Resolved(with_implicit_lines(g))
        ml = model_lists(ans)
        ctx.hist("shape=default_product")
        for ri, r in enumerate(roots):
            for mi, mode in enumerate(MODES):
                out, mo = io_["lists"][ri][mi], ml[ri][mi]
                inp = {"graph": g, "root": r, "mode": mode, "default_product": True}
                ctx.case(key=[g["products"], r, mode, "default"], nontrivial=True)
                ctx.hist("default_product:%s" % (out if isinstance(out, str) else "ok"))
                # (root = the default product itself, topological modes: the code takes the root out of the graph it sorts —
                # it lists itself through its own implicit line — and every depth is one less than in the model; the order is
                # the same and is checked by the oracle)
                if out != mo and not (r[0] == IMPLICIT and (mode[0] or mode[1])):
                    ctx.disagree("listing_default_product", inp, out, mo)
                for clause, fid, detail in oracle_listing(R, r, mode, out, None):
                    ctx.fail(clause, inp, out, mo, note=detail, finding=fid)
                if mode[0] and not isinstance(out, str) and r[0] != IMPLICIT:
                    d = {e[0]: e[4] for e in out}
                    if IMPLICIT in d and "iq" in d and "ipp" in d:
                        ctx.hist("default_product:listed_with_its_dependencies")
                        if not (d[IMPLICIT] < d["iq"] < d["ipp"]):
                            ctx.fail("edge_order", inp, out, mo, finding=None,
                                     note="the default product (depth %s) must come before its dependencies iq (%s) and ipp (%s)" % (d[IMPLICIT], d["iq"], d["ipp"]))


def exact_graph(g):
    """the graph an object in exact mode walks first: every table's exact branch where it has one"""
    return {"products": [dict(p, deps=p["xdeps"]) if "xdeps" in p else p for p in g["products"]]}


def evaluate_exact(ctx, graphs):
    graphs = [g for g in graphs if any("xdeps" in p for p in g["products"])]
    if not graphs:
        return
    jobs = [(g, roots_of(g), queries_of(g)) for g in graphs]
    impl = parallel_map(in_child_exact, jobs, workers=4)
    answers = ctx.lean.ask_many([{"m": "c13", "op": "exact", "graph": {"products": g["products"]}, "roots": roots,
                                  "modes": XMODES, "queries": queries} for g, roots, queries in jobs])
    for (g, roots, queries), io_, ans in zip(jobs, impl, answers):
        if "bad-op" in ans:
            raise common.InfraError("driver rejected a C13 exact request: %s" % ans["bad-op"])
        if "crash" in io_:
            raise common.InfraError("implementation child failed: %r" % (io_["crash"],))
        RX = Resolved(exact_graph(g))
        ml = model_lists(ans)
        ctx.hist("graph:exact_and_else_branches_differ")
        for ri, r in enumerate(roots):
            differs = any(p["name"] == r[0] and p["version"] == r[1] and "xdeps" in p for p in g["products"])
            for mi, mode in enumerate(XMODES):
                out, mo = io_["fresh"][ri][mi], ml[ri][mi]
                inp = {"graph": g, "root": r, "mode": mode, "exact": True}
                ctx.case(key=[g["products"], r, mode, "exact"], nontrivial=bool(RX.succ.get((r[0], r[1], True))))
                if out != mo:
                    ctx.disagree("listing_exact", inp, out, mo)
                if mi == 0:
                    for clause, fid, detail in oracle_listing(RX, r, mode, out, None):
                        ctx.fail(clause + "_exact", inp, out, mo, note=detail, finding=fid)
            # the same listings by the object that has listed the earlier roots in every mode; the last one (plain again)
            # comes right after this root's own topological / checkCycles listings
            for mi, mode in enumerate(XMODES + [[False, False]]):
                out, freshv = io_["shared"][ri][mi], io_["fresh"][ri][mi % 3 if mi < 3 else 0]
                inp = {"graph": g, "root": r, "mode": mode, "exact": True, "sweep": [ri, mi]}
                ctx.case(key=[g["products"], r, mi, "exact-shared"], nontrivial=differs)
                if out != ml[ri][mi if mi < 3 else 0]:
                    ctx.disagree("listing_exact_after_other_listings", inp, out, ml[ri][mi if mi < 3 else 0])
                if out != freshv:
                    ctx.fail("listing_independent_of_history", inp, out, ml[ri][mi if mi < 3 else 0], finding=None,
                             note="exact mode, listed after %d roots x 4 listings (+%d of its own) by the same object: %r; by a fresh one: %r" % (ri, mi, out, freshv))
                if differs and (ri > 0 or mi == 3):
                    ctx.hist("exact:branching_root_listed_after_topological_listings")
        ctx.hist("uses_exact:%s" % io_["uses"])
        if io_["uses"] != ans.get("uses"):
            ctx.disagree("uses_exact", {"graph": g, "query": None, "exact": True}, io_["uses"], ans.get("uses"))
        if io_["uses"] == "ok" and ans.get("uses") == "ok":
            cache = {}
            for qi, q in enumerate(queries):
                out, mo = io_["users"][qi], ans["users"][qi]
                inp = {"graph": g, "query": q, "exact": True}
                ctx.case(key=[g["products"], "uses-exact", q], nontrivial=bool(out) and not isinstance(out, str))
                if out != mo:
                    ctx.disagree("users_exact", inp, out, mo)
                for clause, fid, detail in oracle_users(RX, exact_graph(g), q, out, cache):
                    ctx.fail(clause + "_exact", inp, out, mo, note=detail, finding=fid)
                if out and not isinstance(out, str) and q[0] in ("ec", "eb", "ee", "ed"):
                    ctx.hist("exact:users_through_an_exact_branch")
        elif io_["uses"] != "ok":
            ctx.fail("uses_no_error_exact", {"graph": g, "query": queries[0], "exact": True}, io_["uses"], ans.get("uses"),
                     note="uses() raised %s" % io_["uses"], finding=None)


def in_child_cli(job):
    r = common.in_child(run_cli_sample, job)
    return r[1] if r[0] == "ok" else {"val": "crash:%r" % (r,), "printed": None}


def expected_print(root, mode, listing):
    """`printProducts`: the root, then every entry whose product name has not been printed yet; nothing at all
    for --checkCycles without --topological"""
    if mode[1] and not mode[0]:
        return []
    out, seen = [[root[0], root[1]]], set()
    for e in listing:
        if e[0] not in seen:
            seen.add(e[0])
            out.append([e[0], str(e[1])])
    return out


# ---- model ---------------------------------------------------------------------------------------------

def model_request(graph, roots, queries):
    return {"m": "c13", "op": "all", "graph": {"products": graph["products"]}, "roots": roots, "modes": MODES, "queries": queries}


def model_lists(ans):
    return [[(o["list"] if o["out"] == "ok" else o["out"]) for o in row] for row in ans["lists"]]


# ---- evaluation ----------------------------------------------------------------------------------------

def evaluate(ctx, graphs, ncli=2, corpus=False):
    L.preimport()
    evaluate_exact(ctx, graphs)
    # graphs with exact/else tables go through the exact-mode evaluation only: under the stock VRO `type:exact` appends
    # `exact` to the object's setup type at the first resolution, so which branch a table shows depends on what was
    # resolved before — outside the model
    graphs = [g for g in graphs if not any("xdeps" in p for p in g["products"])]
    if not graphs:
        return
    jobs = [(g, roots_of(g), queries_of(g)) for g in graphs]
    impl = parallel_map(in_child_job, jobs, workers=4)
    clijobs = []
    prints = {}                 # graph index -> [[query index, showOptional, depth]] for the model
    for gi, (g, roots, queries) in enumerate(jobs):
        for _ in range(ncli):
            if ctx.rng.random() < 0.6:
                ri = ctx.rng.randrange(len(roots))
                mi = ctx.rng.randrange(3)
                clijobs.append((gi, "list", (ri, mi)))
            else:
                # `eups uses [--optional] [--depth N] product [version]`
                a = [ctx.rng.randrange(len(queries)), ctx.rng.random() < 0.5, ctx.rng.choice([None, None, 1, 2])]
                clijobs.append((gi, "uses", (a[0], a[1], a[2], len(prints.setdefault(gi, [])))))
                prints[gi].append([a[0], a[1], a[2] if a[2] is not None else 9999])
    reqs = []
    for gi, j in enumerate(jobs):
        rq = model_request(*j)
        if gi in prints:
            rq["print"] = prints[gi]
        reqs.append(rq)
    answers = ctx.lean.ask_many(reqs)
    cliout = parallel_map(in_child_cli, [(jobs[gi][0], kind, ((jobs[gi][1][a[0]], MODES[a[1]]) if kind == "list"
                                                              else (jobs[gi][2][a[0]], a[1], a[2])))
                                         for gi, kind, a in clijobs], workers=4)
    for (g, roots, queries), io_, ans in zip(jobs, impl, answers):
        if "bad-op" in ans:
            raise common.InfraError("driver rejected a C13 request: %s" % ans["bad-op"])
        if "crash" in io_:
            raise common.InfraError("implementation child failed: %r" % (io_["crash"],))
        R = Resolved(g)
        ml = model_lists(ans)
        ctx.hist("shape=%s" % g.get("shape", "corpus").replace("+j", "").replace("+tag", "").replace("+exact", ""))
        if "+j" in g.get("shape", ""):
            ctx.hist("shape+j")
        # a line with a tag / VRO of its own that does not resolve (or whose table cannot be read), followed in the same
        # table by an unversioned line whose tagged and current versions differ and have different dependencies
        for p in g["products"]:
            for i, d in enumerate(p["deps"]):
                if (d.get("t") or d.get("vro")) and d["k"] in ("req", "opt"):
                    tg = d.get("t") or d.get("vro")
                    for d2 in p["deps"][i + 1:]:
                        if d2["k"] in ("req", "opt") and not d2["v"] and (d2["n"], tg) in R.tagged and R.cur.get(d2["n"]) not in (None, R.tagged[(d2["n"], tg)]):
                            a, b = R.decl[(d2["n"], R.cur[d2["n"]])], R.decl[(d2["n"], R.tagged[(d2["n"], tg)])]
                            if a["deps"] != b["deps"]:
                                ctx.hist("graph:tagged_line_then_split_versions")
                                ctx.hist("graph:tagged_line_%s" % ("unreadable_table" if (d["n"], d.get("v")) in R.decl else "undeclared"))
        ctx.hist("products=%d" % len(g["products"]))
        if any(p.get("notable") for p in g["products"]):
            ctx.hist("graph:has_product_without_table")
        if any(p.get("missing") for p in g["products"]):
            ctx.hist("graph:has_missing_table_file")
        if any(d.get("external") for p in g["products"] for d in p["deps"]):
            ctx.hist("graph:has_skipped_lines")
        byn = {}
        for p in g["products"]:
            byn.setdefault(p["name"], []).append(p["version"])
        if any(a != b and b.startswith(a) for vs in byn.values() for a in vs for b in vs):
            ctx.hist("graph:has_prefix_versions")
        for ri, r in enumerate(roots):
            for mi, mode in enumerate(MODES):
                out, mo = io_["lists"][ri][mi], ml[ri][mi]
                inp = {"graph": g, "root": r, "mode": mode}
                nontriv = bool(R.succ.get((r[0], r[1], True)))
                ctx.case(key=[g["products"], r, mode], nontrivial=nontriv,
                         sample={"input": inp, "impl": out} if ctx.evaluations % 4001 == 0 else None)
                ctx.hist("listing:%s" % (out if isinstance(out, str) else "ok"))
                if out != mo:
                    ctx.disagree("listing", inp, out, mo)
                for clause, fid, detail in oracle_listing(R, r, mode, out, ctx.hist if mi == 0 else None):
                    ctx.fail(clause, inp, out, mo, note=detail, finding=fid)
        plain = MODES.index([False, False])
        for ri, r in enumerate(roots):
            # the same listing by an Eups object that has listed the roots before it
            out, mo, fresh = io_["sweep"][ri], ml[ri][plain], io_["lists"][ri][plain]
            inp = {"graph": g, "root": r, "mode": [False, False], "sweep": ri}
            ctx.case(key=[g["products"], r, "sweep"], nontrivial=bool(R.succ.get((r[0], r[1], True))) and ri > 0)
            if out != mo:
                ctx.disagree("listing_after_other_listings", inp, out, mo)
            if out != fresh:
                ctx.fail("listing_independent_of_history", inp, out, mo, finding=None,
                         note="listed after %d other listings by the same Eups object: %r; by a fresh one: %r" % (ri, out, fresh))
        mb = [(b["list"] if b["out"] == "ok" else b["out"]) for b in ans["builds"]]
        for ri, r in enumerate(roots):
            out, mo = io_["builds"][ri], mb[ri]
            inp = {"graph": g, "root": r, "build": True}
            ctx.case(key=[g["products"], r, "build"], nontrivial=bool(R.succ.get((r[0], r[1], True))))
            ctx.hist("build:%s" % (out if isinstance(out, str) else "ok"))
            if out != mo:
                ctx.disagree("build_order", inp, out, mo)
            for clause, fid, detail in oracle_build(R, r, out):
                ctx.fail(clause, inp, out, mo, note=detail, finding=fid)
        if queries:
            ctx.hist("uses:%s" % io_["uses"])
            if io_["uses"] != ans.get("uses"):
                ctx.disagree("uses", {"graph": g, "query": None}, io_["uses"], ans.get("uses"))
            if io_["uses"] != "ok":
                # uses() itself raised: every query of this graph fails the totality clause
                cyc_ok = False
                inp = {"graph": g, "query": queries[0]}
                ctx.case(key=[g["products"], "uses"], nontrivial=True)
                fid = None          # D32 (RecursionError with an unsetup line in a cycle) is repaired
                ctx.fail("uses_no_error", inp, io_["uses"], ans.get("uses"), note="uses() raised %s" % io_["uses"], finding=fid)
            else:
                cache = {}
                mu = ans.get("users")
                for qi, q in enumerate(queries):
                    out = io_["users"][qi]
                    mo = mu[qi] if mu is not None else None
                    inp = {"graph": g, "query": q}
                    ctx.case(key=[g["products"], "uses", q], nontrivial=bool(out) and not isinstance(out, str))
                    ctx.hist("users:%s" % (out if isinstance(out, str) else ("some" if out else "none")))
                    if q[1] is not None:
                        mine = expected_users(R, q, cache)
                        for q2 in queries:
                            if q2[0] == q[0] and q2[1] and q2[1] != q[1] and q2[1].startswith(q[1]):
                                other = expected_users(R, q2, cache)
                                if mine is not None and other and {(u[0], u[1]) for u in other} - {(u[0], u[1]) for u in mine}:
                                    ctx.hist("users:prefix_version_with_distinct_users")
                                    break
                    if out != mo:
                        ctx.disagree("users", inp, out, mo)
                    for clause, fid, detail in oracle_users(R, g, q, out, cache):
                        ctx.fail(clause, inp, out, mo, note=detail, finding=fid)
    # `eups list -D --setup`: a third of the graphs, with two to five products set up
    sjobs = []
    for g, roots, queries in jobs:
        if ctx.rng.random() < 0.35 and not any(d["k"] in ("unreq", "unopt") for p in g["products"] for d in p["deps"]):
            su = gen_setup(ctx.rng, g)
            if su:
                sjobs.append((g, su))
    if sjobs:
        simpl = parallel_map(in_child_setup, sjobs, workers=4)
        sans = ctx.lean.ask_many([{"m": "c13", "op": "setup", "graph": {"products": g["products"]}, "setup": su,
                                   "roots": su, "modes": MODES} for g, su in sjobs])
        for (g, su), io_, ans in zip(sjobs, simpl, sans):
            if "bad-op" in ans:
                raise common.InfraError("driver rejected a C13 setup request: %s" % ans["bad-op"])
            if "crash" in io_:
                raise common.InfraError("implementation child failed: %r" % (io_["crash"],))
            R = Resolved(g)
            ml = model_lists(ans)
            for ri, r in enumerate(su):
                for mi, mode in enumerate(MODES):
                    out, mo = io_["lists"][ri][mi], ml[ri][mi]
                    inp = {"graph": g, "setup": su, "root": r, "mode": mode}
                    ctx.case(key=[g["products"], su, r, mode], nontrivial=bool(R.succ.get((r[0], r[1], True))))
                    ctx.hist("setup_listing:%s" % (out if isinstance(out, str) else ("some" if out else "empty")))
                    if out != mo:
                        ctx.disagree("setup_listing", inp, out, mo)
                    for clause, fid, detail in oracle_setup_listing(R, su, r, mode, out):
                        ctx.fail(clause, inp, out, mo, note=detail, finding=fid)
    # the command-line sample: must equal what the API gave (hence the model)
    for (gi, kind, a), res in zip(clijobs, cliout):
        g, roots, queries = jobs[gi]
        out = res["val"]
        ctx.hist("cli:%s" % kind)
        if res["printed"] is not None and kind == "uses":
            q, show_opt = queries[a[0]], a[1]
            ctx.hist("cli:uses%s%s" % (" --optional" if show_opt else "", " --depth" if a[2] else ""))
            # oracle (ii): a row for every user the command computed that is required (with --optional: for every user)
            want = [[u[0], u[1], (str(u[2]) if q[1] is None else None), u[3]] for u in out if show_opt or not u[3]]
            inp = {"graph": g, "query": q, "via": "command line", "optional": show_opt, "depth": a[2]}
            mp = answers[gi].get("printed")
            mrows = None
            if mp is not None and mp[a[3]] is not None:
                mrows = [[r[0], r[1], (str(r[2]) if q[1] is None else None), r[3]] for r in mp[a[3]]]
                if res["printed"] != mrows:
                    ctx.disagree("cli_uses_printed", inp, res["printed"], mrows)
            if res["printed"] != want:
                ctx.fail("cli_prints_users", inp, res["printed"], mrows, note="eups uses printed something else than the users it computed: %r" % (want,))
            if any(u[3] for u in out):
                ctx.hist("cli:uses_has_optional_user%s" % ("_shown" if show_opt else "_hidden"))
        elif res["printed"] is not None:
            want = expected_print(roots[a[0]], MODES[a[1]], out)
            if res["printed"] != want:
                ctx.fail("cli_prints_listing", {"graph": g, "root": roots[a[0]], "mode": MODES[a[1]], "via": "command line"},
                         res["printed"], want, note="eups list -D printed something else than the listing it computed")
        if kind == "list":
            api = impl[gi]["lists"][a[0]][a[1]]
            inp = {"graph": g, "root": roots[a[0]], "mode": MODES[a[1]], "via": "command line"}
            mo = model_lists(answers[gi])[a[0]][a[1]]
        else:
            api = impl[gi]["users"][a[0]] if impl[gi]["uses"] == "ok" else impl[gi]["uses"]
            inp = {"graph": g, "query": queries[a[0]], "via": "command line", "optional": a[1], "depth": a[2]}
            mo = answers[gi]["users"][a[0]] if answers[gi].get("uses") == "ok" else answers[gi].get("uses")
        ctx.case(key=None, nontrivial=False)
        if out != api:
            ctx.disagree("cli_vs_api", inp, out, api, note="the command line and the API disagree")
        if out != mo:
            ctx.disagree("cli_" + kind, inp, out, mo)


# ---- utils.topologicalSort / stronglyConnectedComponents on integer graphs --------------------------------

def gen_intgraph(rng):
    n = rng.randint(1, 7)
    dens = rng.choice([0.1, 0.25, 0.5])
    g = []
    keys = [k for k in range(n) if rng.random() < 0.85] or [0]
    for k in keys:
        g.append([k, [t for t in range(n) if rng.random() < dens]])
    rng.shuffle(g)
    return g


def run_topo_impl(graphs):
    U = common.eups_mod("utils")
    outs = []
    for g, cc in graphs:
        try:
            d = {k: list(v) for k, v in g}
            layers = [sorted(x) for x in L.quietly(lambda: list(U.topologicalSort(d, checkCycles=cc)))]
            r = layers
        except RuntimeError:
            r = "Cycle"
        except BaseException as ex:  # noqa
            r = L.err_class(ex)
        # the real Tarjan on the normalised graph
        d = {}
        for k, v in g:
            d.setdefault(k, set()).update(x for x in v if x != k)
        for k in list(d):
            for x in d[k]:
                d.setdefault(x, set())
        try:
            comps = sorted(sorted(c) for c in U.stronglyConnectedComponents(d))
        except BaseException as ex:  # noqa
            comps = L.err_class(ex)
        outs.append((r, comps))
    return outs


def evaluate_topo(ctx, n):
    graphs = [(gen_intgraph(ctx.rng), ctx.rng.random() < 0.4) for _ in range(n)]
    impl = run_topo_impl(graphs)
    reqs = []
    for g, cc in graphs:
        reqs.append({"m": "c13", "op": "topo", "graph": g, "cc": cc})
        reqs.append({"m": "c13", "op": "scc", "graph": g})
    ans = ctx.lean.ask_many(reqs)
    for i, ((g, cc), (layers, comps)) in enumerate(zip(graphs, impl)):
        a, s = ans[2 * i], ans[2 * i + 1]
        mo = [sorted(x) for x in a["layers"]] if a.get("out") == "ok" else a.get("out", a)
        ms = sorted(sorted(c) for c in s["comps"]) if s.get("out") == "ok" else s.get("out", s)
        inp = {"intgraph": g, "cc": cc}
        edges = {(k, t) for k, v in g for t in v if t != k}
        ctx.case(key=["topo", g, cc], nontrivial=bool(edges))
        ctx.hist("topo:%s" % (layers if isinstance(layers, str) else "ok"))
        if layers != mo:
            ctx.disagree("topologicalSort", inp, layers, mo)
        if comps != ms:
            ctx.disagree("stronglyConnectedComponents", inp, comps, ms)
        # oracle (ii): components are the mutual-reachability classes; layers respect every edge between components
        nodes = sorted({k for k, _ in g} | {t for _, v in g for t in v})
        reach = {a_: {a_} for a_ in nodes}
        changed = True
        while changed:
            changed = False
            for (u, t) in edges:
                for a_ in nodes:
                    if u in reach[a_] and t not in reach[a_]:
                        reach[a_].add(t)
                        changed = True
        want = sorted({tuple(sorted(b for b in nodes if b in reach[a_] and a_ in reach[b])) for a_ in nodes})
        if isinstance(comps, str) or [tuple(c) for c in comps] != want:
            ctx.fail("scc_is_mutual_reachability", inp, comps, ms, note="expected %s" % (want,))
        cyclic = any(len(c) > 1 for c in want)
        if isinstance(layers, str):
            if not (layers == "Cycle" and cc and cyclic):
                ctx.fail("toposort_no_error", inp, layers, mo, note="raised %s" % layers)
        else:
            if cc and cyclic:
                ctx.fail("toposort_cycle_reported", inp, layers, mo)
            lvl = {x: i_ for i_, l in enumerate(layers) for x in l}
            if sorted(lvl) != nodes:
                ctx.fail("toposort_all_nodes", inp, layers, mo)
            else:
                comp = {a_: tuple(sorted(b for b in nodes if b in reach[a_] and a_ in reach[b])) for a_ in nodes}
                for (u, t) in edges:
                    if comp[u] != comp[t] and not lvl[t] < lvl[u]:
                        ctx.fail("toposort_edge_order", inp, layers, mo, note="%s -> %s" % (u, t))
                        break


# ---- entry points --------------------------------------------------------------------------------------

def corpus_graphs():
    d = os.path.join(common.VERIF, "corpus", "C13")
    out = []
    if os.path.isdir(d):
        for f in sorted(os.listdir(d)):
            if f.endswith(".json"):
                with open(os.path.join(d, f)) as fh:
                    c = json.load(fh)
                g = c["graph"]
                g["shape"] = "corpus:" + f
                if c.get("default_product"):
                    g["_default_product"] = True
                out.append(g)
    return out


FLOORS = ("closure:cyclic", "closure:two_declared_versions", "closure:unresolved", "shape=cyclic",
          "closure:unsetup", "closure:unsetup_reentrant", "graph:tagged_line_then_split_versions",
          "graph:tagged_line_undeclared", "graph:tagged_line_unreadable_table", "graph:exact_and_else_branches_differ",
          "exact:branching_root_listed_after_topological_listings", "exact:users_through_an_exact_branch", "closure:j_target_opened_elsewhere",
          "closure:j_target_not_opened", "graph:has_prefix_versions", "users:prefix_version_with_distinct_users")


def run(ctx):
    """Order matters: the ordinary quick portion (corpus, a slice of the exhaustive family, the generated stream with its
    distribution floors) always comes first; the enlarged budget of the thorough tier / of a run escalated because the
    mirrored source changed is spent after it.  (Before round 3 the enlarged run started with the whole exhaustive family,
    which used up the time limit: exactly when the source had changed, the generated stream never ran.)"""
    big = ctx.tier == "thorough" or ctx.escalated
    cg = corpus_graphs()
    ctx.hist("corpus", len(cg))
    cd = [{k: v for k, v in g.items() if k != "_default_product"} for g in cg if g.get("_default_product")]
    cg = [g for g in cg if not g.get("_default_product")]
    if cg:
        evaluate(ctx, cg, ncli=1)
    if cd:
        evaluate_default(ctx, cd)
    evaluate_topo(ctx, 1500)
    total = enum_count()
    ids = [(ctx.seed * 977 + k * 103) % total for k in range(30)]
    evaluate(ctx, [enum_graph(i) for i in ids], ncli=1 if ctx.tier != "thorough" else 0)
    n = 120
    done = 0
    while done < n and not ctx.out_of_time():
        k = min(60, n - done)
        evaluate(ctx, [gen_graph(ctx.rng, wide=ctx.tier == "thorough") for _ in range(k)])
        done += k
    evaluate_default(ctx, [gen_default_graph(ctx.rng) for _ in range(12)])
    if ctx.evaluations and ctx.distinct_nontrivial < ctx.evaluations * 0.3:
        raise common.InfraError("degenerate distribution: %d non-trivial of %d" % (ctx.distinct_nontrivial, ctx.evaluations))
    h = ctx.histogram
    if not h.get("default_product:listed_with_its_dependencies"):
        raise common.InfraError("degenerate distribution: no topological listing with the default product and its dependencies")
    if done >= 100:
        for need in FLOORS:
            if not h.get(need):
                raise common.InfraError("degenerate distribution: no case with %s" % need)
    if not big:
        return
    # the enlarged portion: generated graphs and the exhaustive family in alternation, then the direct tests of the sort
    ctx.note("exhaustive family: all %d graphs over %s, interleaved with the generated stream" % (total, sorted(ENUM_LINES)))
    rest = [i for i in range(total) if i not in set(ids)]
    at, more = 0, 0
    while (at < len(rest) or more < 5880) and not ctx.out_of_time():
        if more < 5880:
            evaluate(ctx, [gen_graph(ctx.rng, wide=ctx.tier == "thorough") for _ in range(60)])
            more += 60
        if at < len(rest) and not ctx.out_of_time():
            evaluate(ctx, [enum_graph(i) for i in rest[at:at + 120]], ncli=1 if ctx.tier != "thorough" else 0)
            at += 120
    if not ctx.out_of_time():
        evaluate_topo(ctx, 38500)


def replay(ctx, rp):
    common.import_eups()
    inp = rp["input"]
    fails = []
    if "intgraph" in inp:
        c2 = common.Ctx(ctx.pid, ctx.tier, ctx.seed, 600)
        c2.lean = ctx.lean
        g, cc = inp["intgraph"], inp["cc"]
        impl = run_topo_impl([(g, cc)])[0]
        a = ctx.lean.ask({"m": "c13", "op": "topo", "graph": g, "cc": cc})
        return {"input": inp, "impl_output": impl, "model_output": a, "fails": []}
    g = inp["graph"]
    if inp.get("default_product"):
        c2 = common.Ctx(ctx.pid, ctx.tier, ctx.seed, 600)
        c2.lean = ctx.lean
        evaluate_default(c2, [{k: v for k, v in g.items()}])
        fails = [{"clause": f["clause"], "class": f.get("finding_class"), "detail": f.get("note")} for f in c2.failures]
        return {"input": inp, "impl_output": [d["impl_output"] for d in c2.disagreements][:3],
                "model_output": [d["model_output"] for d in c2.disagreements][:3], "agree": not c2.disagreements, "fails": fails[:5]}
    if inp.get("exact"):
        # exact-mode cases depend on everything the shared object listed before: re-run the whole graph
        c2 = common.Ctx(ctx.pid, ctx.tier, ctx.seed, 600)
        c2.lean = ctx.lean
        evaluate_exact(c2, [g])
        fails = [{"clause": f["clause"], "class": f.get("finding_class"), "detail": f.get("note")} for f in c2.failures]
        return {"input": inp, "impl_output": [d["impl_output"] for d in c2.disagreements][:3],
                "model_output": [d["model_output"] for d in c2.disagreements][:3], "agree": not c2.disagreements, "fails": fails[:5]}
    R = Resolved(g)
    cli_fails = []
    if "setup" in inp:
        io_ = in_child_setup((g, inp["setup"]))
        ans = ctx.lean.ask({"m": "c13", "op": "setup", "graph": {"products": g["products"]}, "setup": inp["setup"],
                            "roots": inp["setup"], "modes": MODES})
        ri, mi = inp["setup"].index(inp["root"]), MODES.index(inp["mode"])
        out, mo = io_["lists"][ri][mi], model_lists(ans)[ri][mi]
        fails = [{"clause": c, "class": f, "detail": d} for c, f, d in oracle_setup_listing(R, inp["setup"], inp["root"], inp["mode"], out)]
        return {"input": inp, "impl_output": out, "model_output": mo, "agree": out == mo, "fails": fails}
    if "root" in inp:
        roots, queries = [inp["root"]], []
    else:
        roots, queries = [], [inp["query"]] if inp.get("query") else queries_of(g)
    if inp.get("via") == "command line":
        kind = "list" if "root" in inp else "uses"
        res = in_child_cli((g, kind, (inp["root"], inp["mode"]) if kind == "list"
                            else (inp["query"], inp.get("optional", True), inp.get("depth"))))
        out = res["val"]
        if res["printed"] is not None and kind == "uses":
            q, so = inp["query"], inp.get("optional", True)
            if res["printed"] != [[u[0], u[1], (str(u[2]) if q[1] is None else None), u[3]] for u in out if so or not u[3]]:
                cli_fails.append({"clause": "cli_prints_users", "class": None, "detail": "printed %s" % (res["printed"],)})
        elif res["printed"] is not None and res["printed"] != expected_print(inp["root"], inp["mode"], out):
            cli_fails.append({"clause": "cli_prints_listing", "class": None,
                              "detail": "printed %s, listing %s" % (res["printed"], expected_print(inp["root"], inp["mode"], out))})
        io_ = {"lists": [[out if m == inp.get("mode") else None for m in MODES]], "uses": "ok", "users": [out]}
    else:
        io_ = in_child_job((g, roots, queries))
    ans = ctx.lean.ask(model_request(g, roots, queries))
    if inp.get("build"):
        out = io_["builds"][0]
        b = ans["builds"][0]
        mo = b["list"] if b["out"] == "ok" else b["out"]
        fails = [{"clause": c, "class": f, "detail": d} for c, f, d in oracle_build(R, inp["root"], out)]
    elif roots:
        mi = MODES.index(inp["mode"])
        out, mo = io_["lists"][0][mi], model_lists(ans)[0][mi]
        fails = [{"clause": c, "class": f, "detail": d} for c, f, d in oracle_listing(R, inp["root"], inp["mode"], out)]
    else:
        if io_["uses"] != "ok":
            out, mo = io_["uses"], ans.get("uses")
            fails = [{"clause": "uses_no_error", "class": None, "detail": "uses() raised %s" % out}]
        else:
            out, mo = io_["users"][0], (ans.get("users") or [None])[0]
            fails = [{"clause": c, "class": f, "detail": d} for c, f, d in oracle_users(R, g, queries[0], out, {})]
    return {"input": inp, "impl_output": out, "model_output": mo, "agree": out == mo, "fails": fails + cli_fails}
