"""Fingerprints of the Python functions a model mirrors.

A harness lists what its model mirrors as MIRRORS = [("python/eups/table.py", "Action.execute_envPrepend"), ...].
fingerprints/Cxx.json records a normalised-AST hash of each at the time the check was registered.  A differing
hash proves nothing (a harmless rewrite changes it too); it only makes the quick tier run with the thorough
tier's case budget, because a model that may be stale is exactly when the correspondence must work hardest."""
import ast
import hashlib
import json
import os

from .common import VERIF, REPO


def _find(tree, qual):
    node = tree
    for part in qual.split("."):
        found = None
        for ch in ast.iter_child_nodes(node):
            if isinstance(ch, (ast.FunctionDef, ast.ClassDef, ast.AsyncFunctionDef)) and ch.name == part:
                found = ch
        if found is None:
            return None
        node = found
    return node


def _strip_docstrings(node):
    for n in ast.walk(node):
        if isinstance(n, (ast.FunctionDef, ast.ClassDef, ast.AsyncFunctionDef, ast.Module)):
            if n.body and isinstance(n.body[0], ast.Expr) and isinstance(getattr(n.body[0], "value", None), ast.Constant) \
                    and isinstance(n.body[0].value.value, str):
                n.body = n.body[1:] or [ast.Pass()]
    return node


def current(mirrors, repo=None):
    repo = repo or REPO
    out = {}
    cache = {}
    for path, qual in mirrors:
        key = "%s::%s" % (path, qual)
        try:
            if path not in cache:
                with open(os.path.join(repo, path), encoding="utf-8") as f:
                    cache[path] = ast.parse(f.read())
            node = cache[path] if qual in ("", "*") else _find(cache[path], qual)
            if node is None:
                out[key] = "missing"
            else:
                out[key] = hashlib.sha1(ast.dump(_strip_docstrings(node), annotate_fields=False,
                                                 include_attributes=False).encode()).hexdigest()[:16]
        except (OSError, SyntaxError) as e:
            out[key] = "error:%s" % type(e).__name__
    return out


def recorded(pid):
    p = os.path.join(VERIF, "fingerprints", pid + ".json")
    if not os.path.exists(p):
        return None
    with open(p) as f:
        return json.load(f)


def changed(pid, mirrors):
    """Names of mirrored functions whose source differs from the recorded fingerprint (None: nothing recorded)."""
    rec = recorded(pid)
    if rec is None:
        return None
    cur = current(mirrors)
    return sorted(k for k in set(cur) | set(rec) if cur.get(k) != rec.get(k))


def update(pid, mirrors):
    d = os.path.join(VERIF, "fingerprints")
    os.makedirs(d, exist_ok=True)
    with open(os.path.join(d, pid + ".json"), "w") as f:
        json.dump(current(mirrors), f, indent=1, sort_keys=True)


def mirrors_for(pid, mod=None):
    """The functions mirrored by property pid: the harness's own MIRRORS, else fingerprints/mirrors.json."""
    m = getattr(mod, "MIRRORS", None) if mod is not None else None
    if m:
        return [tuple(x) for x in m]
    p = os.path.join(VERIF, "fingerprints", "mirrors.json")
    if os.path.exists(p):
        with open(p) as f:
            return [tuple(x) for x in json.load(f).get(pid, [])]
    return []
