"""Lean side of a check: incremental build, source scan, axiom audit, and the model driver process."""
import json
import os
import re
import subprocess
import threading
import time

from .common import VERIF, WORK, InfraError

LEAN = os.path.join(VERIF, "lean")
INDEX = os.path.join(VERIF, "index")
ALLOWED_AXIOMS = {"propext", "Classical.choice", "Quot.sound"}
FORBIDDEN = re.compile(r"\bsorry\b|\badmit\b|^\s*axiom\s|native_decide|bv_decide|implemented_by|\bunsafe\s|maxHeartbeats\s+0\b")


def _run(cmd, cwd=LEAN, timeout=3600):
    p = subprocess.run(cmd, cwd=cwd, stdout=subprocess.PIPE, stderr=subprocess.STDOUT, text=True, timeout=timeout)
    return p.returncode, p.stdout


def strip_comments(text):
    """Remove Lean block comments (nested) and line comments, keeping line structure."""
    out = []
    i, depth, n = 0, 0, len(text)
    while i < n:
        if text.startswith("/-", i):
            depth += 1
            i += 2
        elif depth and text.startswith("-/", i):
            depth -= 1
            i += 2
        elif depth:
            if text[i] == "\n":
                out.append("\n")
            i += 1
        elif text.startswith("--", i):
            while i < n and text[i] != "\n":
                i += 1
        elif text[i] == '"':
            j = i + 1
            while j < n and text[j] != '"':
                j += 2 if text[j] == "\\" else 1
            out.append('""')
            i = j + 1
        else:
            out.append(text[i])
            i += 1
    return "".join(out)


def scan_sources():
    """Forbidden constructs outside comments and string literals anywhere under lean/ (excluding .lake)."""
    hits = []
    for d, dirs, files in os.walk(LEAN):
        dirs[:] = [x for x in dirs if x != ".lake"]
        for f in files:
            if f.endswith(".lean"):
                p = os.path.join(d, f)
                body = strip_comments(open(p, encoding="utf-8").read())
                for ln, line in enumerate(body.split("\n"), 1):
                    if FORBIDDEN.search(line):
                        hits.append("%s:%d: %s" % (os.path.relpath(p, VERIF), ln, line.strip()[:100]))
    return hits


def build(targets=("EupsModel", "driver")):
    """Incremental lake build.  Returns (ok, log)."""
    rc, out = _run(["lake", "build"] + list(targets))
    return rc == 0, out


def load_index(pid):
    p = os.path.join(INDEX, pid + ".json")
    with open(p) as f:
        return json.load(f)


def audit(pid):
    """Kernel-check status and axioms of every theorem listed for the property.

    Returns a dict: obligations, discharged, theorems [{name,status,axioms,ok,problem}], problems."""
    idx = load_index(pid)
    thms = idx["theorems"]
    os.makedirs(WORK, exist_ok=True)
    path = os.path.join(WORK, "audit_%s.lean" % pid)
    mods = idx.get("modules") or ["EupsModel.Props." + pid]
    with open(path, "w") as f:
        for m in mods:
            f.write("import %s\n" % m)
        for t in thms:
            f.write("#print axioms %s\n" % t["name"])
    rc, out = _run(["lake", "env", "lean", path])
    res = {}
    # '<name>' depends on axioms: [a, b]   |   '<name>' does not depend on any axioms
    for m in re.finditer(r"'([^']+)' depends on axioms: \[([^\]]*)\]", out):
        res[m.group(1)] = [a.strip() for a in m.group(2).replace("\n", " ").split(",") if a.strip()]
    for m in re.finditer(r"'([^']+)' does not depend on any axioms", out):
        res[m.group(1)] = []
    rows, problems = [], []
    for t in thms:
        name = t["name"]
        row = dict(t)
        if name not in res:
            row.update(ok=False, axioms=None, problem="not accepted by Lean (missing or failing)")
            problems.append("%s: not accepted by Lean" % name)
        else:
            bad = [a for a in res[name] if a not in ALLOWED_AXIOMS]
            row.update(ok=not bad, axioms=res[name])
            if bad:
                row["problem"] = "depends on %s" % bad
                problems.append("%s: depends on %s" % (name, bad))
        rows.append(row)
    if rc != 0 and not problems:
        problems.append("audit file failed: " + out[-500:])
    return {"obligations": len(thms), "discharged": sum(1 for r in rows if r["ok"]), "theorems": rows,
            "problems": problems, "log": out[-2000:]}


def proof_gate(pid):
    """(A) of ./check: build, scan, audit.  Returns dict with ok flag."""
    t0 = time.time()
    ok, log = build()
    gate = {"build_ok": ok, "build_log": log[-3000:], "scan_hits": [], "problems": []}
    if not ok:
        gate["problems"].append("lake build failed")
        gate.update(obligations=len(load_index(pid)["theorems"]), discharged=0, theorems=[])
    else:
        gate["scan_hits"] = scan_sources()
        gate["problems"] += ["forbidden construct: " + h for h in gate["scan_hits"]]
        a = audit(pid)
        gate.update(obligations=a["obligations"], discharged=a["discharged"], theorems=a["theorems"])
        gate["problems"] += a["problems"]
    gate["ok"] = not gate["problems"]
    gate["wall_s"] = round(time.time() - t0, 2)
    return gate


def leanchecker(pid):
    """Thorough tier: independent re-check of the property's compiled modules."""
    idx = load_index(pid)
    mods = idx.get("modules") or ["EupsModel.Props." + pid]
    rc, out = _run(["lake", "env", "leanchecker"] + mods, timeout=3600)
    return rc == 0, out[-1500:]


class Driver:
    """Persistent model driver: JSON line in, JSON line out."""

    def __init__(self):
        exe = os.path.join(LEAN, ".lake", "build", "bin", "driver")
        if os.path.exists(exe):
            cmd = [exe]
        else:
            cmd = ["lake", "env", "lean", "--run", "Driver.lean"]
        self.cmd = cmd
        self.p = subprocess.Popen(cmd, cwd=LEAN, stdin=subprocess.PIPE, stdout=subprocess.PIPE,
                                  text=True, encoding="utf-8", bufsize=1)
        self.requests = 0

    def ask(self, req):
        return self.ask_many([req])[0]

    def ask_many(self, reqs):
        """Send all requests, return all answers (parsed JSON), in order."""
        reqs = list(reqs)
        if not reqs:
            return []
        lines = [json.dumps(r, ensure_ascii=True) + "\n" for r in reqs]
        err = []

        def writer():
            try:
                for ln in lines:
                    self.p.stdin.write(ln)
                self.p.stdin.flush()
            except Exception as e:  # driver died
                err.append(e)

        th = threading.Thread(target=writer, daemon=True)
        th.start()
        out = []
        for _ in lines:
            ln = self.p.stdout.readline()
            if not ln:
                raise InfraError("model driver exited (rc=%s) after %d answers of %d; cmd=%s"
                                 % (self.p.poll(), len(out), len(lines), self.cmd))
            out.append(json.loads(ln))
        th.join()
        self.requests += len(reqs)
        return out

    def close(self):
        try:
            self.p.stdin.close()
            self.p.wait(timeout=10)
        except Exception:
            self.p.kill()

    def __enter__(self):
        return self

    def __exit__(self, *a):
        self.close()
