"""C06 — the database reflects exactly the history of declare / undeclare / tag operations.

Implementation: `Eups.declare / undeclare / assignTag / unassignTag`, one forked child per command
(`lib_db.run_history`), a fresh reader through `eups.db.Database` after every command and a direct parse of
`ups_db`.  Model: `lean/EupsModel/Model/Db.lean` + `Cache.lean` through the driver op "c06" (the commands
read through the product cache, so the model runs the cache's load-or-rebuild rule too).
Oracle (ii): `lib_dbref.Ref`, a reference of the property (what the history implies for a reader who
sees every stack and flavor), plus the state clauses (no dangling tag, unique keys, frame, refusals and dry
runs change nothing, reader = raw files) evaluated on the implementation's listings alone."""
import json
import os
import time

from . import common, lib_db
from .common import parallel_map
from .lib_dbref import Ref, dangling_tags, duplicate_keys, frame_breaks, fallbacks

RULE = ("cases = histories of 5-40 commands (declare with/without directory, tag, stack, force, external files; table "
        "file: the directory's, none, a file kept elsewhere (-m: in ups_db_tables/ of either stack, outside the stacks, the "
        "interned table by its path), a stream (-M, two contents); redeclaration with another directory; undeclare "
        "with/without version, tag-only, version-and-tag, with the product set up in the environment; remove; direct "
        "assignTag / unassignTag; ~8% dry runs; ~1.5% an installation directory deleted by hand) over 3 products x 3 "
        "versions x 2 flavors (Linux native, generic fallback, sharing version files) x 2 stacks named stack and stack2 "
        "(one a character prefix of the other, DESIGN 4.1) x 3 global tags, some product directories missing; every "
        "command is a fresh forked child; a history is non-trivial when at least 3 of its commands change the database "
        "and at least one is refused or finds nothing; distinct = distinct history digests; thorough tier: also every "
        "history of length 2 over a 36-command alphabet")
TRUSTED = ["fork-per-command runner, audit-log mtime normaliser and the Database-only reader of harness/lib_db.py",
           "version names are single-component (the model orders listings by string order; C10 owns version order)",
           "all stacks writable, global tags only (user tags not modelled)"]
ASSUMPTIONS = ["a tag (tag, product, flavor) is one designation on the whole EUPS_PATH (DESIGN 6 C06, reading)",
               "two table files are the same table when their bytes are (the contents of the universe differ in length, so "
               "that filecmp's shallow comparison cannot tie); table files declare no options and no dependencies"]

# the functions the model mirrors (harness/fingerprint.py): a changed fingerprint makes the quick tier run with the thorough case budget
MIRRORS = [
    ('python/eups/Eups.py', 'Eups.declare'),
    ('python/eups/Eups.py', 'Eups.undeclare'),
    ('python/eups/Eups.py', 'Eups.assignTag'),
    ('python/eups/Eups.py', 'Eups.unassignTag'),
    ('python/eups/Eups.py', 'Eups.remove'),
    ('python/eups/Eups.py', 'Eups._remove'),
    ('python/eups/Eups.py', 'Eups.findProducts'),
    ('python/eups/Eups.py', 'Eups.findProduct'),
    ('python/eups/Eups.py', 'Eups.__init__'),
    ('python/eups/Eups.py', 'Eups._setProductStack_fromCache'),
    ('python/eups/Eups.py', 'Eups.findTaggedProduct'),
    ('python/eups/db/Database.py', '*'),
    ('python/eups/db/VersionFile.py', '*'),
    ('python/eups/db/ChainFile.py', '*'),
    ('python/eups/utils.py', 'isSubpath'),
    ('python/eups/Product.py', 'Product.resolvePaths'),
    ('python/eups/Eups.py', 'Eups.isSetup'),
]

WORKERS = int(os.environ.get("VERIF_WORKERS", "12"))
EMPTY = {"decls": [], "tags": []}


def _run_one(case):
    try:
        return lib_db.run_history(case)
    except Exception as e:  # noqa
        import traceback
        return {"error": "%r\n%s" % (e, traceback.format_exc()[-1500:])}


def kind_of(c):
    op = c["op"]
    if op == "declare":
        k = "declare"
        if c.get("tag"):
            k += "_tag"
        if c.get("dir") is None:
            k += "_nodir"
        return k
    if op == "undeclare":
        if c.get("tag"):
            return "undeclare_vat" if c.get("vat") else "untag"
        return "undeclare"
    return op


def d16_class(cmd, rec, prev, real, dirs):
    """class predicate of D16 (repaired in 9143b09; kept so that a regression is named) for a command: (1) it accepted the cache of a stack (only its native flavor
    loaded) that declares the command's product in a fallback flavor, and (2) the reference, shown only the
    flavors the command loaded, implies exactly what the implementation did"""
    f = cmd.get("flavor", "Linux")
    loaded = rec.get("loaded")
    if not loaded:
        return False
    hidden = any(fl == [f] and any(d[0] == si and d[1] == cmd.get("name") and d[3] != f and d[3] in fallbacks(f)
                                   for d in prev["decls"]) for si, fl in enumerate(loaded))
    if not hidden:
        return False
    r = Ref(dirs, lib_db.TFILES)
    r.load(prev)
    out = r.apply(cmd, loaded=loaded)
    return out == rec["out"] and common.jdump(r.listing()) == common.jdump(real)


def _ref_with(switch, cmd, prev, dirs, ref_before):
    r = Ref(dirs, lib_db.TFILES)
    r.load(prev)
    r.dirs = set(ref_before["dirs"])
    r.extras = {k: dict(v) for k, v in ref_before["extras"].items()}
    setattr(r, switch, True)
    return r.apply(cmd), r.listing()


def d38_class(cmd, rec, prev, real, dirs, ref_before):
    """class predicate of D38: `declare` takes ANY table path below the database directory of the stack for the
    declaration's own interned table (`isSubpath(tablefile, dbpath)`): the reference, told to do the same, implies
    exactly what the implementation did (and the plain reference does not)"""
    if cmd["op"] != "declare":
        return False
    out, listing = _ref_with("any_path_below_ups_db_is_own", cmd, prev, dirs, ref_before)
    return out == rec["out"] and common.jdump(listing) == common.jdump(real)


def d39_class(cmd, rec, prev, real, dirs, ref_before):
    """class predicate of D39: a redeclaration with the table given as a stream (no force): the implementation compares
    a streamed table only as an external file, and not at all when the version has no extra directory: the reference,
    told not to compare the bytes of a streamed table with the declared table, implies exactly what the
    implementation did (and the plain reference does not)"""
    t = cmd.get("table")
    if cmd["op"] != "declare" or not t or t[0] != "stream":
        return False
    out, listing = _ref_with("streamed_table_not_compared", cmd, prev, dirs, ref_before)
    return out == rec["out"] and common.jdump(listing) == common.jdump(real)


def d44_class(cmd, rec, prev, real, dirs, ref_before):
    """class predicate of D44: undeclare / remove while the environment says a version of the product is set up for a
    flavor that an instance of the command's flavor does not look at (Linux, for a generic process): the implementation
    refuses when its in-memory stack happens to hold that flavor (a stack rebuilt from the database holds every flavor,
    one read from an accepted cache only the needed ones): the reference, told that the instance knows the set-up
    flavor, implies exactly what the implementation did (and the plain reference does not)"""
    su = cmd.get("setup")
    if cmd["op"] not in ("undeclare", "remove") or not su or su[1] in fallbacks(cmd.get("flavor", "Linux")):
        return False
    out, listing = _ref_with("foreign_setup_flavor_known", cmd, prev, dirs, ref_before)
    return out == rec["out"] and common.jdump(listing) == common.jdump(real)


def d32_class(cmd, rec, want, real):
    """class predicate of D32: a direct Eups.assignTag succeeded and the only difference from what the history
    implies is that the tag is still assigned to the product and flavor in other stacks"""
    if cmd["op"] != "assignTag" or rec["out"] != "ok":
        return False
    if common.jdump(want["decls"]) != common.jdump(real["decls"]):
        return False
    w, r = set(map(tuple, want["tags"])), set(map(tuple, real["tags"]))
    f = cmd.get("flavor", "Linux")
    return not (w - r) and bool(r - w) and all(x[1] == cmd["tag"] and x[2] == cmd["name"] and x[3] == f for x in r - w)


def observations(rec, m):
    """(implementation, model) observables of one step: outcome, flavors loaded per stack, reader's listing"""
    raw = {"vfiles": sorted(rec["raw"]["vfiles"]), "cfiles": sorted(rec["raw"]["cfiles"])} if "raw" in rec else None
    impl_obs = {"out": rec["out"], "loaded": rec.get("loaded"), "view": rec.get("view"), "db": rec["db"], "raw": raw}
    has = rec.get("loaded") is not None
    model_obs = None if m is None else {"out": m["out"], "loaded": m["loaded"] if has else None,
                                        "view": m["view"] if has else None, "db": m["db"],
                                        "raw": m.get("raw") if raw is not None else None}
    if m is not None and m.get("crashed") and rec["out"] == "Crashed":
        model_obs["out"] = "Crashed"
    if "extras" in rec:
        impl_obs["extras"] = rec["extras"]
        if model_obs is not None:
            model_obs["extras"] = m.get("extras")
    if "would" in rec:
        impl_obs["would"] = rec["would"]
        if model_obs is not None:
            model_obs["would"] = m.get("would")
    if "calls" in rec:      # the Database mutators / rmtree / copyfile the command really called, against the model's effects
        impl_obs["calls"] = rec["calls"]
        if model_obs is not None:
            model_obs["calls"] = lib_db.model_calls(m.get("trace"))
    return impl_obs, model_obs


def oracle_i(ctx, i, sub, rec, impl_obs, model_obs):
    if model_obs is not None and common.jdump(model_obs) != common.jdump(impl_obs):
        which = [k for k in ("out", "loaded", "view", "db", "raw", "would", "extras", "calls")
                 if common.jdump(model_obs.get(k)) != common.jdump(impl_obs.get(k))]
        ctx.disagree("+".join(which), sub, impl_obs, model_obs, note="step %d %s" % (i, rec.get("detail", "")))
        return False
    return True


def check_case(ctx, case, steps, msteps):
    """Both oracles on one history.  steps = implementation records, msteps = model records."""
    dirs = [d for d in lib_db.all_dirs() if d not in case.get("missing", [])]
    ref = Ref(dirs, lib_db.TFILES)
    prev = EMPTY
    nchange = nerr = 0
    seen_streams = {}
    inp = {"missing": case.get("missing", []), "cmds": case["cmds"]}
    for i, (cmd, rec) in enumerate(zip(case["cmds"], steps)):
        m = msteps[i] if msteps and i < len(msteps) else None
        real = rec["db"]
        sub = {"missing": inp["missing"], "cmds": case["cmds"][:i + 1]}
        impl_obs, model_obs = observations(rec, m)
        ctx.hist("cmd=%s/%s" % (kind_of(cmd), rec["out"]))
        if cmd.get("noaction"):
            ctx.hist("dry-run")
        if cmd.get("ext"):
            ctx.hist("declare with external files/%s" % rec["out"])
        if "error" in real:
            ctx.fail("reader_total", sub, impl_obs, model_obs, note="fresh reader raised %s" % (real["error"],))
            return
        if real != prev:
            nchange += 1
        if rec["out"] != "ok":
            nerr += 1
        if cmd["op"] in ("undeclare", "remove") and rec["out"] == "ok" and not cmd.get("noaction"):
            gone = {tuple(d[:4]) for d in prev["decls"]} - {tuple(d[:4]) for d in real["decls"]}
            if any((t[0], t[2], t[4], t[3]) in gone and not t[1].replace("_", "a").isalnum() for t in prev["tags"]):
                ctx.hist("undeclared or removed a version carrying a tag with non-word characters")
        # ---- oracle (i) ---------------------------------------------------------------------------
        oracle_i(ctx, i, sub, rec, impl_obs, model_obs)
        # ---- oracle (ii): state clauses ------------------------------------------------------------
        dt = dangling_tags(real)
        if dt:
            ctx.fail("no_dangling_tag", sub, impl_obs, model_obs, note="tags on undeclared versions: %s" % dt)
        dtf = dangling_tags(rec["files"]) if isinstance(rec.get("files"), dict) else None
        if dtf and not dt:
            ctx.fail("no_dangling_tag/files", sub, impl_obs, model_obs, note="chain files naming undeclared versions (raw parse of ups_db): %s" % dtf)
        dk = duplicate_keys(real)
        if dk:
            ctx.fail("unique_keys", sub, impl_obs, model_obs, note="duplicate keys: %s" % dk)
        if real != rec["files"]:
            ctx.fail("reader_equals_files", sub, impl_obs, model_obs,
                     note="reader %s / raw files %s" % (common.jdump(real)[:300], common.jdump(rec["files"])[:300]))
        if rec["raw"]["other"]:
            ctx.fail("no_stray_files", sub, impl_obs, model_obs, note="unexpected entries in ups_db: %s" % rec["raw"]["other"])
        fb = frame_breaks(cmd, prev, real)
        if fb:
            ctx.fail("frame", sub, impl_obs, model_obs, note="changed outside the command's keys: %s" % (fb[:6],))
        if rec["out"] == "Refused" and real != prev:
            ctx.fail("refused_is_noop", sub, impl_obs, model_obs, note="a refused command changed the database")
        if cmd.get("noaction") and real != prev:
            ctx.fail("dry_run_is_noop", sub, impl_obs, model_obs, note="a dry run changed the database")
        # ---- oracle (ii): what the history implies ---------------------------------------------------
        ref_before = {"dirs": set(ref.dirs), "extras": {k: dict(v) for k, v in ref.extras.items()}}
        want_out = ref.apply(cmd)
        want = ref.listing()
        if common.jdump(want) != common.jdump(real) or want_out != rec["out"]:
            cls = None
            if d32_class(cmd, rec, want, real):
                cls = "D32"
            elif d16_class(cmd, rec, prev, real, dirs):
                cls = "D16"
            elif d39_class(cmd, rec, prev, real, dirs, ref_before):
                cls = "D39"
            elif d38_class(cmd, rec, prev, real, dirs, ref_before):
                cls = "D38"
            elif d44_class(cmd, rec, prev, real, dirs, ref_before):
                cls = "D44"
            dd = sorted(set(map(common.jdump, want["decls"])) ^ set(map(common.jdump, real["decls"])))
            td = sorted(set(map(common.jdump, want["tags"])) ^ set(map(common.jdump, real["tags"])))
            ctx.fail("history_implies/" + kind_of(cmd), sub, impl_obs, model_obs, finding=cls,
                     note="outcome %s (implied %s); declarations differing %s; tags differing %s" % (rec["out"], want_out, dd[:4], td[:4]))
            ref.load(real)                       # go on from the state the implementation is in: records and extra files
            if "extras" in rec:
                ref.load_extras(rec["extras"])
        elif rec["out"] == "ok" and not cmd.get("noaction") and cmd["op"] in ("declare", "assignTag") and \
                (cmd.get("tag") or cmd["op"] == "assignTag"):
            ctx.hist("tag-moved")
        # ---- oracle (ii): an interned table holds the bytes it was declared with -------------------------
        if "extras" in rec:
            on_disk = {(x[0], x[2], x[3], x[1]): x[5] for x in rec["extras"] if x[4] == "ups/%s.table" % x[2]}
            for d in real["decls"]:
                if d[5] != "interned":
                    continue
                key = (d[0], d[1], d[2], d[3])
                if key not in ref.decl or ref.decl[key][1] != "interned":
                    continue
                have, implied = on_disk.get(key), ref.table_content(key)
                if have != implied:
                    st = cmd.get("table")
                    cls = "D39" if (cmd["op"] == "declare" and st and st[0] == "stream" and not cmd.get("force") and
                                    key in {(p[0], p[1], p[2], p[3]) for p in prev["decls"]}) else None
                    ctx.fail("history_implies/interned_table_content", sub, dict(impl_obs, content_on_disk=have),
                             None if model_obs is None else dict(model_obs, content_on_disk=have), finding=cls,
                             note="%s: the interned table holds content %s, the history implies %s" % (list(key), have, implied))
                    ref.load_extras(rec["extras"])
            t = cmd.get("table")
            if cmd["op"] == "declare" and rec["out"] == "ok" and t and t[0] == "stream" and not cmd.get("noaction"):
                k2 = None
                for d in real["decls"]:
                    if d[1] == cmd["name"] and d[2] == cmd["version"] and d[3] == cmd.get("flavor", "Linux") and d[5] == "interned":
                        k2 = (d[0], d[1], d[2], d[3])
                if k2 is not None:
                    was = seen_streams.get(k2)
                    if was is not None and was != t[1]:
                        ctx.hist("stream over a table interned before with other content/%s" %
                                 ("forced" if cmd.get("force") else "after undeclare"))
                    seen_streams[k2] = t[1]
        prev = real
    nontrivial = nchange >= 3 and nerr >= 1
    ctx.case(key=inp, nontrivial=nontrivial,
             sample={"input": inp, "impl_last": steps[-1]["db"] if steps else None} if ctx.evaluations % 97 == 0 else None)
    ctx.hist("len=%02d-%02d" % (len(case["cmds"]) // 10 * 10, len(case["cmds"]) // 10 * 10 + 9))


def corpus_cases(pid="C06"):
    d = os.path.join(common.VERIF, "corpus", pid)
    out = []
    if os.path.isdir(d):
        for f in sorted(os.listdir(d)):
            if f.endswith(".json"):
                with open(os.path.join(d, f)) as fh:
                    c = json.load(fh)
                c["_corpus"] = f
                out.append(c)
    return out


def evaluate(ctx, cases):
    impl = parallel_map(_run_one, cases, workers=WORKERS)
    answers = ctx.lean.ask_many([lib_db.model_request(c) for c in cases])
    for c, steps, ans in zip(cases, impl, answers):
        if isinstance(steps, dict):
            raise common.InfraError("runner failed: %s" % steps["error"])
        check_case(ctx, c, steps, lib_db.model_steps(ans))


def small_alphabet():
    """every command of a tiny universe: product p, versions 1-2, both flavors, both stacks, tag beta"""
    out = []
    for f in lib_db.FLAVS:
        for v in ("1", "2"):
            for si in range(lib_db.NSTACKS):
                for t in (None, "beta"):
                    out.append({"op": "declare", "user": "A", "flavor": f, "name": "p", "version": v,
                                "dir": [si, lib_db.rel_of(f, "p", v)], "tag": t})
            out.append({"op": "declare", "user": "A", "flavor": f, "name": "p", "version": v, "tag": "beta"})
            out.append({"op": "assignTag", "user": "A", "flavor": f, "name": "p", "version": v, "tag": "beta"})
        for v in ("1", "2", None):
            out.append({"op": "undeclare", "user": "A", "flavor": f, "name": "p", "version": v})
        for v in ("1", None):
            out.append({"op": "undeclare", "user": "A", "flavor": f, "name": "p", "version": v, "tag": "beta"})
        out.append({"op": "undeclare", "user": "A", "flavor": f, "name": "p", "tag": "beta", "vat": True})
    return out


def exhaustive(ctx):
    """thorough tier: every history of length 2 over the small alphabet, and a sample of those of length 3"""
    import itertools
    al = small_alphabet()
    ctx.hist("exhaustive alphabet", len(al))
    pairs = [{"missing": [], "cmds": [dict(a), dict(b)]} for a, b in itertools.product(al, al)]
    for i in range(0, len(pairs), 120):
        if ctx.out_of_time():
            return
        evaluate(ctx, pairs[i:i + 120])
    ctx.hist("exhaustive length-2 histories", len(pairs))
    ctx.note("every history of length 2 over an alphabet of %d commands was run (%d histories)" % (len(al), len(pairs)))
    for _ in range(50):
        if ctx.out_of_time():
            return
        evaluate(ctx, [{"missing": [], "cmds": [dict(ctx.rng.choice(al)) for _ in range(3)]} for _ in range(120)])


def run(ctx):
    cases = corpus_cases()
    ctx.hist("corpus", len(cases))
    evaluate(ctx, cases)
    n = ctx.n(2000, 15000)
    done = 0
    soft = ctx.t0 + (70 if ctx.tier == "quick" and not ctx.escalated else 1e9)   # as many histories as fit in ~100 s wall
    while done < n and not ctx.out_of_time() and time.time() < soft:
        k = min(96, n - done)
        evaluate(ctx, [lib_db.gen_history(ctx.rng, ctx.rng.randint(5, 40)) for _ in range(k)])
        done += k
    if ctx.evaluations and ctx.distinct_nontrivial < ctx.evaluations * 0.3:
        raise common.InfraError("degenerate distribution: %d non-trivial of %d" % (ctx.distinct_nontrivial, ctx.evaluations))
    if ctx.evaluations > 60 and not (ctx.disagreements or any(not f.get("finding_class") for f in ctx.failures)):
        floors = {"stream over a table interned before with other content/after undeclare": 5,
                  "stream over a table interned before with other content/forced": 5,
                  "undeclared or removed a version carrying a tag with non-word characters": 5}
        low = {k: ctx.histogram.get(k, 0) for k, v in floors.items() if ctx.histogram.get(k, 0) < v}
        if low:
            raise common.InfraError("degenerate distribution: %s in %d histories" % (low, ctx.evaluations))
    if ctx.tier == "thorough":
        exhaustive(ctx)
    shrink_failures(ctx)
    moved = ctx.histogram.get("tag-moved", 0)
    if ctx.evaluations > 50 and moved < ctx.evaluations:
        raise common.InfraError("degenerate distribution: only %d tag moves in %d histories" % (moved, ctx.evaluations))


def replay(ctx, rp):
    common.import_eups()
    case = rp["input"]
    steps = _run_one(case)
    ans = ctx.lean.ask(lib_db.model_request(case))
    ms = lib_db.model_steps(ans)
    sub = common.Ctx("C06", "quick", 0, 60)
    check_case(sub, case, steps, ms)
    last = steps[-1] if steps else {}
    return {"input": case,
            "impl_output": {"out": last.get("out"), "loaded": last.get("loaded"), "db": last.get("db")},
            "model_output": {"out": ms[-1]["out"], "loaded": ms[-1]["loaded"], "db": ms[-1]["db"]} if ms else None,
            "agree": not sub.disagreements,
            "disagreements": [{"observable": d["observable"], "note": d["note"]} for d in sub.disagreements],
            "fails": [{"clause": f["clause"], "class": f["finding_class"], "detail": f["note"]} for f in sub.failures]}


# ---- shrinking -----------------------------------------------------------------------------------

def make_shrinker(pid, run_one, check, m):
    """delta-debugging of a failing history for the harness `check` of property `pid` (the failing command stays
    last; the failure must keep its clause and stay at the last command)"""

    def evaluate_one(ctx, case):
        steps = run_one(case)
        if isinstance(steps, dict):
            return None
        ms = lib_db.model_steps(ctx.lean.ask(lib_db.model_request(case, m=m)))
        sub = common.Ctx(pid, "quick", 0, 60)
        check(sub, case, steps, ms)
        return sub

    def fails_with(ctx, case, clause):
        sub = evaluate_one(ctx, case)
        last = len(case["cmds"])
        if sub is None:
            return None
        for f in sub.failures:
            if f["clause"] == clause and len(f["input"]["cmds"]) == last:
                return f
        return None

    def shrink(ctx, inp, clause, max_tests=40, deadline=None):
        cmds = inp["cmds"]
        head, last = cmds[:-1], cmds[-1]

        def still(sub):
            if deadline and time.time() > deadline:
                return False
            return fails_with(ctx, {"missing": inp["missing"], "cmds": list(sub) + [last]}, clause) is not None
        if head and still([]):
            head = []
        elif len(head) >= 2:
            head = common.ddmin(head, still, max_tests=max_tests)
        out = {"missing": inp["missing"], "cmds": head + [last]}
        if inp["missing"] and fails_with(ctx, {"missing": [], "cmds": out["cmds"]}, clause):
            out["missing"] = []
        return out

    def shrink_failures(ctx, max_clauses=3, seconds=45):
        """replace the first failure of up to `max_clauses` clauses that will be reported as violations by a
        shrunk one (same clause, fresh outputs); the others stay as found"""
        deadline = time.time() + seconds
        done = set()
        for f in list(ctx.failures):
            agrees = f.get("model_output") is not None and common.jdump(f["model_output"]) == common.jdump(f["impl_output"])
            if f.get("finding_class") and agrees:
                continue
            if f["clause"] in done or len(done) >= max_clauses or time.time() > deadline:
                continue
            done.add(f["clause"])
            try:
                small = shrink(ctx, f["input"], f["clause"], deadline=deadline)
                g = fails_with(ctx, small, f["clause"])
            except Exception:  # noqa: shrinking is best effort
                g = None
            if g is not None and len(small["cmds"]) <= len(f["input"]["cmds"]):
                g = dict(g)
                g["note"] = (g.get("note", "") + " [shrunk from %d commands]" % len(f["input"]["cmds"])).strip()
                ctx.failures[ctx.failures.index(f)] = g
    return fails_with, shrink, shrink_failures


fails_with, shrink, shrink_failures = make_shrinker("C06", _run_one, check_case, "c06")
