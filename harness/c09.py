"""C09 — exclusive database locks exclude every other holder under all interleavings.

Implementation: the real `eups.lock.takeLocks` / `giveLocks` (and the `atexit` handler takeLocks registers) run by
real processes whose file-system calls are released one at a time by a scheduler (harness/lib_lockgate.py).
Model: lean/EupsModel/Model/LockR.lean, LockPathR.lean (the repaired protocol: lock file first, then the look at the
others; withdrawal; tolerant rmdir; no exit without the lock) through the driver handler "c09" (`run`/`runpath`: same
schedule, per step the call and its result class; `explore`: the reachable state graph of a configuration and a set of
schedules taking every transition).
Oracle (ii), from the real run alone: at no scheduling point are two unrelated processes in their command body with
one of them holding an exclusive lock (no finding class is left: any such point is a violation); a process in its body
without a lock on a stack of its path counts as running unlocked; when every process has finished nothing is left in
the stack; no release raises; on schedules whose acquisition and release phases do not overlap, readers share, a free
lock is granted, a child re-enters the lock of its parent and an incompatible request is refused.
"""
import json
import os

from . import common
from . import lib_lockgate as G
from .common import parallel_map

RULE = ("a case = (configuration: 2-5 processes with kind shared/exclusive, optional EUPS_LOCK_PID parent, ntry, login name "
        "(dotted, dashed, numeric, ... or the real one; differing between processes), "
        "release by giveLocks or only at exit, default or absolute lockDirectoryBase; schedule: list of process "
        "indices, each entry releases one file-system call of that real process); sources: corpus witnesses, the "
        "transition cover of the model's reachable state graph for every 2-process configuration (all distinct "
        "interleavings up to model-state identity), random 3-4-process schedules with bursts, phase-atomic orders of "
        "complete acquisitions/releases, several stacks, real command lines with -Z/-z before/after the command word; non-trivial = at least two processes were between their first call and "
        "their last at the same time, or a request was refused/failed; distinct = distinct (configuration, executed "
        "schedule)")
TRUSTED = ["the step gate serialises the file-system calls of the lockers: one call = one atomic step (true parallelism "
           "inside a system call is not exhibited)",
           "POSIX mkdir/open(O_EXCL)/unlink/rmdir atomic; glob/os.walk see a consistent snapshot",
           "directory listings are returned newest lock file first (the gate sorts them; POSIX leaves the order open) — "
           "matters only when the second 'exclusive*' listing holds several entries",
           "process identity and environment inheritance (EUPS_LOCK_PID is set by the harness to the parent's real pid)"]
ASSUMPTIONS = ["locking enabled (hooks.config.site.lockDirectoryBase is the "
               "default '__UPS_DB__' or an absolute path; with None or --nolocks takeLocks makes no call at all, checked separately)",
               "a process takes the lock once; signals (SIGINT/SIGTERM, for the handler takeLocks installs) are delivered to command bodies only",
               "stack directory writable (the EACCES branch of takeLocks is not exercised)",
               "related = one process started with the other's pid in EUPS_LOCK_PID; two children of one holder are unrelated",
               "the elements of a command's path are distinct (Eups.setEupsPath removes duplicates)"]

# what the models mirror (fingerprints: a change of any of these escalates the quick tier's case budget)
MIRRORS = [("python/eups/lock.py", "*"), ("python/eups/setupcmd.py", "*"),
           ("python/eups/cmd.py", "EupsCmd.execute"), ("python/eups/cmd.py", "EupsCmd.run"),
           ("python/eups/cmd.py", "AdminCmd.execute"), ("python/eups/cmd.py", "DistribCmd.execute"),
           ("python/eups/cmd.py", "EupsCmd.createEups"), ("python/eups/cmd.py", "EupsCmd.addOptions"),
           ("python/eups/cmd.py", "EupsCmd.__init__"), ("python/eups/cmd.py", "register"),
           ("python/eups/cmd.py", "makeEupsCmd"), ("python/eups/Eups.py", "Eups.setEupsPath"),
           ("python/eups/utils.py", "getUserName")]

CORPUS = os.path.join(common.VERIF, "corpus", "C09")
WORKERS = 4


def P(kind, lp=None, tries=0, explicit=True, user=None):
    p = {"kind": kind, "lp": lp, "tries": tries, "explicit": explicit}
    if user is not None:
        p["user"] = user          # login name the locker runs under (part of its lock file's name); None: the real one
    return p


# login names: lock files are called <kind>-<name>.<pid> and are recognised by parsing that back, so names with dots,
# dashes, digits, a numeric last component, an underscore, a blank must all work — and differ from process to process
USERS = ["jane.doe", "svc-build", "u1234", "7up", "a.b-c.9", "dr.who.2", "x_y", "exclusive-me", "o neil", "shared"]


def pick_user(rng):
    return rng.choice(USERS) if rng.random() < 0.6 else None


# ---- implementation -----------------------------------------------------------------------------

def run_impl(case):
    try:
        return G.run_schedule(case)
    except G.GateTimeout:
        pass
    # a locker was silent for STEP_TIMEOUT seconds: a loaded machine, or a lock.py that no longer terminates —
    # once more with a much longer patience before calling it the latter
    old = G.STEP_TIMEOUT
    G.STEP_TIMEOUT = 120.0
    try:
        return G.run_schedule(case)
    except G.GateTimeout as e:
        return {"executed": list(case["sched"]), "trace": [], "outcomes": ["timeout"], "mid": [], "residue": [],
                "violations": [], "error": str(e)}
    finally:
        G.STEP_TIMEOUT = old


def impl_view(r):
    """the observables compared with the model"""
    return {"trace": drop_refused(r)[1], "outcomes": r["outcomes"], "residue": r["residue"]}


# ---- model --------------------------------------------------------------------------------------

def is_path_case(case):
    return case.get("ndirs", 1) > 1 or any(p.get("argv") is not None for p in case["procs"])


def eff_path(p):
    """the stacks the locker can lock: a stack it cannot write to (`ro`) is skipped by takeLocks after one refused mkdir"""
    return [d for d in p.get("path", [0]) if d not in (p.get("ro") or [])]


def drop_refused(r):
    """Read-only stacks are tied to the model by reduction: the real run on a path with such stacks must be the model's
    run on the path without them, plus one refused `mkdir` (EACCES) per skipped stack (an exclusive request: followed by the listing of that — missing —
    lock directory, which it makes before it looks at the error).  Returns (executed, trace) without
    those steps."""
    drop, after = set(), {}
    for k, t in enumerate(r["trace"]):
        if t[1].startswith("mkdir") and t[2] == "EACCES":
            drop.add(k)
            after[t[0]] = "scan_all" + t[1][5:]      # an exclusive request lists the lockers before it looks at the errno
        elif after.get(t[0]) == t[1] and t[2] == "[]":
            drop.add(k)
            after.pop(t[0])
        elif t[1] != "-":
            after.pop(t[0], None)
    if not drop or len(r["trace"]) != len(r["executed"]):
        return r["executed"], r["trace"]
    keep = [k for k in range(len(r["trace"])) if k not in drop]
    return [r["executed"][k] for k in keep], [r["trace"][k] for k in keep]


def model_req(case, executed):
    if is_path_case(case):
        # kind "N" (no lock requested: lockType None, --nolocks, -h): a command with an empty path
        return {"m": "c09", "op": "runpath", "sched": executed, "ndirs": case.get("ndirs", 1),
                "procs": [{"kind": (p["kind"] if p["kind"] != "N" else "S"), "lp": p.get("lp"), "tries": p.get("tries", 0),
                           "path": (eff_path(p) if p["kind"] != "N" else []),
                           "explicit": p.get("explicit", True), "user": p.get("user")} for p in case["procs"]]}
    req = {"m": "c09", "op": "run", "sched": executed,
           "procs": [{"kind": p["kind"], "lp": p.get("lp"), "tries": p.get("tries", 0), "user": p.get("user")}
                     for p in case["procs"]]}
    if case.get("stale"):
        req["stale"] = case["stale"]
    return req


def model_view(ans):
    if "bad-op" in ans:
        return {"bad-op": ans["bad-op"]}
    if "listing" in ans:        # several stacks
        listing = [([G.LOCKDIR] + sorted(x for x in l if x != G.LOCKDIR)) if l else [] for l in ans["listing"]]
        return {"trace": ans["steps"], "outcomes": ans["pcs"], "residue": listing if any(listing) else []}
    residue = ([G.LOCKDIR] + sorted(ans["files"])) if ans["dir"] else []
    return {"trace": ans["steps"], "outcomes": ans["pcs"], "residue": residue}


# ---- oracle (ii) --------------------------------------------------------------------------------

def lifetimes_overlap(r, n):
    first, last = {}, {}
    for t, (i, call, _res, _v) in enumerate(r["trace"]):
        if call != "-":
            first.setdefault(i, t)
            last[i] = t
    ids = sorted(first)
    for a in ids:
        for b in ids:
            if a < b and first[a] < last[b] and first[b] < last[a]:
                return True
    return False


# lock type per command line, transcribed from the `register(...)` calls of cmd.py and from setupcmd.py:
# (kind, released by the command's own giveLocks).  The admin/distrib sub-commands take their locks in
# AdminCmd.execute / DistribCmd.execute, which discard the list: released by the exit handler only.
STACK_OPTS = ("-Z", "--database", "--with-eups", "-z", "--select-db")


def cmd_words(argv):
    """the command line without its stack options"""
    out, j = [], 0
    while j < len(argv):
        if argv[j] in STACK_OPTS:
            j += 2
        else:
            out.append(argv[j])
            j += 1
    return out


def expected_stacks(argv, env_path):
    """Which stacks the command line works on, hence must lock (Eups.setEupsPath as the documentation of -Z/-z has it):
    -Z LIST, anywhere on the line — before or after the command word —, replaces $EUPS_PATH (the last one wins);
    -z DIR keeps the elements with a path component DIR; duplicates are dropped.  Stacks are written $S<i> in LIST."""
    z = dbz = None
    for j, a in enumerate(argv[:-1]):
        if a in ("-Z", "--database", "--with-eups"):
            z = argv[j + 1]
        elif a in ("-z", "--select-db"):
            dbz = argv[j + 1]
    stacks = [int(x[2:]) for x in z.split(":")] if z is not None else list(env_path)
    if dbz is not None:
        stacks = [d for d in stacks if "stack%d" % d == dbz]
    out = []
    for d in stacks:
        if d not in out:
            out.append(d)
    return out


def cmd_spec(argv):
    argv = cmd_words(argv)
    if "--nolocks" in argv or "-h" in argv or (argv[0] == "setup" and "-N" in argv):
        return "N", True
    table = {"list": ("S", True), "tags": ("S", True), "uses": ("S", True), "declare": ("E", True), "undeclare": ("E", True),
             "remove": ("E", True), "flavor": ("N", True), "path": ("N", True), "flags": ("N", True), "vro": ("N", True),
             "setup": ("S", True), "admin buildCache": ("E", False), "admin clearCache": ("E", False),
             "admin listCache": ("S", False), "admin info": ("S", False), "admin clearLocks": ("N", True),
             "admin listLocks": ("N", True), "admin show": ("N", True)}
    key = " ".join(argv[:2]) if argv[0] in ("admin", "distrib") else argv[0]
    return table[key]


COMMANDS = [["list"], ["tags"], ["uses", "foo"], ["declare", "prod%d", "1.0", "-r", "none", "-m", "none"],
            ["undeclare", "prod%d", "1.0"], ["remove", "prod%d", "1.0"], ["flavor"], ["path"], ["vro"],
            ["setup", "foo"], ["setup", "-N", "foo"], ["list", "--nolocks"], ["declare", "-h"],
            ["admin", "buildCache"], ["admin", "clearCache"], ["admin", "listCache"], ["admin", "info", "foo"],
            ["admin", "listLocks"]]


def cmd_proc(i, argv, env_path, user=None):
    """env_path: the stacks on the command's $EUPS_PATH; `path` = the stacks it must lock (model and oracle)"""
    argv = [a % i if "%d" in a else a for a in argv]
    kind, explicit = cmd_spec(argv)
    pr = P(kind, explicit=explicit, tries=9, user=user)         # the command line never passes ntry: default 10 attempts
    pr["argv"] = argv
    pr["env_path"] = list(env_path)
    pr["path"] = expected_stacks(argv, env_path)
    return pr


def with_stack_option(argv, opt, value, before):
    """put `opt value` before the command word or at the end of the line (setup: always after the tool's name)"""
    if before and argv[0] != "setup":
        return [opt, value] + list(argv)
    if before:
        return [argv[0], opt, value] + list(argv[1:])
    return list(argv) + [opt, value]


def stack_option_cases():
    """which stacks a command locks: -Z / -z before and after the command word, naming a stack on or off $EUPS_PATH,
    for updating and reading commands; then an updater against a reader on a stack that is not on $EUPS_PATH"""
    cases = []
    cmds = [COMMANDS[3], ["undeclare", "prod%d", "1.0"], ["list"], ["tags"], ["setup", "foo"], ["admin", "buildCache"],
            ["admin", "listCache"]]
    variants = [([0, 1], "-Z", "$S2"), ([0, 1], "-Z", "$S1"), ([0, 1], "-z", "stack1"), ([0], "--database", "$S1:$S2"),
                ([0, 1, 2], "--select-db", "stack2"), ([1], "-Z", "$S0:$S2:$S0")]
    for argv in cmds:
        for env_path, opt, val in variants:
            for before in (False, True):
                cases.append({"procs": [cmd_proc(0, with_stack_option(argv, opt, val, before), env_path)],
                              "sched": [], "ndirs": 3, "src": "cmdstack"})
    # a reader holds stack 2 (not on anybody's $EUPS_PATH); `declare ... -Z $S2` must wait for it and is refused
    for before in (False, True):
        cases.append({"procs": [cmd_proc(0, ["list", "-Z", "$S2"], [0, 1]),
                                cmd_proc(1, with_stack_option(COMMANDS[3], "-Z", "$S2", before), [0, 1])],
                      "sched": [0, 0, 0] + [1] * 34 + [0] * 6, "ndirs": 3, "src": "cmdstack"})
    return cases


def cmd_cases(rng, nrandom):
    """real command lines through cmd.py / setupcmd.py: each alone on one and two stacks, then contended pairs/triples"""
    cases = stack_option_cases()
    for argv in COMMANDS:
        for nd in (1, 2):
            cases.append({"procs": [cmd_proc(0, argv, list(range(nd)))], "sched": [], "ndirs": nd, "src": "cmd1"})
    # the scan-before-create race between `eups declare` and `eups list`
    cases.append({"procs": [cmd_proc(0, COMMANDS[3], [0]), cmd_proc(1, ["list"], [0])], "sched": [0, 1, 1, 1, 0, 1, 0],
                  "ndirs": 1, "src": "cmdrace"})
    # a command refused on the second stack gives the first one up again (D12e)
    cases.append({"procs": [cmd_proc(0, COMMANDS[3], [1]), cmd_proc(1, COMMANDS[3], [0, 1])],
                  "sched": [0, 0, 0] + [1] * 40, "ndirs": 2, "src": "cmdrace"})
    for _ in range(nrandom):
        nd = rng.choice([1, 2])
        n = rng.choice([2, 2, 3])
        procs = []
        for i in range(n):
            argv = rng.choice(COMMANDS)
            path = list(range(nd)) if rng.random() < 0.7 else [rng.randrange(nd)]
            if rng.random() < 0.35:
                opt, val = rng.choice([("-Z", "$S%d" % rng.randrange(nd)), ("-z", "stack%d" % rng.randrange(nd)),
                                       ("-Z", ":".join("$S%d" % d for d in rng.sample(range(nd), nd)))])
                argv = with_stack_option(argv, opt, val, rng.random() < 0.5)
            procs.append(cmd_proc(i, argv, path, user=pick_user(rng)))
        L = rng.randint(8, 16) * n
        sched = []
        while len(sched) < L:
            sched += [rng.randrange(n)] * rng.randint(1, 8)
        cases.append({"procs": procs, "sched": sched, "ndirs": nd, "src": "cmd%d" % n})
    return cases


def cmdline_req(sp, base):
    """the model's reading of one command line (Model/LockCmd.lean): command word(s), -h, --nolocks / setup -N, locking
    enabled, $EUPS_PATH, -Z, -z"""
    argv = sp["argv"]
    w = cmd_words(argv)
    z = dbz = None
    for j, a in enumerate(argv[:-1]):
        if a in ("-Z", "--database", "--with-eups"):
            z = [int(x[2:]) for x in argv[j + 1].split(":")]
        elif a in ("-z", "--select-db"):
            dbz = int(argv[j + 1][5:])
    name = " ".join(w[:2]) if w[0] in ("admin", "distrib") and len(w) > 1 else w[0]
    return {"m": "c09", "op": "cmdline", "cmd": name, "help": "-h" in w or "--help" in w,
            "nolocks": "--nolocks" in w or (w[0] == "setup" and "-N" in w), "enabled": base != "none",
            "env_path": list(sp.get("env_path", sp.get("path", [0]))), "Z": z, "z": dbz}


def cmd_table_check(ctx):
    """The registered lock type of EVERY command of the real command table (eups.cmd._cmdLookup, enumerated in a child)
    against the model's table (Model/LockCmd.lean): same commands, same lock types; and the property's sentence on the
    real table: a command the harness knows to update a stack is registered exclusive."""
    def real_table():
        common.import_eups()
        import eups.cmd
        import eups.lock as lock
        return {k: {lock.LOCK_EX: "E", lock.LOCK_SH: "S", None: None}.get(v[1], "?") for k, v in eups.cmd._cmdLookup.items()}
    res = common.in_child(real_table)
    if res[0] != "ok":
        raise common.InfraError("cannot read the command table: %r" % (res,))
    real = res[1]
    model = {e["name"]: e for e in ctx.lean.ask({"m": "c09", "op": "cmdtable"})}
    names = sorted(set(real) | (set(model) - {"setup"}))
    updaters = {"declare", "undeclare", "remove", "admin buildCache", "admin clearCache", "admin clearServerCache",
                "distrib clean", "distrib create", "distrib declare", "distrib install"}
    for nm in names:
        iv = real.get(nm, "not registered")
        mv = model[nm]["lock"] if nm in model else "not in the model"
        ctx.case(key={"cmdtable": nm}, nontrivial=True, sample=None)
        ctx.hist("src=cmdtable")
        if iv != mv:
            ctx.disagree("cmd_lock_table", {"command": nm}, iv, mv, note="registered lock type of '%s'" % nm)
        if nm in updaters and iv != "E":
            ctx.fail("updater_registered_exclusive", {"command": nm}, iv, mv,
                     note="'%s' updates a stack and is registered with lock type %r" % (nm, iv), finding=None)
        if nm in model and model[nm]["updates"] != (nm in updaters):
            ctx.disagree("cmd_updates_table", {"command": nm}, nm in updaters, model[nm]["updates"],
                         note="harness and model differ on whether '%s' updates a stack" % nm)
    ctx.hist("cmdtable_commands", len(names))
    if len(names) < 30:
        raise common.InfraError("command table has only %d entries" % len(names))


def residue_class(case, r):
    """No open finding about residue is left (D12f is repaired: giveLocks does not raise on the benign races and takeLocks
    has no exit that skips the exit handler): anything left behind is a violation."""
    return None


def oracle(case, r):
    """Yields (clause, finding class or None, detail) for every clause the real run breaks."""
    n = len(case["procs"])
    if r.get("error"):
        yield ("terminates", None, r["error"])
        return
    seen = set()
    for v in r["violations"]:
        key = tuple(sorted(v["pair"]))
        if key in seen:
            continue
        seen.add(key)
        a, b = v["pair"]
        what = "exclusive holder %d and process %d (%s) in their command bodies together after step %d" % (
            a, b, "unlocked" if v.get("unlocked") else "holding", v["step"])
        yield ("mutex", v["class"], what)
    ghosts = [(k, int(g)) for k, g in (case.get("stale") or [])]
    left = [x for x in r["residue"] if x not in ["%s%d" % (k, g) for k, g in ghosts]] if ghosts else r["residue"]
    if ghosts and left == [G.LOCKDIR] and len(left) < len(r["residue"]):
        left = []       # the lock of a killed process was never released: it, and its directory, are not residue of a release
    dead = r.get("sigkilled") or []
    if dead:
        # a locker that was killed outright released nothing: its own lock file, and the directory, are not residue of a release
        left = [x for x in left if x not in ["%s%d" % (case["procs"][i]["kind"], i) for i in dead]]
        if left == [G.LOCKDIR]:
            left = []
    if all(o in ("done", "killed") or o.startswith("failed") for o in r["outcomes"]) and left:
        yield ("no_residue", residue_class(case, r), "every process has finished and %r is left" % (r["residue"],))
    clears = [t for t, x in enumerate(r["trace"]) if x[1] == "clearLocks"]
    if clears:
        # after `eups admin clearLocks` the lock is free: a request that starts after it, alone, is granted
        t0 = clears[-1]
        rest = [x for x in r["trace"][t0 + 1:] if x[0] >= 0 and x[1] not in ("-", "signal", "sigkill")]
        if rest and rest[0][1] == "mkdir":
            p = rest[0][0]
            mine = [x[1] for x in rest if x[0] == p]
            alone = all(x[0] == p for x in rest[:len(mine)])        # its whole request ran before anybody else moved
            fresh = not any(x[0] == p and x[1] != "-" for x in r["trace"][:t0])
            if fresh and alone and "work" not in mine and r["outcomes"][p] == "failed:RuntimeError":
                yield ("clearLocks_frees", None, "process %d asked for the lock right after clearLocks, alone, and was refused: %r" % (p, mine[:6]))
    if ghosts:
        # a stale lock blocks: before the administrator clears it, nobody incompatible with it (and not its owner's child)
        # gets into its command body
        for t in r["trace"]:
            if t[1] == "clearLocks":
                break
            if t[1] == "work":
                sp = case["procs"][t[0]]
                for k, g in ghosts:
                    if sp.get("lp") != g and (k == "E" or sp["kind"] == "E"):
                        yield ("stale_lock_blocks", None, "process %d (%s) was in its command body beside the stale %s lock of %d" % (
                            t[0], sp["kind"], k, g))
    for o in r["outcomes"]:
        if o.startswith("crash") or o.startswith("pending") or o == "timeout":
            yield ("terminates", None, "process ended as %s" % o)
        if o.startswith("failed_release"):
            yield ("release_never_fails", None, "giveLocks raised: %s" % o)
    for i in r.get("resumed") or []:
        yield ("signal_ends_command", None, "process %d caught a signal in its command body, gave its locks up and carried on" % i)
    # takeLocks returned (the body ran): with a lock on every stack of the path, of the kind requested
    for i, sp in enumerate(case["procs"]):
        held = (r.get("held") or [None] * n)[i]
        if sp.get("argv") is None and held is not None and sp["kind"] != "N" and sorted(held) != sorted(eff_path(sp)):
            yield ("body_runs_locked", None, "takeLocks of process %d returned locks on stacks %r, its path is %r (read-only: %r)" % (
                i, held, sp.get("path", [0]), sp.get("ro") or []))
    # real command lines: the lock a command holds in its body is the one its kind demands, on every stack of its path
    for i, sp in enumerate(case["procs"]):
        if sp.get("argv") is None:
            continue
        kinds = (r.get("held_kinds") or [None] * n)[i]
        held = (r.get("held") or [None] * n)[i]
        if held is None:
            continue        # never reached its body
        # an updater holds an exclusive lock on the stack it updates: where did its declaration land?
        w = cmd_words(sp["argv"])
        if w[0] == "declare" and len(w) > 2 and r.get("products"):
            for d, prods in enumerate(r["products"]):
                if w[1] in prods and not (d in held and kinds[held.index(d)] == "E"):
                    yield ("updated_stack_locked", None, "%r declared %s in stack %d while holding %r on stacks %r" % (
                        sp["argv"], w[1], d, kinds, held))
        want = sp["kind"]
        if want == "N":
            if held or any(t[0] == i and t[1] not in ("work", "-") for t in r["trace"]):
                yield ("lock_type_of_command", None, "%r should not lock anything, holds %r" % (sp["argv"], kinds))
        else:
            trep = any(t[0] == i and t[1].startswith("exists_dir") and t[2] == "False" for t in r["trace"])
            if any(k != want for k in kinds) or (sorted(held) != sorted(sp["path"]) and not trep):
                yield ("lock_type_of_command", None, "%r should hold %s locks on stacks %r, holds %r on %r" % (
                    sp["argv"], want, sp["path"], kinds, held))
    if case.get("phases") and r.get("phase_steps"):
        # grants on a phase-atomic order, against a lock table kept from the implementation's own answers
        procs = case["procs"]
        holders = []
        for (ph, i), (t0, t1) in zip(case["phases"], r["phase_steps"]):
            if ph == "rel":
                if i in holders:
                    holders.remove(i)
                continue
            steps = r["trace"][t0:t1]
            # granted: the lock file was put in place and not withdrawn again in this phase
            got = any(s[1] == "create" and s[2] in ("ok", "EEXIST") for s in steps) and \
                  [s[1] for s in steps if s[1] in ("create", "isdir")][-1] == "create"
            others = [h for h in holders if h != i]
            unrelated = [h for h in others if not G.related(procs, i, h)]
            k = procs[i]["kind"]
            if not others:
                exp, clause = True, "free_lock_granted"
            elif k == "S" and all(procs[h]["kind"] == "S" for h in others):
                exp, clause = True, "readers_share"
            elif others == [procs[i].get("lp")]:
                exp, clause = True, "child_reenters_parent_lock"
            elif any(procs[h]["kind"] == "E" for h in unrelated) or (k == "E" and unrelated):
                exp, clause = False, "refused_when_incompatible"
            else:
                exp, clause = None, None
            if exp is True and not got:
                yield (clause, None, "request of process %d (%s) not granted while holders = %r" % (i, k, holders))
            if exp is False and got:
                yield (clause, None, "request of process %d (%s) granted while holders = %r" % (i, k, holders))
            if got:
                holders.append(i)


# ---- generators ---------------------------------------------------------------------------------

def corpus_cases():
    out = []
    if os.path.isdir(CORPUS):
        for f in sorted(os.listdir(CORPUS)):
            if f.endswith(".json"):
                with open(os.path.join(CORPUS, f)) as fh:
                    c = json.load(fh)
                c["_corpus"] = f
                out.append(c)
    return out


def two_proc_configs(tries_opts=(0, 1)):
    cfgs = []
    for k0 in "ES":
        for k1 in "ES":
            for lp in (None, "child"):
                for tr in tries_opts:
                    procs = [P(k0, tries=tr), P(k1, lp=(0 if lp else None), tries=tr)]
                    cfgs.append(procs)
    return cfgs


def three_proc_configs():
    cfgs = []
    for ks in ("EEE", "EES", "ESS", "SSS"):
        cfgs.append([P(k) for k in ks])
    cfgs.append([P("E"), P("E", lp=0), P("E")])
    cfgs.append([P("E"), P("S", lp=0), P("E")])
    cfgs.append([P("S"), P("E", lp=0), P("S")])
    cfgs.append([P("E"), P("E", lp=0), P("S", lp=0)])
    return cfgs


def explore_cases(ctx, cfgs, tag, limit=None, signals=False):
    reqs = [{"m": "c09", "op": "explore", "signals": signals, "max": 400000,
             "procs": [{"kind": p["kind"], "lp": p["lp"], "tries": p["tries"]} for p in procs]} for procs in cfgs]
    answers = ctx.lean.ask_many(reqs)
    cases = []
    for procs, a in zip(cfgs, answers):
        if "bad-op" in a or not a["full"]:
            raise common.InfraError("exploration of %r failed: %r" % (procs, a.get("bad-op", "state bound hit")))
        ctx.hist("explored_states", a["states"])
        ctx.hist("explored_transitions", a["edges"])
        ctx.explored_states = getattr(ctx, "explored_states", 0) + a["states"]
        ctx.explored_edges = getattr(ctx, "explored_edges", 0) + a["edges"]
        scheds = a["schedules"]
        if limit is not None and len(scheds) > limit:
            scheds = ctx.rng.sample(scheds, limit)
        for s in scheds:
            c = {"procs": procs, "sched": s, "src": tag}
            if any(x < 0 for x in s):
                c["signal"] = ctx.rng.choice(["TERM", "INT"])
            cases.append(c)
    return cases


def random_case(rng, n):
    procs = []
    for i in range(n):
        k = "E" if rng.random() < 0.5 else "S"
        lp = None
        roots = [j for j in range(i) if procs[j]["lp"] is None]
        if roots and rng.random() < 0.25:
            lp = rng.choice(roots)          # EUPS_LOCK_PID always names a process that started without it (never overwritten)
        elif rng.random() < 0.04:
            lp = n + 1                      # stale EUPS_LOCK_PID: the ancestor is not among the lockers
        procs.append(P(k, lp=lp, tries=rng.choice([0, 0, 0, 1, 2]), explicit=rng.random() < 0.85, user=pick_user(rng)))
    L = rng.randint(8, 16) * n
    sched = []
    if rng.random() < 0.6:
        while len(sched) < L:
            sched += [rng.randrange(n)] * rng.randint(1, 7)
    else:
        sched = [rng.randrange(n) for _ in range(L)]
    c = {"procs": procs, "sched": sched, "src": "random%d" % n}
    if rng.random() < 0.15:
        c["base"] = "abs"
    add_signals(rng, c, 0.15)
    if rng.random() < 0.12:
        # SIGKILL for one of them at an arbitrary point (mid-takeLocks, in the body, mid-giveLocks): it stops dead
        sched = list(c["sched"])
        sched.insert(rng.randint(1, max(1, len(sched) * 2 // 3)), G.EV_KILL + rng.randrange(n))
        c["sched"] = sched
    return c


def add_signals(rng, c, prob):
    """with probability prob: one or two signals (SIGTERM or SIGINT, the same for the whole case) for random processes at
    random points of the schedule; a signal is delivered only if the process is in its command body at that point"""
    if rng.random() >= prob:
        return
    n = len(c["procs"])
    c["signal"] = rng.choice(["TERM", "INT"])
    sched = list(c["sched"])
    for _ in range(rng.choice([1, 1, 2])):
        i = rng.randrange(n)
        # preferably soon after the process may have reached its body: after its k-th own entry, k around 3..6
        own = [t for t, x in enumerate(sched) if x == i]
        k = rng.randint(2, 7)
        pos = own[k] + 1 if len(own) > k and rng.random() < 0.8 else rng.randint(0, len(sched))
        sched.insert(pos, -(i + 1))
    c["sched"] = sched


def path_case(rng):
    """several stacks: every process locks its own ordered selection of them"""
    nd = rng.choice([2, 2, 2, 3])
    n = rng.choice([2, 2, 3, 3, 4])
    procs = []
    for i in range(n):
        k = "E" if rng.random() < 0.55 else "S"
        roots = [j for j in range(i) if procs[j]["lp"] is None]
        lp = rng.choice(roots) if (roots and rng.random() < 0.2) else None
        path = rng.sample(range(nd), rng.randint(1, nd))
        if rng.random() < 0.5:
            path.sort()
        pr = P(k, lp=lp, tries=rng.choice([0, 0, 1]), explicit=rng.random() < 0.8, user=pick_user(rng))
        pr["path"] = path
        procs.append(pr)
    L = rng.randint(10, 20) * n
    sched = []
    mode = rng.random()
    if mode < 0.35:
        # nearly sequential: whole commands one after the other with a little overlap (the plain refusal scenarios)
        order = list(range(n))
        rng.shuffle(order)
        for i in order:
            sched += [i] * rng.randint(3, 14)
    elif mode < 0.8:
        while len(sched) < L:
            sched += [rng.randrange(n)] * rng.randint(1, 9)
    else:
        sched = [rng.randrange(n) for _ in range(L)]
    c = {"procs": procs, "sched": sched, "ndirs": nd, "src": "path%d" % nd}
    if rng.random() < 0.15:
        c["base"] = "abs"
    add_signals(rng, c, 0.12)
    if "signal" not in c and rng.random() < 0.2:      # (not together with signals: the reduction below does not commute with them)
        # stacks nobody here may write to (a system-wide stack): takeLocks goes on without a lock there and must still
        # lock the others.  Read-only for every locker alike, so that no lock directory ever exists there (a lock
        # directory in a stack one cannot write to would make the creation of the lock file fail — outside the model)
        ros = rng.sample(range(nd), rng.randint(1, nd - 1) if nd > 1 else 1)
        for pr in procs:
            if set(pr["path"]) & set(ros):
                pr["ro"] = sorted(set(pr["path"]) & set(ros))
    return c


def signal_case(rng):
    """a holder is interrupted in its command body while others are in the middle of their requests"""
    n = rng.choice([2, 3, 3])
    nd = rng.choice([1, 1, 2])
    procs = []
    for i in range(n):
        k = rng.choice("ES") if i else rng.choice("EES")
        pr = P(k, lp=(0 if (i and rng.random() < 0.2) else None), tries=rng.choice([0, 1, 2]), explicit=rng.random() < 0.7,
               user=pick_user(rng))
        if nd > 1:
            pr["path"] = rng.sample(range(nd), rng.randint(1, nd)) if i else list(range(nd))
        procs.append(pr)
    first = 3 * len(procs[0].get("path", [0]))
    sched = [0] * (first - rng.choice([0, 0, 0, 1]))        # now and then the signal comes one call too early
    pre = []
    while n > 1 and len(pre) < rng.randint(0, 10):
        pre += [rng.randrange(1, n)] * rng.randint(1, 4)     # the others are in the middle of their requests
    if rng.random() < 0.15:
        pre.insert(rng.randint(0, len(pre)), 0)               # now and then the body is over when the signal comes
    rest = []
    while len(rest) < 12 * n:
        rest += [rng.randrange(n)] * rng.randint(1, 5)
    if rng.random() < 0.35:
        # the body is over and giveLocks has released m of the locks when the signal comes (D12i)
        m = rng.randint(0, len(procs[0].get("path", [0])) - 1)
        pre = pre + [0] + [0] * (4 * m)
    rest = pre + [-1] + rest
    if rng.random() < 0.3:
        rest.insert(rng.randint(0, len(rest)), -rng.randint(1, n))
    c = {"procs": procs, "sched": sched + rest, "src": "signal", "signal": rng.choice(["TERM", "INT"])}
    if nd > 1:
        c["ndirs"] = nd
    return c


def admin_case(rng):
    """a stale lock (file of a killed process), requests against it, `eups admin listLocks`, `eups admin clearLocks` (only
    while no live process is engaged: it is the administrator's override and spares nobody), requests after it"""
    gk = rng.choice("ES")
    procs = [P(rng.choice("ES"), tries=rng.choice([0, 1, 2]), explicit=rng.random() < 0.8, user=pick_user(rng)),
             P(rng.choice("ES"), tries=rng.choice([0, 1]), user=pick_user(rng))]
    sched = []
    if rng.random() < 0.4:
        procs.append(P(rng.choice("ES"), lp=9, tries=0))        # a child of the dead process re-enters its lock
        sched += [2] * 12
    sched = [G.EV_LIST] * rng.choice([0, 1]) + sched + [0] * 26 + [G.EV_LIST] * rng.choice([0, 1])
    if rng.random() < 0.75:
        sched += [G.EV_CLEAR, G.EV_LIST]
    sched += [1, 1, 1, G.EV_LIST] + [1] * 12
    if rng.random() < 0.3:
        sched += [G.EV_CLEAR, G.EV_LIST]
    return {"procs": procs, "stale": [[gk, 9]], "sched": sched, "src": "admin"}


def acq_signal_case(rng):
    """D12h: a command that has taken its locks on the earlier stacks of its path is interrupted during takeLocks — between
    two stacks, or in the retry wait for a contended later stack — and must leave nothing behind: a reader of the first
    stack, started afterwards, gets its lock"""
    nd = rng.choice([2, 2, 3])
    last = nd - 1
    ykind = rng.choice("EEES")
    procs = [P("E", explicit=rng.random() < 0.8), P(ykind, tries=rng.choice([1, 2, 3]), explicit=rng.random() < 0.8, user=pick_user(rng)),
             P(rng.choice("SSE"), user=pick_user(rng))]
    procs[0]["path"] = [last]                     # X holds the last stack
    procs[1]["path"] = list(range(nd))            # Y wants them all, in order
    procs[2]["path"] = [0]                        # Z comes afterwards, for the first one
    sched = [0, 0, 0]
    where = rng.choice(["between", "wait", "wait", "wait2"])
    took = rng.randint(1, last) if where == "between" else last       # stacks Y has locked when the signal comes
    sched += [1] * (3 * took)
    if where != "between":
        per = 3 if ykind == "E" else 0            # an exclusive request is turned away at the gate: mkdir, listing, listing
        sched += [1] * (per * (2 if where == "wait2" else 1))
    sched += [-2] + [1] * (4 * took + rng.choice([0, 2])) + [2] * 5 + [0] * 6 + [2] * 6
    c = {"procs": procs, "sched": sched, "ndirs": nd, "src": "acqsignal", "signal": rng.choice(["INT", "INT", "TERM"])}
    return c


def name_cases():
    """every login name of USERS on a phase-atomic order that needs the holder's file to be recognised: an exclusive
    holder keeps an unrelated reader out and lets its own children (under yet other names) re-enter"""
    cases = []
    for k, u in enumerate(USERS):
        v, w = USERS[(k + 1) % len(USERS)], USERS[(k + 3) % len(USERS)]
        procs = [P("E", user=u), P("S", user=v), P("E", lp=0, user=w), P("S", lp=0, user=u), P("S", user=None)]
        phases = [["acq", 0], ["acq", 1], ["acq", 2], ["rel", 2], ["acq", 3], ["acq", 4], ["rel", 3], ["rel", 0]]
        cases.append({"procs": procs, "phases": phases, "sched": [], "src": "names"})
        # a shared holder under that name keeps an unrelated updater out and lets another reader in
        procs = [P("S", user=u), P("E", user=v, tries=1), P("S", user=w), P("E", lp=0, user=v)]
        phases = [["acq", 0], ["acq", 1], ["acq", 2], ["rel", 2], ["acq", 3], ["rel", 3], ["acq", 1], ["rel", 0]]
        cases.append({"procs": procs, "phases": phases, "sched": [], "src": "names"})
    return cases


def phase_case(rng):
    n = rng.randint(2, 5)
    procs = []
    for i in range(n):
        k = "E" if rng.random() < 0.45 else "S"
        roots = [j for j in range(i) if procs[j]["lp"] is None]
        lp = rng.choice(roots) if (roots and rng.random() < 0.35) else None
        procs.append(P(k, lp=lp, tries=rng.choice([0, 0, 1]), explicit=rng.random() < 0.85, user=pick_user(rng)))
    phases, started, released = [], set(), set()
    for _ in range(rng.randint(n, 2 * n)):
        cand = [("acq", i) for i in range(n) if i not in started] + \
               [("rel", i) for i in started if i not in released]
        if not cand:
            break
        ph, i = rng.choice(cand)
        (started if ph == "acq" else released).add(i)
        phases.append([ph, i])
    return {"procs": procs, "phases": phases, "sched": [], "src": "phase"}


# ---- evaluation ---------------------------------------------------------------------------------

def trace_events(trace):
    """the race-handling paths of the repaired protocol that the real run went through (distribution guard)"""
    ev = set()
    last = {}
    for i, call, res, _v in trace:
        c = call.split("@")[0]
        prev = last.get(i)
        if c == "create" and res == "ENOENT":
            ev.add("create_found_directory_removed")
        if c == "rmdir" and res == "ENOTEMPTY":
            ev.add("rmdir_refused_directory_in_use")
        if c == "rmdir" and res == "ENOENT":
            ev.add("rmdir_found_directory_removed")
        if c == "isdir" and res == "False":
            ev.add("release_found_directory_removed")
        if c == "isdir" and prev in ("scan_all", "scan_ex"):
            ev.add("request_withdrawn")
        if c == "mkdir" and prev == "rmdir":
            ev.add("retry_after_withdrawal")
        if c == "mkdir" and prev == "create":
            ev.add("retry_after_directory_removed")
        if c == "mkdir" and res == "EEXIST":
            ev.add("mkdir_joined_existing_directory")
        last[i] = c
    return ev


def evaluate(ctx, cases):
    impl = parallel_map(run_case, cases, workers=WORKERS)
    reqs = [model_req(c, drop_refused(r)[0]) for c, r in zip(cases, impl)]
    answers = ctx.lean.ask_many(reqs)
    # the lock bracket of every real command line, as the model has it
    creqs = [(k, i, cmdline_req(sp, c.get("base", "default"))) for k, c in enumerate(cases)
             for i, sp in enumerate(c["procs"]) if sp.get("argv") is not None]
    cans = ctx.lean.ask_many([q for _k, _i, q in creqs])
    for (k, i, q), ca in zip(creqs, cans):
        c, r = cases[k], impl[k]
        held = (r.get("held") or [None] * len(c["procs"]))[i]
        kinds = (r.get("held_kinds") or [None] * len(c["procs"]))[i]
        inp = {"argv": c["procs"][i]["argv"], "env_path": c["procs"][i].get("env_path")}
        if "bad-op" in ca:
            ctx.disagree("cmd_bracket", inp, None, ca, note="the model does not know this command line")
            continue
        if held is not None and kinds is not None:
            iv = {"kind": (sorted(set(kinds))[0] if len(set(kinds)) == 1 else (None if not kinds else sorted(set(kinds)))),
                  "stacks": sorted(held)}
            mv = {"kind": ca["kind"] if ca["stacks"] else None, "stacks": sorted(ca["stacks"])}
            ctx.hist("cmd_bracket_compared")
            if iv != mv:
                ctx.disagree("cmd_bracket", inp, iv, mv, note="lock kind and locked stacks of the command in its body")
        ch = r.get("stack_changed")
        if ch and len(c["procs"]) == 1 and any(ch):
            ctx.hist("cmd_changed_a_stack")
            if not ca["updates"]:
                ctx.disagree("cmd_updates", inp, True, False, note="the command changed stack(s) %r; the model says it does not update" % (
                    [d for d, x in enumerate(ch) if x],))
            for d, x in enumerate(ch):
                if x and not (held is not None and d in held and kinds[held.index(d)] == "E"):
                    ctx.fail("updated_stack_locked", inp, {"changed": ch, "held": held, "kinds": kinds}, ca,
                             note="the command changed stack %d without holding an exclusive lock on it" % d, finding=None)
    for c, r, a in zip(cases, impl, answers):
        iv, mv = impl_view(r), model_view(a)
        inp = {"procs": c["procs"], "sched": r["executed"], "base": c.get("base", "default")}
        if c.get("stale"):
            inp["stale"] = c["stale"]
            ctx.hist("with_stale_lock")
            for t in r["trace"]:
                if t[1] in ("clearLocks", "listLocks"):
                    ctx.hist("admin=" + t[1])
        if c.get("signal"):
            inp["signal"] = c["signal"]
        for t in r["trace"]:
            if t[1] == "sigkill":
                ctx.hist("sigkill=" + t[2])
        if is_path_case(c):
            inp["ndirs"] = c.get("ndirs", 1)
        if c.get("phases"):
            inp["phases"] = c["phases"]
        n = len(c["procs"])
        refused = any(o.startswith("failed") for o in r["outcomes"])
        nontrivial = lifetimes_overlap(r, n) or refused
        ctx.case(key={"procs": c["procs"], "sched": r["executed"], "base": c.get("base", "default"), "ndirs": c.get("ndirs", 1)},
                 nontrivial=nontrivial,
                 sample={"input": inp, "outcomes": r["outcomes"], "violations": r["violations"][:2]}
                 if (ctx.evaluations % 499 == 0 or (r["violations"] and ctx.evaluations % 7 == 0)) else None)
        ctx.hist("src=" + c.get("src", "?"))
        ctx.hist("nprocs=%d" % n)
        ctx.hist("nstacks=%d" % c.get("ndirs", 1))
        ctx.hist("kinds=" + "".join(sorted(p["kind"] for p in c["procs"])))
        for p in c["procs"]:
            if p.get("argv") is not None:
                w = cmd_words(p["argv"])
                ctx.hist("cmd=" + " ".join(w[:2] if w[0] == "admin" else w[:1]) +
                         ("" if p["kind"] != "N" or w[0] in ("flavor", "path", "vro") or w[:2] == ["admin", "listLocks"] else " (no lock requested)"))
                if w != p["argv"]:
                    j = min(k for k, a in enumerate(p["argv"]) if a in STACK_OPTS)
                    ctx.hist("stack_option=%s %s the command word, %s $EUPS_PATH" % (
                        "-Z" if p["argv"][j] in ("-Z", "--database", "--with-eups") else "-z",
                        "before" if (j == 0 or (w[0] == "setup" and j == 1)) else "after",
                        "within" if set(p["path"]) <= set(p["env_path"]) else "off"))
        if any(p.get("lp") is not None for p in c["procs"]):
            ctx.hist("with_parent_child")
        if any(p.get("tries") for p in c["procs"]):
            ctx.hist("with_retry")
        if any(t[1] == "signal" for t in r["trace"]):
            ctx.hist("with_signal=" + c.get("signal", "TERM"))
            if any(t[1] == "signal" and t[2] == "delivered" for t in r["trace"]):
                ctx.hist("signal_delivered_in_body" if len(r.get("acq_signals") or []) + len(r.get("rel_signals") or []) <
                         sum(1 for t in r["trace"] if t[1] == "signal" and t[2] == "delivered") else "signal_delivered_outside_bodies_only")
            for i in r.get("rel_signals") or []:
                ctx.hist("signal_delivered_inside_giveLocks")
                if any(t[0] == i and t[1].startswith("rmdir") for t in r["trace"][:[k for k, t in enumerate(r["trace"]) if t[0] == i and t[1] == "signal"][0]]):
                    ctx.hist("signal_inside_giveLocks_between_two_locks")
            for i in r.get("acq_signals") or []:
                ctx.hist("signal_delivered_during_takeLocks")
                held_before = any(t[0] == i and t[1].startswith("create") and t[2] == "ok" for t in r["trace"])
                if held_before and len(c["procs"][i].get("path", [0])) > 1:
                    ctx.hist("signal_during_takeLocks_with_earlier_stacks_locked")
        names = {p.get("user") for p in c["procs"]}
        if names != {None}:
            ctx.hist("with_login_names")
            if len(names) > 1:
                ctx.hist("login_names_differ_between_processes")
            for u in names - {None}:
                ctx.hist("login_name=" + ("dotted" if "." in u else "dashed" if "-" in u else "other"))
        if c.get("base") == "abs":
            ctx.hist("lockDirectoryBase=absolute")
        if any(not p.get("explicit", True) for p in c["procs"]):
            ctx.hist("release_at_exit_only")
        if any(p.get("ro") for p in c["procs"]):
            ctx.hist("with_read_only_stack")
            if any(t[2] == "EACCES" for t in r["trace"]):
                ctx.hist("mkdir_refused_read_only_stack")
            if any(p.get("ro") and eff_path(p) for p in c["procs"]):
                ctx.hist("read_only_and_writable_stack_in_one_path")
        for o in r["outcomes"]:
            ctx.hist("outcome=" + o)
        for o in r.get("mid", []):
            if o in ("locked", "unlocked"):
                ctx.hist("mid=" + o)
        if nontrivial:
            ctx.hist("nontrivial")
        if lifetimes_overlap(r, n):
            ctx.hist("overlapping")
        for v in r["violations"][:1]:
            ctx.hist("mutex_violation=" + str(v["class"]))
        for ev in trace_events(r["trace"]):
            ctx.hist("event=" + ev)
        if iv != mv:
            obs = "trace" if iv["trace"] != mv.get("trace") else "outcomes" if iv["outcomes"] != mv.get("outcomes") else "residue"
            note = ""
            if obs == "trace" and "trace" in mv:
                for t, (x, y) in enumerate(zip(iv["trace"], mv["trace"])):
                    if x != y:
                        note = "first difference at step %d: impl %r model %r" % (t, x, y)
                        break
                else:
                    note = "trace lengths %d / %d" % (len(iv["trace"]), len(mv["trace"]))
            ctx.disagree(obs, inp, iv, mv, note=note)
        for clause, cls, detail in oracle(c, r):
            ctx.fail(clause, inp, iv, mv, note=detail, finding=cls)
        if c.get("_corpus") and c.get("expect"):
            got = sorted({str(v["class"]) for v in r["violations"]})
            if got != sorted(c["expect"]):
                ctx.note("corpus witness %s: expected violation classes %r, the run shows %r" % (c["_corpus"], c["expect"], got))
                ctx.hist("corpus_witness_changed")


def run_case(case):
    if case.get("phases"):
        return run_phase(case)
    return run_impl(case)


def run_phase(case):
    """Phase-atomic order: run each phase to its end on the real processes; the schedule is whatever that takes."""
    for patience in (G.STEP_TIMEOUT, 120.0):
        old = G.STEP_TIMEOUT
        G.STEP_TIMEOUT = patience
        try:
            return G.run_schedule(dict(case, sched=[], drain=True), phases=case["phases"])
        except G.GateTimeout as e:
            err = str(e)
        finally:
            G.STEP_TIMEOUT = old
    return {"executed": [], "trace": [], "outcomes": ["timeout"], "mid": [], "residue": [], "violations": [], "error": err}


def flat_configs(nmax):
    """every kind combination with every flat EUPS_LOCK_PID map (a non-root points to a root), up to nmax processes"""
    import itertools
    cfgs = []
    for n in range(2, nmax + 1):
        for ks in itertools.product("ES", repeat=n):
            for lps in itertools.product([None] + list(range(min(n, 2))), repeat=n):
                if any(l is not None and (l == i or lps[l] is not None) for i, l in enumerate(lps)):
                    continue
                if n == 4 and sum(l is not None for l in lps) > 2:
                    continue
                cfgs.append([P(k, lp=l, tries=(1 if (n < 4 and i == 0) else 0)) for i, (k, l) in enumerate(zip(ks, lps))])
    return cfgs


def exploration_support(ctx, nmax):
    """Exploration support (model only, not proof): the complete reachable state graph of every flat configuration of
    up to nmax processes — what C09_mutex / C09_no_residue say, re-checked with the driver's own executable predicates
    (no state violating Mutex, no quiescent state with residue), and the number of states with two holders (readers,
    or parent and child) as evidence that the protocol does grant shared access."""
    cfgs = flat_configs(nmax)
    answers = ctx.lean.ask_many([{"m": "c09", "op": "explore", "schedules": False, "max": 3000000,
                                  "procs": [{"kind": p["kind"], "lp": p["lp"], "tries": p["tries"]} for p in procs]}
                                 for procs in cfgs])
    states = two = 0
    for procs, a in zip(cfgs, answers):
        if "bad-op" in a:
            raise common.InfraError("exploration failed: %r" % a)
        states += a["states"]
        two += a["two_holders"]
        if not a["full"]:
            ctx.note("exploration: state bound hit for %r" % (procs,))
        if a["violating"]:
            raise common.InfraError("model exploration: %d states violate Mutex, configuration %r, e.g. schedule %r — the "
                                    "driver's predicate and the theorem C09_mutex disagree" % (
                                        a["violating"], procs, a["violating_example"]))
        if a["residue"]:
            raise common.InfraError("model exploration: %d quiescent states with residue, configuration %r, e.g. schedule %r" % (
                a["residue"], procs, a["residue_example"]))
    ctx.note("exploration support (model only, not proof): complete state graphs of %d flat configurations of up to %d "
             "processes, %d states, none violates Mutex, no quiescent state with residue; %d states with two holders" % (
                 len(cfgs), nmax, states, two))
    ctx.hist("explored_support_states", states)


def interleave(classes, chunk=40):
    """round-robin over the case classes, `chunk` cases of each at a time: when the time budget cuts a run short (loaded
    machine, enlarged budget) every class has had its share, none is starved"""
    out, pos = [], [0] * len(classes)
    while any(p < len(c) for p, c in zip(pos, classes)):
        for k, c in enumerate(classes):
            out += c[pos[k]:pos[k] + chunk]
            pos[k] += chunk
    return out


def generated(ctx, sizes, three_limit):
    """the case classes of one portion of the run: (list of classes, each a list of cases)"""
    r3, r4, r2, nphase, npath, nsig, ncmd = sizes
    # the enlarged portion takes the three-process state graphs with their signal transitions
    three = explore_cases(ctx, three_proc_configs(), "cover3", limit=three_limit, signals=(three_limit is None))
    return [three,
            [random_case(ctx.rng, 3) for _ in range(r3)], [random_case(ctx.rng, 4) for _ in range(r4)],
            [random_case(ctx.rng, 2) for _ in range(r2)], [phase_case(ctx.rng) for _ in range(nphase)],
            [path_case(ctx.rng) for _ in range(npath)], [signal_case(ctx.rng) for _ in range(nsig)],
            [admin_case(ctx.rng) for _ in range(max(20, nsig // 3))],
            [acq_signal_case(ctx.rng) for _ in range(max(40, nsig // 2))],
            cmd_cases(ctx.rng, ncmd)]


def run(ctx):
    # 1. the ordinary quick portion, first and completely — also when the case budget is enlarged (thorough tier, or the
    #    quick tier after a mirrored function changed: `ctx.escalated`), so that every case class and every distribution
    #    floor below is reached before the time limit can bite
    cases = corpus_cases()
    ctx.hist("corpus", len(cases))
    evaluate(ctx, cases)
    cmd_table_check(ctx)
    evaluate(ctx, name_cases())
    # all distinct interleavings of two processes (transition cover of the model's state graph)
    # — the state graph with the signal transitions (a signal for a process in its body) as well
    two = explore_cases(ctx, two_proc_configs(), "cover2", signals=True)
    ctx.hist("cover2_schedules", len(two))
    quick = interleave([two] + generated(ctx, (500, 150, 100, 300, 400, 80, 120), 60))
    for k in range(0, len(quick), 600):
        evaluate(ctx, quick[k:k + 600])          # no time check: this portion always runs to its end
    # 2. the enlarged budget: every distinct three-process schedule, many more generated cases — class by class in
    #    rotation, as far as the time limit allows
    if ctx.n(0, 1):
        more = interleave(generated(ctx, (4000, 6000, 1000, 3000, 6000, 1500, 1500), None), chunk=75)
        ctx.hist("enlarged_portion_cases", len(more))
        for k in range(0, len(more), 600):
            if ctx.out_of_time():
                ctx.note("time budget reached inside the enlarged portion after %d of %d cases (classes in rotation)" % (k, len(more)))
                break
            evaluate(ctx, more[k:k + 600])
    ctx.hist("cover3_schedules", ctx.histogram.get("src=cover3", 0))
    exploration_support(ctx, 4 if ctx.tier == "thorough" else 3)
    # report the most telling failures first: outside every known class, then the shortest schedules
    ctx.failures.sort(key=lambda f: (f["finding_class"] is not None, len(f["input"]["sched"])))
    if ctx.evaluations < 200 or ctx.histogram.get("overlapping", 0) < 0.3 * ctx.evaluations:
        raise common.InfraError("degenerate distribution: %d cases, %d with overlapping lockers" % (
            ctx.evaluations, ctx.histogram.get("overlapping", 0)))
    if not ctx.histogram.get("mkdir_refused_read_only_stack") or not ctx.histogram.get("read_only_and_writable_stack_in_one_path"):
        raise common.InfraError("no case of this run had a stack the locker cannot write to")
    if not ctx.histogram.get("admin=clearLocks") or not ctx.histogram.get("admin=listLocks"):
        raise common.InfraError("no case of this run had a stale lock cleared by `eups admin clearLocks`")
    if not ctx.histogram.get("sigkill=killed"):
        raise common.InfraError("no locker was killed outright in this run")
    if not ctx.histogram.get("signal_during_takeLocks_with_earlier_stacks_locked"):
        raise common.InfraError("no command of this run was interrupted during takeLocks with locks on earlier stacks already taken")
    if not ctx.histogram.get("signal_delivered_inside_giveLocks") or not ctx.histogram.get("signal_inside_giveLocks_between_two_locks"):
        raise common.InfraError("no command of this run was interrupted inside giveLocks (at its start and between two locks)")
    if not ctx.histogram.get("signal_delivered_in_body"):
        raise common.InfraError("no signal was delivered to a command body in this run")
    for ev in ("request_withdrawn", "retry_after_withdrawal", "create_found_directory_removed", "retry_after_directory_removed",
               "rmdir_refused_directory_in_use", "mkdir_joined_existing_directory"):
        if not ctx.histogram.get("event=" + ev):
            raise common.InfraError("no schedule of this run took the real code through '%s': the race-handling paths of the "
                                    "lock protocol were not exercised" % ev)


def replay_cmd(ctx, c):
    """replay of a command-table entry ({"command": name}) or of one command line's lock bracket ({"argv", "env_path"})"""
    if "command" in c:
        def real_table():
            common.import_eups()
            import eups.cmd
            import eups.lock as lock
            return {k: {lock.LOCK_EX: "E", lock.LOCK_SH: "S", None: None}.get(v[1], "?") for k, v in eups.cmd._cmdLookup.items()}
        res = common.in_child(real_table)
        real = res[1] if res[0] == "ok" else {}
        model = {e["name"]: e for e in ctx.lean.ask({"m": "c09", "op": "cmdtable"})}
        nm = c["command"]
        iv = real.get(nm, "not registered")
        mv = model[nm]["lock"] if nm in model else "not in the model"
        return {"input": c, "impl_output": iv, "model_output": mv, "agree": iv == mv, "violations": [], "fails": []}
    env = list(c.get("env_path") or [0])
    nd = max([3] + [d + 1 for d in env])
    sp = cmd_proc(0, list(c["argv"]), env)
    case = {"procs": [sp], "sched": [], "ndirs": nd, "drain": True}
    r = common.in_child(run_case, case)
    r = r[1] if r[0] == "ok" else {"executed": [], "trace": [], "outcomes": [repr(r)], "residue": [], "violations": [], "error": repr(r)}
    ca = ctx.lean.ask(cmdline_req(sp, "default"))
    held, kinds = (r.get("held") or [None])[0], (r.get("held_kinds") or [None])[0]
    iv = None
    if held is not None and kinds is not None:
        iv = {"kind": (sorted(set(kinds))[0] if len(set(kinds)) == 1 else (None if not kinds else sorted(set(kinds)))),
              "stacks": sorted(held), "changed": r.get("stack_changed")}
    mv = {"kind": ca.get("kind") if ca.get("stacks") else None, "stacks": sorted(ca.get("stacks", [])), "updates": ca.get("updates")}
    agree = iv is not None and iv["kind"] == mv["kind"] and iv["stacks"] == mv["stacks"] and \
        not (any(iv["changed"] or []) and not mv["updates"])
    fails = [{"clause": cl, "class": k, "detail": d} for cl, k, d in oracle(case, r)]
    return {"input": c, "impl_output": iv, "model_output": mv, "agree": agree, "violations": r["violations"], "fails": fails}


def replay(ctx, rp):
    c = rp.get("input") or rp          # a replay file, or a corpus witness
    if "procs" not in c:
        return replay_cmd(ctx, c)
    case = {"procs": c["procs"], "sched": c["sched"], "base": c.get("base", "default"), "drain": True}
    if c.get("signal"):
        case["signal"] = c["signal"]
    if c.get("stale"):
        case["stale"] = c["stale"]
    if "ndirs" in c:
        case["ndirs"] = c["ndirs"]
    if c.get("phases"):
        case["phases"] = c["phases"]
    r = common.in_child(run_case, case)
    r = r[1] if r[0] == "ok" else {"executed": c["sched"], "trace": [], "outcomes": [repr(r)], "residue": [], "violations": [], "error": repr(r)}
    a = ctx.lean.ask(model_req(case, drop_refused(r)[0]))
    iv, mv = impl_view(r), model_view(a)
    fails = [{"clause": cl, "class": k, "detail": d} for cl, k, d in oracle(case, r)]
    return {"input": c, "impl_output": iv, "model_output": mv, "agree": iv == mv, "violations": r["violations"], "fails": fails}
