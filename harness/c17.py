"""C17 — an expanded table file reproduces the build-time versions exactly.

Implementation: the real `eups.expandTableFile` (the API `eups expandtable` calls), run in a forked child in the
environment a real `Eups.setup` of the top product produced; then the real table parser on the original and the
expanded table, and a real exact-mode `Eups.setup` from the expanded table after a random evolution of the database.
Model: lean/EupsModel/Model/Expand.lean through the driver op "c17"; it receives the table text, the options and the
answers the real Eups gave (set-up versions, dependency listings) right before the real call.
Oracle (i): text written by the real expander == text of the model.
Oracle (ii), model-free: never_foreign (every `-j` pin of the exact block is a build-time record or a `-p` pin),
passthrough / keeps_constraints (real parser: the inexact action list of the expanded table equals the original's up to
added versions / constraints), exact_reproduces (exact re-setup after the evolution gives the build-time records)."""
import contextlib
import io
import json
import os
import re

from . import common, lib_expand as L
from .common import parallel_map

RULE = ("case = product graph (3-6 names x 1-3 versions, required/optional edges, bare / explicit / expression / "
        "version+[expression] specs, -j, --external, optional products absent, unsetupRequired/unsetupOptional lines (with and without -j) "
        "in intermediate tables taking away a product the table brought in and in the expanded table itself (of an absent product, of a leaf it set up, of a leaf it sets up again), a share of the dependency tables already in "
        "expanded form (exact block + inexact branch); 'cf' stream conflict-free by construction, "
        "'arb' stream with arbitrary specs incl. diamond conflicts) + build-time setup of the top product + expansion of its "
        "table (CLI defaults) + 0-4 syntactic/option variants expanded in the same environment + random evolution "
        "(new lower/higher versions, current moved, absent products appearing); 7 % of the cases run the history `dependency listings, redeclaration of a nested dependency, build, expansion` in one process; every exact replay is repeated through a second entry point (eups.setup with/without version and exact_version=True, setup --exact); 12 % of the graphs have a version NAMED like a recognised tag (current, beta) — the build version in the cf stream — while that tag is assigned to another version of the product + exact re-setup; a case is non-trivial when "
        "the build succeeded and set up at least one dependency; distinct = distinct digests of (graph, top table, options)")
TRUSTED = ["CPython `re` on the six patterns of expandTableFile, `str.split/strip/join`, `%-15s` formatting (hand-translated, "
           "exercised by the text comparison on every run, not verified)",
           "table texts are ASCII with \\n line ends; white space is blank and tab",
           "the answers of the environment (findSetupProduct, getSetupVersion, getDependencies) are data to the model: they are "
           "obtained from the real Eups in the same process right before the real call and cross-checked against the answers "
           "recorded during the call; since round 3 the set-up versions are also compared with the model of findSetupVersion",
           "the grouping of passed-through lines into `if` chains (ExpandTable.groupPlain) is unverified code whose answer is checked "
           "(text reproduced, items well formed) before C17_exact_actions_blocks is applied; the theorems of the C11 model "
           "(C11_blocks_text, C11_written_command) are used as proved"]
ASSUMPTIONS = ["version expressions in generated tables are well formed, so Eups.version_match (used only for a warning) does not raise",
               "build-time setup and exact re-setup are one command each, in a fresh process, default product disabled",
               "conflict-free = every request in the closure resolves to the one build version of its product (by construction of the 'cf' stream)"]

# what the models mirror (fingerprints/C17.json): the expander and its callers; since round 3 also the table reader that the
# composed model (Expand then TableParse/Cond) runs on the expanded text, and Action.processArgs (`toPin`)
MIRRORS = [("python/eups/table.py", "expandTableFile"), ("python/eups/table.py", "Table.actions"), ("python/eups/table.py", "Table._read"),
           ("python/eups/table.py", "Table._rewrite"), ("python/eups/table.py", "Table.__init__"), ("python/eups/table.py", "Action.__init__"),
           ("python/eups/table.py", "Action.processArgs"), ("python/eups/VersionParser.py", "*"),
           ("python/eups/app.py", "expandTableFile"), ("python/eups/app.py", "setup"), ("python/eups/app.py", "getDependencies"),
           ("python/eups/Eups.py", "Eups.getDependentProducts"), ("python/eups/Eups.py", "Eups.selectVRO"),
           ("python/eups/Eups.py", "Eups.makeVroExact"), ("python/eups/Eups.py", "Eups.findSetupProduct"), ("python/eups/Eups.py", "Eups.setup"),
           ("python/eups/Eups.py", "Eups.findSetupVersion"), ("python/eups/cmd.py", "ExpandtableCmd.execute")]

NW = 4


# ---- children: the real code -------------------------------------------------------------------------

def _quiet():
    """eups binds utils.stdwarn/stderr to the stream objects at import time: silence the file descriptor itself
    (we are in a forked child that returns its result through a pipe)."""
    dn = os.open(os.devnull, os.O_WRONLY)
    os.dup2(dn, 2)
    os.close(dn)
    return contextlib.redirect_stderr(io.StringIO())


def child_setup(env, name, version, inexact):
    """The build-time (inexact or default) or the later exact setup of the top product: one command."""
    os.environ.clear()
    os.environ.update(env)
    E = common.new_eups()
    with _quiet(), contextlib.redirect_stdout(io.StringIO()):
        E.selectVRO(versionName=version, inexact_version=inexact)
        try:
            ok, v, why = E.setup(name, version)
        except Exception as ex:  # noqa
            return {"ok": "EXC:" + type(ex).__name__, "env": dict(os.environ), "setupType": list(E.setupType)}
    return {"ok": ok, "env": dict(os.environ), "setupType": list(E.setupType)}


def candidate_names(text, extra):
    toks = set(re.split(r"[\s()\"\[\],]+", text))
    toks |= set(extra)
    toks.discard("")
    return sorted(toks)[:200]


def classify_exc(ex, deps_exc):
    msg = str(ex)
    if ex is deps_exc:
        return "DepsRaised"
    if isinstance(ex, RuntimeError) and "Expanding table for" in msg:
        return "NotSetup"
    if isinstance(ex, RuntimeError) and "expected an argument" in msg:
        return "FlagNeedsArg"
    if isinstance(ex, IndexError):
        return "IndexError"
    if "Bad expr syntax" in msg:
        return "BadRelop"
    return "Other:" + type(ex).__name__


def cli_eups():
    """The Eups instance `eups expandtable` works with: EupsCmd.createEups constructs it and selects the VRO at once
    (with the default VRO that switches the `exact` setup type on, which decides which branch of an already expanded
    dependency table getDependencies reads)."""
    E = common.new_eups()
    E.selectVRO(None, None, None, None)
    return E


def prequery(text, names, pins):
    """(d) the answers of the environment, asked of a fresh real Eups (in a process of its own, so that the instance the
    expander is going to use is as fresh as the one of `eups expandtable`)."""
    import eups
    from eups.exceptions import ProductNotFound
    _quiet()
    E = cli_eups()
    ans = {"sv": [], "spv": [], "deps": []}
    for n in candidate_names(text, list(names) + list(pins)):
        try:
            v = eups.getSetupVersion(n, eupsenv=E)
        except ProductNotFound:
            v = None
        except Exception as ex:  # noqa
            return {"skip": "getSetupVersion raised %s" % type(ex).__name__}
        if v is not None:
            ans["sv"].append([n, v])
        try:
            p = E.findSetupProduct(n)
        except Exception as ex:  # noqa
            return {"skip": "findSetupProduct raised %s" % type(ex).__name__}
        if p is not None:
            ans["spv"].append([n, p.version])
        for ver in sorted({x for x in (pins.get(n), v) if x is not None}):
            try:
                d = eups.getDependencies(n, ver, E, setup=True, shouldRaise=True)
                ans["deps"].append([n, ver, [[a, b, bool(c)] for a, b, c, _ in d]])
            except Exception:  # noqa
                ans["deps"].append([n, ver, None])
    return ans


def child_expand(env, path, opts, names):
    """Ask the real Eups what the expander is going to ask it, then run the real expander on the file."""
    import eups
    import eups.table
    from eups.exceptions import ProductNotFound
    os.environ.clear()
    os.environ.update(env)
    with open(path) as f:
        text = f.read()
    pins = dict(opts["pins"])
    r = common.in_child(prequery, text, names, pins)
    if r[0] != "ok":
        return {"child": list(r[:3])}
    ans = r[1]
    if "skip" in ans:
        return ans
    with _quiet(), contextlib.redirect_stdout(io.StringIO()):
        E = cli_eups()
        unstable = []
        # interposition: record what is actually consulted, to cross-check the answers above
        seen = {"deps_exc": None}
        real_deps, real_sv, real_fsp = eups.getDependencies, eups.getSetupVersion, E.findSetupProduct
        svd, spvd = dict(map(tuple, ans["sv"])), dict(map(tuple, ans["spv"]))
        depd = {(a, b): c for a, b, c in ans["deps"]}

        recorded, state_dep = {}, []

        def w_deps(n, v=None, *a, **k):
            # A listing depends on the state of the Eups instance when dependency tables have `type == exact` blocks
            # (the first lookup of an instance resolves the VRO and switches exact_version on).  The model's datum for
            # (n, v) is therefore the answer the expander itself got, provided it asked the registered question
            # (setup=True, shouldRaise=True); the answer obtained beforehand is used for everything it did not ask.
            same_q = (k.get("setup") is True and k.get("shouldRaise") is True and len(a) == 1 and (n, v) in depd)
            try:
                d = real_deps(n, v, *a, **k)
            except Exception as ex:  # noqa
                seen["deps_exc"] = ex
                if same_q and (n, v) not in recorded:
                    recorded[(n, v)] = None
                    if depd[(n, v)] is not None:
                        state_dep.append("deps(%s,%s) raised in the call" % (n, v))
                raise
            if same_q and (n, v) not in recorded:
                recorded[(n, v)] = [[a_, b_, bool(c_)] for a_, b_, c_, _ in d]
                if depd[(n, v)] != recorded[(n, v)]:
                    state_dep.append("deps(%s,%s) differs" % (n, v))
            return d

        def w_sv(n, *a, **k):
            try:
                v = real_sv(n, *a, **k)
            except ProductNotFound:
                if n in svd:
                    unstable.append("sv(%s) raised now" % n)
                raise
            if svd.get(n) != v:
                unstable.append("sv(%s) differs" % n)
            return v

        def w_fsp(n, *a, **k):
            p = real_fsp(n, *a, **k)
            if (p.version if p is not None else None) != spvd.get(n):
                unstable.append("spv(%s) differs" % n)
            return p

        eups.getDependencies, eups.getSetupVersion, E.findSetupProduct = w_deps, w_sv, w_fsp
        out = io.StringIO()
        res = {"answers": ans, "flavor": E.flavor}
        try:
            with open(path) as ifd:
                if opts.get("recurse", True):
                    eups.expandTableFile(out, ifd, pins, None, E, opts["force"], expandVersions=opts["expandVersions"],
                                         addExactBlock=opts["addExactBlock"], toplevelName=opts["toplevel"])
                else:       # the call eups.distrib makes
                    eups.table.expandTableFile(E, out, ifd, pins, None, opts["force"], opts["expandVersions"],
                                               opts["addExactBlock"], opts["toplevel"], recurse=False)
            res["out"] = out.getvalue()
        except Exception as ex:  # noqa
            res["err"] = classify_exc(ex, seen["deps_exc"])
            res["errmsg"] = str(ex)[:200]
        finally:
            eups.getDependencies, eups.getSetupVersion = real_deps, real_sv
        res["unstable"] = unstable
        res["state_dependent"] = state_dep
        ans["deps"] = [[n, v, recorded.get((n, v), d)] for n, v, d in ans["deps"]]
    return res


CLI_MODES = ["stdout", "stdout", "inplace", "outdir", "stdin", "warn"]


def cli_args(path, opts, mode="stdout"):
    """The `eups expandtable` command line for these options, or None when the CLI cannot express them.  mode: where the text
    goes / comes from -- stdout, inplace (-i), outdir (second argument), stdin (`-`), warn (-W regexp: warnings only)."""
    pins = opts["pins"]
    if not opts.get("recurse", True) or any((not v) or ":" in v or "=" in v or ":" in k or "=" in k for k, v in pins.items()):
        return None
    a = ["expandtable", "--nolocks"]
    if pins:
        a += ["-p", ":".join("%s=%s" % kv for kv in pins.items())]
    if opts["force"]:
        a.append("--force")
    if not opts["expandVersions"]:
        a.append("-N")
    if not opts["addExactBlock"]:
        a.append("--noExact")
    if mode == "warn":
        a += ["-W", "^[vV]"]
    top_from_file = None if mode == "stdin" else os.path.basename(path)[:-len(".table")]
    if opts["toplevel"] is None:
        if top_from_file is not None:
            return None                  # with a file name the CLI always derives a product name from it
    elif opts["toplevel"] != top_from_file:
        a += ["-P", opts["toplevel"]]
    return a + [path]


def child_cli(env, args, mode="stdout", workdir=None):
    """`eups expandtable ...` through the command class.  -> where the expansion went ("out"), the return code / exception,
    and for the modes that write files what is left on disk."""
    import shutil
    import sys
    import eups.cmd
    os.environ.clear()
    os.environ.update(env)
    args = list(args)
    src = args[-1]
    res = {"mode": mode}
    target = None
    if mode in ("inplace", "outdir"):
        shutil.rmtree(workdir, ignore_errors=True)
        os.makedirs(os.path.join(workdir, "out"))
    if mode == "inplace":
        target = os.path.join(workdir, os.path.basename(src))
        shutil.copy(src, target)
        args = args[:-1] + ["-i", target]
    elif mode == "outdir":
        target = os.path.join(workdir, "out", os.path.basename(src))
        args = args + [os.path.join(workdir, "out")]
    elif mode == "stdin":
        args = args[:-1] + ["-"]
    out = io.StringIO()
    old_stdin = sys.stdin
    with _quiet(), contextlib.redirect_stdout(out):
        try:
            if mode == "stdin":
                sys.stdin = open(src)
            rc = eups.cmd.EupsCmd(args=args, toolname="eups").run()
            res["rc"] = rc
        except Exception as ex:  # noqa
            res.update(err=type(ex).__name__, errmsg=str(ex)[:200])
        finally:
            sys.stdin = old_stdin
    res["stdout"] = out.getvalue()
    if target is not None:
        res["file"] = open(target).read() if os.path.exists(target) else None
        with open(src) as f:
            res["src"] = f.read()
        res["leftover"] = sorted(x for x in os.listdir(os.path.dirname(target)) if x.endswith(".tmp"))
    res["out"] = res["stdout"] if target is None else res.get("file")
    return res


def child_actions(env, paths):
    """The real table parser, inexact mode: [(cmd, args, optional)] per table file."""
    from eups.table import Table
    os.environ.clear()
    os.environ.update(env)
    outs = []
    with _quiet(), contextlib.redirect_stdout(io.StringIO()):
        E = common.new_eups()          # loads the startup file (default product off)
        for p in paths:
            try:
                acts = Table(p).actions(E.flavor, setupType=["build"])
                outs.append([[str(a.cmd), [str(x) for x in a.args], a.extra.get("optional")] for a in acts])
            except Exception as ex:  # noqa
                outs.append("EXC:" + type(ex).__name__)
    return outs


def child_exact_actions(env, path):
    """The real table parser on the expanded table in exact mode: what `Table(expanded).actions(flavor, ["exact"])` returns."""
    from eups.table import Table
    os.environ.clear()
    os.environ.update(env)
    with _quiet(), contextlib.redirect_stdout(io.StringIO()):
        E = common.new_eups()
        try:
            acts = Table(path).actions(E.flavor, setupType=["exact"])
            pa = []          # Action.processArgs on every setup command: [optional, product, version] when it reads `product -j version`
            for a in acts:
                if str(a.cmd) == "setupRequired":
                    try:
                        vro, pname, pdir, vers, vexpr, extra = a.processArgs(E, fwd=True)
                        simple = (extra.get("noRecursion") is True and vers is not None and not vexpr and not pdir
                                  and not extra.get("isExternal") and not extra.get("noAction")
                                  and len(a.args) == 3)
                        pa.append([bool(a.extra.get("optional")), pname, vers] if simple else None)
                    except Exception as ex:  # noqa
                        pa.append("EXC:" + type(ex).__name__)
            return {"flavor": E.flavor, "process_args": pa,
                    "acts": [{"cmd": str(a.cmd), "args": [str(x) for x in a.args], "extra": {k: a.extra[k] for k in sorted(a.extra)}}
                             for a in acts]}
        except Exception as ex:  # noqa
            return {"flavor": E.flavor, "acts": "EXC:" + type(ex).__name__}


REPLAY_MODES = ["object", "api_noversion", "api_version", "cli_exact"]


def child_replay(env, mode, name, version):
    """The exact replay through another entry point, in a process of its own (Eups.__init__ has a shared default `setupType=[]`):
    api_noversion = eups.setup(name, exact_version=True) (eups.app.setup builds the Eups itself; the current tag names the version),
    api_version = eups.setup(name, version, exact_version=True), cli_exact = `setup --exact name version` through setupcmd."""
    import eups
    import eups.setupcmd
    os.environ.clear()
    os.environ.update(env)
    with _quiet(), contextlib.redirect_stdout(io.StringIO()):
        try:
            if mode == "api_noversion":
                cmds = eups.setup(name, exact_version=True)
            elif mode == "api_version":
                cmds = eups.setup(name, version, exact_version=True)
            else:
                rc = eups.setupcmd.EupsSetup(args=["--exact", name, version], toolname="setup").run()
                cmds = ["false"] if rc not in (0, None) else []
        except Exception as ex:  # noqa
            return {"ok": "EXC:" + type(ex).__name__, "env": dict(os.environ)}
    return {"ok": "false" not in cmds, "env": dict(os.environ)}


def child_history(env, stack, ud, case, path, opts, names):
    """One long-lived process: dependency listings of the top product (topological / cycle-checking, API and `eups list`) in the
    database as it was BEFORE a nested dependency was redeclared; the redeclaration (a newer version with one more dependency,
    current moved); then the build-time setup and the expansion, all in this process."""
    import eups
    import eups.cmd
    os.environ.clear()
    os.environ.update(env)
    ph = case["pre_history"]
    topn, topv = case["top"]
    done = []
    with _quiet(), contextlib.redirect_stdout(io.StringIO()):
        for kind in ph["list"]:
            try:
                if kind == "api_topological":
                    done.append([kind, len(eups.getDependencies(topn, topv, cli_eups(), topological=True))])
                elif kind == "api_cycles":
                    E = cli_eups()
                    done.append([kind, len(E.getDependentProducts(E.findProduct(topn, topv), checkCycles=True))])
                else:
                    rc = eups.cmd.EupsCmd(args=["list", "--nolocks", "--dependencies", "--topological", topn, topv], toolname="eups").run()
                    done.append([kind, rc])
            except Exception as ex:  # noqa
                done.append([kind, "EXC:" + type(ex).__name__])
    L.redeclare(stack, ud, case)
    b = child_setup(env, topn, topv, case["inexact_build"])
    out = {"build": b, "listings": done}
    if b.get("ok") is True:
        out["exp"] = child_expand(b["env"], path, opts, names)
    return out


# ---- one case on the real code --------------------------------------------------------------------------

class Worker:
    def __init__(self):
        common.import_eups()            # (cleans the environment; the children inherit the imported modules)
        self.root = common.scratch("c17")
        stacks, uds = common.mkstacks(self.root)
        self.stack = stacks[0]
        self.ud = uds["A"]
        self.base = dict(os.environ)
        self.base["PATH"] = "/usr/bin:/bin"
        self.vdir = os.path.join(self.root, "variants")
        os.makedirs(self.vdir)
        # user data of the API / command-line replays: eups.app.setup and setupcmd construct Eups(readCache=False), which crashes
        # (TypeError in _productDir(None)) with defaultProduct["name"] = None and a non-empty database -> the empty string there
        self.ud2 = os.path.join(self.root, "userdataR")
        os.makedirs(self.ud2)
        with open(os.path.join(self.ud, "startup.py")) as f:
            txt = f.read().replace('defaultProduct["name"] = None', 'defaultProduct["name"] = ""')
        with open(os.path.join(self.ud2, "startup.py"), "w") as f:
            f.write(txt)
        self.base2 = dict(self.base, EUPS_USERDATA=self.ud2)

    def close(self):
        common.rmtree(self.root)


def call(fn, *a):
    r = common.in_child(fn, *a)
    if r[0] != "ok":
        return {"child": list(r[:3])}
    return r[1]


def run_case(w, case):
    """-> result dict (picklable, scratch paths replaced)"""
    topn, topv = case["top"]
    L.install(w.stack, w.ud, case)
    res = {"exps": []}
    hist = None
    if case.get("pre_history"):
        L.hide_redeclared(w.stack, w.ud, case)
        hist = call(child_history, w.base, w.stack, w.ud, case, L.table_path(w.stack, topn, topv), case["opts"], case["names"] + L.ABSENT)
        # (the Eups objects of the listings live to the end of that process and may persist their view of the stack -- taken before
        # the redeclaration -- into the user's cache files on the way out: the later, separate processes start from clean caches)
        L.drop_caches(w.ud)
        if "child" in hist:
            return {"exps": [], "build_ok": "CHILD:%r" % (hist["child"],)}
        b = hist["build"]
        res["listings"] = hist["listings"]
    else:
        b = call(child_setup, w.base, topn, topv, case["inexact_build"])
    res["build_ok"] = b.get("ok")
    if b.get("ok") is not True:
        return res
    env1 = b["env"]
    built = L.records(env1)
    res["built"] = built
    for n in case.get("tamper") or []:
        if n in built and built[n]:
            f = os.path.join(w.stack, "ups_db", n, built[n] + ".version")
            if os.path.exists(f):
                os.unlink(f)
                res["tampered"] = True
    if res.get("tampered"):
        L.drop_caches(w.ud)
    names = case["names"] + L.ABSENT
    tpath = L.table_path(w.stack, topn, topv)
    # expansions: the product's own table with the case's options, then the variants
    jobs = [(tpath, case["opts"])]
    for i, v in enumerate(case["variants"]):
        d = os.path.join(w.vdir, str(i))
        os.makedirs(d, exist_ok=True)
        p = os.path.join(d, topn + ".table")
        with open(p, "w") as f:
            f.write(v["text"])
        jobs.append((p, v["opts"]))
    for p, o in jobs:
        with open(p) as f:
            text = f.read()
        r = hist["exp"] if (hist is not None and p == tpath and "exp" in hist) else call(child_expand, env1, p, o, names)
        r["text"] = text
        r["opts"] = o
        mode = case.get("cli_mode", "stdout")
        ca = cli_args(p, o, mode)
        if ca is not None and case.get("cli_check"):
            r["cli"] = call(child_cli, env1, ca, mode, os.path.join(w.vdir, "cli"))
        res["exps"].append(r)
    main = res["exps"][0]
    if "out" in main and not res.get("tampered"):
        # the real parser on the original and on the expanded table
        xp = os.path.join(w.vdir, "expanded.table")
        with open(xp, "w") as f:
            f.write(main["out"])
        res["actions"] = call(child_actions, w.base, [tpath, xp])
        res["exact_actions"] = call(child_exact_actions, w.base, xp)
        # evolution, expanded table in place of the original, exact setup from a clean environment
        L.evolve(w.stack, w.ud, case)
        with open(tpath, "w") as f:
            f.write(main["out"])
        e = call(child_setup, w.base, topn, topv, False)
        res["exact_ok"] = e.get("ok")
        res["exact_type"] = e.get("setupType")
        res["exact_records"] = L.records(e["env"]) if "env" in e else None
        # the same replay through another entry point (API without version, API with version, `setup --exact`)
        mode = case.get("replay_mode", "object")
        if mode == "api_noversion" and L.final_current(case, topn) != topv:
            mode = "api_version"
        if mode != "object":
            e2 = call(child_replay, w.base2, mode, topn, topv)
            res["replay2"] = {"mode": mode, "ok": e2.get("ok"), "records": L.records(e2["env"]) if "env" in e2 else None, "child": e2.get("child")}
    return res


def run_chunk(cases):
    w = Worker()
    try:
        return [run_case(w, c) for c in cases]
    finally:
        w.close()


# ---- model ---------------------------------------------------------------------------------------------

def split_lines(text):
    """Lines as Python's file iteration yields them."""
    return re.findall(r"[^\n]*\n|[^\n]+", text)


def model_request(exp):
    o = exp["opts"]
    a = exp["answers"]
    return {"m": "c17", "op": "expand", "lines": split_lines(exp["text"]), "pins": [[k, v] for k, v in o["pins"].items()],
            "toplevel": o["toplevel"], "force": o["force"], "expandVersions": o["expandVersions"],
            "addExactBlock": o["addExactBlock"], "recurse": o.get("recurse", True),
            "spv": a["spv"], "sv": a["sv"], "deps": a["deps"], "flavor": exp.get("flavor", "Linux64")}


def canon_lines(ls):
    """The property-relevant content of a table text: its commands and block lines in order.  Indentation, the padding
    inside a line, blank lines, comment lines and trailing comments are dropped, so that a change of the expander's
    cosmetics is not reported as a broken correspondence."""
    out = []
    for l in ls:
        l = " ".join(re.sub(r"\s*#.*$", "", l).split())
        if l:
            out.append(l)
    return out


def impl_view(exp):
    if "out" in exp:
        return {"out": "ok", "lines": canon_lines(exp["out"].split("\n"))}
    return {"out": "error", "err": exp.get("err")}


def model_view(ans):
    if "bad-op" in ans:
        return {"out": "bad-op", "why": ans["bad-op"]}
    if ans["out"] == "ok":
        return {"out": "ok", "lines": canon_lines(ans["lines"])}
    return {"out": "error", "err": ans["err"]}


def same_text(exp, ans):
    """byte-for-byte agreement of the two texts (a statistic, not an alarm)"""
    if "out" not in exp or not isinstance(ans, dict) or ans.get("out") != "ok":
        return None
    ls = exp["out"].split("\n")
    if ls and ls[-1] == "":
        ls.pop()
    return ls == ans["lines"]


def model_hyps(ans):
    return ans.get("hyps") if isinstance(ans, dict) else None


# ---- oracle (ii) -----------------------------------------------------------------------------------------

def split_setup_args(args):
    """(name, flags, version, expr) of a parsed setup action, read the way Action.processArgs does."""
    flags = [a for a in args if a.startswith("-")]
    words = [a for a in args if not a.startswith("-")]
    name = words[0] if words else None
    vers = " ".join(words[1:])
    expr = None
    m = re.search(r"(?:(\S*)\s+)?\[([^\]]+)\]\s*", vers)
    if m:
        vers, expr = m.groups()
    elif re.search(r"<=?|>=?|==", vers):
        vers, expr = None, vers
    norm = lambda s: " ".join(s.split()) if s else None  # noqa
    return name, flags, norm(vers), norm(expr)


def oracle_parser(case, res):
    """passthrough / keeps_constraints: yields (clause, detail)."""
    acts = res.get("actions")
    if not isinstance(acts, list) or len(acts) != 2:
        yield ("parser_ran", "table parser child failed: %r" % (acts,))
        return
    orig, exp = acts
    if isinstance(orig, str):
        return                                   # the original itself is not a valid table: nothing to compare
    if isinstance(exp, str):
        yield ("passthrough", "the expanded table does not parse: %s" % exp)
        return
    built, pins = res["built"], case["opts"]["pins"]
    is_setup = lambda a: a[0] == "setupRequired"  # noqa
    is_moved = lambda a: is_setup(a) and ("--external" in a[1] or (a[1] and a[1][0] == "eups"))  # noqa
    o_main, e_main = [a for a in orig if not is_moved(a)], [a for a in exp if not is_moved(a)]
    o_mov, e_mov = [a for a in orig if is_moved(a)], [a for a in exp if is_moved(a)]
    if [a for a in o_main if not is_setup(a)] != [a for a in e_main if not is_setup(a)]:
        yield ("passthrough", "non-setup actions differ: %r vs %r" % ([a for a in o_main if not is_setup(a)], [a for a in e_main if not is_setup(a)]))
    if [is_setup(a) for a in o_main] != [is_setup(a) for a in e_main]:
        yield ("passthrough", "setup and other actions are interleaved differently")
        return

    def cmp_setup(a, b):
        n0, f0, v0, e0 = split_setup_args(a[1])
        n1, f1, v1, e1 = split_setup_args(b[1])
        if (n0, f0, a[2]) != (n1, f1, b[2]):
            return "product, flags or optionality changed: %r -> %r" % (a, b)
        rec = pins.get(n0) or built.get(n0)
        if e0 is not None and e1 != e0:
            return "expression constraint %r lost: %r -> %r" % (e0, a, b)
        if v0 is not None:
            if v1 != (pins.get(n0) or v0):
                return "explicit version %r replaced: %r -> %r" % (v0, a, b)
            if e0 is None and e1 is not None:
                return "constraint invented for an explicit version: %r -> %r" % (a, b)
        else:
            if rec is None:
                if (v1, e1) != (v0, e0):
                    return "line of a product that is not set up rewritten: %r -> %r" % (a, b)
            else:
                if v1 != rec:
                    return "recorded version %r not added: %r -> %r" % (rec, a, b)
                if e0 is None and not pins.get(n0) and e1 != ">= " + rec and not rec.startswith("LOCAL:"):
                    return "no `>= version` constraint for a bare line: %r -> %r" % (a, b)
        return None

    for a, b in zip([a for a in o_main if is_setup(a)], [a for a in e_main if is_setup(a)]):
        d = cmp_setup(a, b)
        if d:
            yield ("keeps_constraints", d)
    if len(o_mov) != len(e_mov):
        yield ("keeps_constraints", "--external / eups setup lines: %r became %r" % (o_mov, e_mov))
    else:
        for a, b in zip(o_mov, e_mov):
            d = cmp_setup(a, b) if "--external" in a[1] else (None if a == b else "eups line changed")
            if d:
                yield ("keeps_constraints", d)


def oracle_exact_actions(case, res):
    """exact_actions (model-free, real parser): in exact mode the expanded table's setup commands are -j pins of build-time
    records (besides the `eups` / --external lines of the final block), and everything that is not a setup command of the
    original table is still there, in order -- yields details."""
    xa = res.get("exact_actions")
    acts = res.get("actions")
    if not isinstance(xa, dict) or not isinstance(acts, list) or len(acts) != 2 or isinstance(acts[0], str):
        return
    if isinstance(xa.get("acts"), str):
        yield "the expanded table does not parse in exact mode: %s" % xa["acts"]
        return
    built, pins = res["built"], case["opts"]["pins"]
    # setup commands = the commands that set a product up or take one away (the expander keeps both kinds in the setup blocks,
    # i.e. in the inexact branch; exact mode sets the recorded closure up directly)
    is_setup = lambda c: c in ("setupRequired", "unsetupRequired")  # noqa
    for a in xa["acts"]:
        if a["cmd"] != "setupRequired" or "--external" in a["args"] or (a["args"] and a["args"][0] == "eups"):
            continue
        ar = [x for x in a["args"] if x != "-j"]           # (the flag may stand anywhere: Action.processArgs)
        if not ("-j" in a["args"] and len(ar) == 2 and (built.get(ar[0]) == ar[1] or pins.get(ar[0]) == ar[1])):
            yield "exact mode applies the setup command %r, which is not a -j pin of a build-time record" % (ar,)
    others_x = [[a["cmd"], a["args"]] for a in xa["acts"] if not is_setup(a["cmd"])]
    others_o = [[a[0], a[1]] for a in acts[0] if not is_setup(a[0])]
    if others_x != others_o:
        yield "commands other than setup commands in exact mode: %r; in the original table: %r" % (others_x, others_o)


def build_table(case, n, v):
    for dn, dv, lines in case["decl"]:
        if dn == n and dv == v:
            return lines
    return None


def d19_class(case, built):
    """Class predicate of D19, from the generator's description: a setup line of the top table carries -j and its
    product (set up) has, through lines that are followed, a required dependency that is not set up."""
    def missing(n, seen):
        lines = build_table(case, n, built.get(n))
        if lines is None or n in seen:
            return False
        seen = seen | {n}
        for l in lines:
            if l["k"] != "setup" or "--external" in (l.get("flags") or []):
                continue
            q = l["name"]
            if q not in built:
                if not l["optional"]:
                    return True
                continue
            if "-j" not in (l.get("flags") or []) and missing(q, seen):
                return True
        return False
    top = build_table(case, *case["top"])
    for l in top:
        if l["k"] == "setup" and "-j" in (l.get("flags") or []) and l["name"] in built and missing(l["name"], frozenset()):
            return True
    return False


def d74_class(case, built):
    """Class predicate of D74, from the generator's description: the table being expanded has a required setup line inside an
    `if` block that does not apply for this flavor, and its product is not set up."""
    top = build_table(case, *case["top"])
    return any(l["k"] == "setup" and not l["optional"] and l["name"] not in built for l in L.inactive_setup_lines(top))


def complete_env(case, built):
    """Premise of the exact-reproduction clause, from the generator's description: the build-time environment holds
    everything the top table asks for -- following every setup line that is not --external and whose product is set
    up, descending into that product's build-version table unless the line carries -j, no required product is missing.
    (It is false e.g. when `c -j` was set up first and a later plain request for c hit the already-set-up short cut, so
    that c's own dependencies -- required or optional -- were never attempted; or when a table took a product away
    that a product set up on another path requires.)"""
    def ok(n, v, seen, exempt):
        lines = build_table(case, n, v)
        if lines is None:
            return False
        if (n, v) in seen:
            return True
        seen = seen | {(n, v)}
        # what this table takes away again (unsetupRequired / unsetupOptional) may be missing for it and for everything it
        # set up before -- not for a product reached on another path, which then lacks a dependency
        exempt = exempt | {l["name"] for l in lines if l["k"] == "unsetup"}
        inactive = L.inactive_setup_lines(lines)
        unset_j = {l["name"] for l in lines if l["k"] == "unsetup" and "-j" in (l.get("flags") or [])}
        for l in lines:
            fl = l.get("flags") or []
            if l["k"] != "setup" or "--external" in fl or any(l is x for x in inactive):
                continue
            q = l["name"]
            if q not in built and q in exempt:
                # taken away again with -j by this very table: the products below q are still this table's (the static listing keeps
                # them), so they must be there -- e.g. not taken away by yet another table
                if (q in unset_j and q in (case.get("build") or {}) and "-j" not in fl
                        and not ok(q, case["build"][q], seen, exempt)):
                    return False
                continue
            if q not in built:
                # a missing optional product is fine only if it could not be set up at all; in the conflict-free stream
                # every declared product can (its required dependencies are declared), so a declared one that is missing
                # was never attempted: its requester was set up with -j first and short-cut afterwards
                if not l["optional"] or q in (case.get("build") or {}):
                    return False
                continue
            if "-j" not in fl and not ok(q, built[q], seen, exempt):
                return False
        return True
    return ok(case["top"][0], case["top"][1], frozenset(), frozenset())


def oracle_case(case, res):
    """Yields (clause, finding_class, detail, exp_index) for the clauses the implementation's own output breaks."""
    built = res["built"]
    # never_foreign, on every expansion whose input has no exact block of its own
    for i, exp in enumerate(res["exps"]):
        if "out" not in exp or "exact" in exp["text"]:
            continue
        blk = L.exact_block(exp["out"].split("\n"))
        if blk is None:
            continue
        pins = exp["opts"]["pins"]
        for l in blk:
            m = L.PIN_RE.match(l)
            if not m:
                yield ("never_foreign", None, "line %r inside the exact block is not a -j pin" % l, i)
                continue
            n, v = m.group(2), m.group(3)
            if built.get(n) != v and pins.get(n) != v:
                yield ("never_foreign", None, "exact block pins %s %s; build-time record: %r" % (n, v, built.get(n)), i)
    main = res["exps"][0]
    if res.get("tampered"):
        return
    cf = case["stream"] == "cf" and complete_env(case, built)
    if "out" not in main:
        if cf and main.get("err") and not main.get("skip"):
            if main.get("err") == "NotSetup" and d74_class(case, built) and any(
                    (" %s is not setup" % l["name"]) in (main.get("errmsg") or "") for l in L.inactive_setup_lines(build_table(case, *case["top"]))):
                cls = "D74"             # the product the expander misses is the one of a line inside a block that does not apply
            else:
                cls = "D19" if d19_class(case, built) else None
            yield ("expansion_succeeds", cls, "conflict-free build with every required dependency set up, yet the "
                   "expansion raised %s (%s)" % (main.get("err"), main.get("errmsg")), 0)
        return
    blk = L.exact_block(main["out"].split("\n"))
    empty_exact = blk is not None and len(blk) == 0
    # D74, second form: a setup line inside a block of the table that has an else branch -> nested blocks in the expanded table
    #   (or inside a block that does not apply: the nested `if (type …) {` block makes the parser drop the outer condition, so the
    #   line is applied after all)
    nested_else = (L.setup_in_block_with_else(build_table(case, *case["top"]))
                   or bool(L.inactive_setup_lines(build_table(case, *case["top"]))))
    for clause, detail in oracle_parser(case, res):
        # D4 (table parser, empty branch): `if (type == exact) { } else { X }` drops X in inexact mode, applies it in exact mode
        yield (clause, "D74" if nested_else else ("D4" if empty_exact else None), detail, 0)
    if "exact" not in main["text"]:
        for detail in oracle_exact_actions(case, res):
            yield ("exact_actions", "D74" if nested_else else ("D4" if empty_exact else None), detail, 0)
    r2 = res.get("replay2")
    if r2 and (r2.get("ok") != res.get("exact_ok") or r2.get("records") != res.get("exact_records")):
        # every entry point of an exact setup of the same product version must read the expanded table the same way
        yield ("exact_reproduces_entry", None, "exact replay through %s: ok=%r records=%r; through Eups.setup after selectVRO: ok=%r records=%r"
               % (r2.get("mode"), r2.get("ok"), r2.get("records"), res.get("exact_ok"), res.get("exact_records")), 0)
    if cf:
        if res.get("exact_ok") is not True or res.get("exact_records") != built:
            xr = res.get("exact_records") or {}
            missing = {n for n in built if n not in xr}
            if empty_exact:
                cls = "D4"
            elif (res.get("exact_ok") is True and missing and all(built.get(n) == v for n, v in xr.items())
                  and missing <= L.retaken(case, built)):
                # D72: the only difference is that products which were taken away by an unsetup line and set up again later are
                # not pinned (the static dependency listing removes them by name and does not list them again)
                cls = "D72"
            elif d19_class(case, built):
                cls = "D19"
            else:
                cls = None
            yield ("exact_reproduces", cls, "exact re-setup: ok=%r records=%r; build-time records=%r"
                   % (res.get("exact_ok"), res.get("exact_records"), built), 0)


# ---- the regular expressions, one by one -------------------------------------------------------------------

RE_TOKENS = ["setupRequired(", "setupRequired(", "setupOptional(", "setupOptional(", "unsetupRequired(", "unsetupOptional(", "un", "u", "n", ")", ")", "setupRequired", "setup", '"', ")", "(", " ", " ", "\t", "#", "a", "b 1", "eups", "-j",
             "[", "]", ">=", "==", "=", " = 1", "<", "{", "}", "if", "(type", "exact)", "--external", "x", "1.0", "\r", "\x0b"]
REX = r'((?:un)?setup(?:Required|Optional))\("?([^"]*)"?\)'


def gen_re_line(rng):
    n = rng.choice([0, 1, 2, 3, 4, 5, 6, 8, 12])
    s = "".join(rng.choice(RE_TOKENS) for _ in range(n))
    if rng.random() < 0.7:
        s += "\n"
    return s


def python_re(l):
    """What the patterns of expandTableFile / subSetup / isLegalRelativeVersion say about one line (CPython `re`)."""
    m = re.search(REX, l)
    tok = l.split()[0] if l.split() else ""
    br = []
    a = tok
    mat = re.search(r"^\[\s*(.*)\s*\]?$", a)
    if mat:
        br.append("[")
        a = mat.group(1)
    mat = re.search(r"^(.*)\s*\]$", a)
    br += [mat.group(1), "]"] if mat else [a]
    return {"blank": bool(re.search(r"^\s*(#.*)?$", l)), "nocomment": re.sub(r"\s*#.*$", "", l),
            "rex": {"optional": m.group(1) == "setupOptional", "args": m.group(2), "len": len(m.group(0)),
                    "unsetup": m.group(1).startswith("unsetup")} if m else None,
            "preExact": bool(re.search(r"if\s*\(type\s*==\s*exact\)\s*{", l)), "openBrace": bool(re.search(r"{\s*$", l)),
            "closeBrace": bool(re.search(r"^\s*}\s*$", l)), "split": l.split(), "strip": l.strip(),
            "relop": bool(re.search(r"<=?|>=?|==", l)), "badrelop": bool(re.match(r"^\s*=\s+\S+", l)),
            "first": l.split(" ")[0], "bracket_of_first_token": br, "external": "--external" in l}


def evaluate_regexes(ctx, n):
    """Differential test of the hand-translated patterns against CPython `re` on token-generated lines."""
    lines = [gen_re_line(ctx.rng) for _ in range(n)]
    ans = ctx.lean.ask({"m": "c17", "op": "re", "lines": lines})
    if "bad-op" in ans:
        raise common.InfraError("driver: %s" % ans["bad-op"])
    toks = [(l.split()[0] if l.split() else "") for l in lines]
    brs = ctx.lean.ask({"m": "c17", "op": "re", "lines": toks})["res"]
    bad = 0
    for l, a, b in zip(lines, ans["res"], brs):
        py = python_re(l)
        mo = dict(a)
        mo["bracket_of_first_token"] = b["bracket"]
        del mo["bracket"]
        ctx.hist("re_lines")
        if py["rex"]:
            ctx.hist("re_rex_matches")
        if mo != py:
            bad += 1
            if bad <= 3:
                keys = [k for k in py if py[k] != mo.get(k)]
                ctx.disagree("regex_translation", {"line": l}, {k: py[k] for k in keys}, {k: mo.get(k) for k in keys})


# ---- entry points ------------------------------------------------------------------------------------------

def corpus_cases():
    d = os.path.join(common.VERIF, "corpus", "C17")
    out = []
    if os.path.isdir(d):
        for f in sorted(os.listdir(d)):
            if f.endswith(".json"):
                with open(os.path.join(d, f)) as fh:
                    c = json.load(fh)
                c["_corpus"] = f
                out.append(c)
    return out


def case_input(case):
    return {k: v for k, v in case.items() if not k.startswith("_")}


RECOGNISED = ["current", "beta"]       # the tags the harness's startup file makes known (common.mkstacks)


def setup_version_requests(case, r):
    """The model's findSetupVersion asked about every answer `sv` / `spv` of the main expansion: [(name, reported, request)]."""
    if r.get("build_ok") is not True or r.get("tampered") or not r.get("exps") or "answers" not in r["exps"][0]:
        return []
    built, out = r["built"], []
    tn = case.get("tag_named") or {}
    for key in ("sv", "spv"):
        for n, v in r["exps"][0]["answers"][key]:
            rec = built.get(n)
            if rec is None:
                continue
            if rec == "current":
                tagged = case["tags"].get(n)
            elif tn.get("product") == n and tn.get("name") == rec:
                tagged = tn["tagged"]
            else:
                tagged = None
            declared = any(dn == n and dv == rec for dn, dv, _ in case["decl"])
            out.append((n, key, v, {"recorded": rec, "declared": declared, "tagged": tagged}))
    return out


def evaluate(ctx, cases):
    if not cases:
        return
    nw = min(NW, len(cases))
    chunks = [cases[i::nw] for i in range(nw)]
    outs = parallel_map(run_chunk, chunks, workers=nw)
    results = [None] * len(cases)
    for k, ch in enumerate(outs):
        for j, v in enumerate(ch):
            results[k + j * nw] = v
    reqs, where = [], []
    for ci, (c, r) in enumerate(zip(cases, results)):
        for ei, exp in enumerate(r["exps"]):
            if "answers" in exp and "skip" not in exp and "child" not in exp:
                where.append((ci, ei))
                reqs.append(model_request(exp))
    answers = ctx.lean.ask_many(reqs)
    # findSetupVersion: the answers `sv` / `spv` against the model (recorded version; a tag name only when no such version is declared)
    svq = [(ci, q) for ci, (c, r) in enumerate(zip(cases, results)) for q in setup_version_requests(c, r)]
    if svq:
        sva = ctx.lean.ask({"m": "c17", "op": "setupversion", "lines": [], "recognised": RECOGNISED, "cases": [q[3] for _, q in svq]})
        if "bad-op" in sva:
            raise common.InfraError("driver: %s" % sva["bad-op"])
        for (ci, (n, key, v, q)), mv in zip(svq, sva["versions"]):
            ctx.hist("setup_version_checked")
            if q["recorded"] in RECOGNISED:
                ctx.hist("tag_named_version_set_up=%s" % q["recorded"])
            if v != mv:
                ctx.disagree("setup_version", {"case": case_input(cases[ci]), "product": n, "question": key}, v, mv)
    models, hyps, raw = {}, {}, {}
    for (ci, ei), a in zip(where, answers):
        raw[(ci, ei)] = a
        models[(ci, ei)] = model_view(a)
        hyps[(ci, ei)] = model_hyps(a)
        st = same_text(results[ci]["exps"][ei], a)
        if st is not None:
            ctx.hist("text_byte_identical=%s" % st)
    for ci, (c, r) in enumerate(zip(cases, results)):
        inp = case_input(c)
        ok = r.get("build_ok") is True
        nontriv = ok and len(r.get("built", {})) > 1
        topl = build_table(c, *c["top"])
        ctx.case(key={"decl": c["decl"], "tags": c["tags"], "top": c["top"], "opts": c["opts"], "variants": c["variants"]},
                 nontrivial=nontriv, validated=ok,
                 sample=({"top": c["top"], "table": L.table_text(topl), "built": r.get("built"),
                          "expanded": r["exps"][0].get("out") if r["exps"] else None} if ctx.evaluations % 97 == 0 else None))
        ctx.hist("stream=%s" % c["stream"])
        if c.get("tag_named"):
            ctx.hist("tag_named_version=%s" % c["tag_named"]["name"])
        if c.get("pre_history"):
            ctx.hist("process_history=listings_redeclare_build_expand")
            for kind, what in r.get("listings") or []:
                ctx.hist("history_listing=%s%s" % (kind, "" if not isinstance(what, str) else ":" + what))
            if r.get("build_ok") is True and c["pre_history"]["extra"] in r.get("built", {}):
                ctx.hist("history_extra_dependency_set_up")
        if r.get("replay2"):
            if r["replay2"].get("child"):
                raise common.InfraError("replay child failed: %r" % (r["replay2"]["child"],))
            ctx.hist("replay_entry=%s" % r["replay2"]["mode"])
        if c.get("expanded_deps"):
            ctx.hist("has_expanded_dependency_tables")
        for _, _, ls in c["decl"]:
            for l in ls:
                if l["k"] == "unsetup":
                    ctx.hist("unsetup_line=%s%s" % ("optional" if l["optional"] else "required", " -j" if l.get("flags") else ""))
                    if l.get("top"):
                        ctx.hist("top_table_unsetup_line=%s" % l["top"])
        ctx.hist("build=%s" % r.get("build_ok"))
        if not ok:
            continue
        ctx.hist("closure_size=%d" % min(len(r["built"]) - 1, 5))
        for l in topl:
            if l["k"] == "setup" and l.get("in_block"):
                ctx.hist("setup_line_in_own_block=%s" % l["in_block"])
            if l["k"] == "setup":
                sp = l.get("spec") or {}
                ctx.hist("spec=%s" % ("+".join(sorted(sp)) or "bare"))
                for f in l.get("flags") or []:
                    ctx.hist("flag=%s" % f)
                ctx.hist("top_dep=%s" % ("set_up" if l["name"] in r["built"] else "not_set_up"))
        model_main = None
        for ei, exp in enumerate(r["exps"]):
            kind = "main" if ei == 0 else "variant"
            if "child" in exp:
                raise common.InfraError("expansion child failed: %r" % (exp["child"],))
            if "skip" in exp:
                ctx.hist("%s_skipped" % kind)
                continue
            if exp.get("state_dependent"):
                ctx.hist("deps_answer_state_dependent")
            if exp.get("unstable"):
                raise common.InfraError("the environment's answers changed between the query and the call: %r" % exp["unstable"][:3])
            iv = impl_view(exp)
            mv = models.get((ci, ei))
            if ei == 0:
                model_main = mv
            ctx.hist("%s_outcome=%s" % (kind, iv.get("err") or "ok"))
            if mv != iv:
                ctx.disagree("expanded_text" if ei == 0 else "expanded_text_variant",
                             {"case": inp, "expansion": ei}, iv, mv, note=exp.get("errmsg", ""))
            if "cli" in exp:
                # the command-line glue (option parsing, -p list, top-level name from the file name) against the API call
                cli = exp["cli"]
                ctx.hist("cli_checked")
                ctx.hist("cli_mode=%s" % cli.get("mode"))
                if "child" in cli:
                    raise common.InfraError("CLI child failed: %r" % (cli["child"],))
                failed = "err" in cli or cli.get("rc") not in (0, None)
                if "out" in exp:
                    same = (not failed) and cli.get("out") == exp["out"]
                    if cli.get("mode") in ("inplace", "outdir"):
                        same = same and cli.get("stdout") == "" and not cli.get("leftover")
                else:
                    same = failed
                    if cli.get("mode") == "inplace":       # a refused expansion leaves the table as it was and no temporary file behind
                        same = same and cli.get("file") == cli.get("src") and not cli.get("leftover")
                if not same:
                    ctx.disagree("cli_vs_api", {"case": inp, "expansion": ei},
                                 {k: cli.get(k) for k in ("mode", "out", "rc", "err", "errmsg", "stdout", "leftover")},
                                 {"out": exp.get("out"), "err": exp.get("err")})
        main = r["exps"][0]
        if r.get("tampered"):
            ctx.hist("tampered_between_build_and_expansion")
        elif "out" in main:
            blk = L.exact_block(main["out"].split("\n"))
            ctx.hist("exact_block=%s" % ("none" if blk is None else "empty" if not blk else "pins"))
            hy = hyps.get((ci, 0))
            if hy and c["stream"] == "cf" and complete_env(c, r["built"]):
                # the named hypotheses of C17_exact_reproduces_partial, evaluated by the model on the real answers
                for k in ("depsSound", "covered", "noExactLine"):
                    ctx.hist("hyp_%s=%s" % (k, hy[k]))
            if c["stream"] == "cf" and not complete_env(c, r["built"]):
                ctx.hist("cf_incomplete_build_env")
            elif c["stream"] == "cf":
                ctx.hist("cf_exact_resetup=%s" % ("same" if r.get("exact_records") == r["built"] and r.get("exact_ok") is True else "DIFFERS"))
                if L.unsetup_targets(c, r["built"]):
                    ctx.hist("cf_closure_with_unsetup_line_checked")
            else:
                ctx.hist("arb_exact_resetup=%s" % ("same" if r.get("exact_records") == r["built"] and r.get("exact_ok") is True else "differs"))
            # the expanded table read in exact mode: real parser vs the composed model (Expand then TableParse), and the
            # hypotheses of C17_exact_actions_text / C17_exact_setup_actions evaluated on the items of the expansion
            xa, ma = r.get("exact_actions"), (raw.get((ci, 0)) or {}).get("exact") if isinstance(raw.get((ci, 0)), dict) else None
            if isinstance(xa, dict) and isinstance(ma, dict) and model_main == impl_view(main):
                if xa.get("flavor") != main.get("flavor"):
                    raise common.InfraError("flavor differs between the children: %r %r" % (xa.get("flavor"), main.get("flavor")))
                ctx.hist("hyp_itemOK=%s" % ma["itemOK"])
                ctx.hist("hyp_inert=%s" % ma["inert"])
                if not ma["flavorOK"]:
                    raise common.InfraError("the flavor %r is one of the evaluator's special tokens" % (xa.get("flavor"),))
                iv2 = xa["acts"] if not isinstance(xa["acts"], str) else "error"
                if iv2 != ma["direct"]:
                    ctx.disagree("exact_mode_actions", {"case": inp, "expansion": 0}, iv2, ma["direct"])
                elif "process_args" in xa and xa["process_args"] != ma.get("pins"):
                    # the real Action.processArgs against `toPin`, on every setup command of the exact-mode action list
                    ctx.disagree("process_args", {"case": inp, "expansion": 0}, xa["process_args"], ma.get("pins"))
                else:
                    ctx.hist("process_args_checked", len(xa.get("process_args") or []))
                noex = (hyps.get((ci, 0)) or {}).get("noExactLine")
                # inexact mode (setupType build): the real parser on the expanded table vs the composed model, and the theorem's instance
                ra = r.get("actions")
                if isinstance(ra, list) and len(ra) == 2 and "direct_build" in ma:
                    mb = ma["direct_build"] if isinstance(ma["direct_build"], str) else [[a["cmd"], a["args"], a["extra"].get("optional")] for a in ma["direct_build"]]
                    ib = "error" if isinstance(ra[1], str) else ra[1]
                    if ib != mb:
                        ctx.disagree("inexact_mode_actions", {"case": inp, "expansion": 0}, ib, mb)
                    if ma["itemOK"] and c["opts"]["addExactBlock"]:
                        ctx.hist("inexact_actions_theorem_instance")
                        if ma["acts_build"] != ma["direct_build"]:
                            raise common.InfraError("C17_inexact_actions_text contradicted by the driver")
                ctx.hist("hyp_blocksOK=%s" % ma["blocksOK"])
                ctx.hist("hyp_inert2=%s" % ma["inert2"])
                if ma["blocksOK"] and c["opts"]["addExactBlock"]:
                    ctx.hist("exact_actions_blocks_theorem_instance")
                    if ma["composed2"] != ma["direct"]:
                        raise common.InfraError("C17_exact_actions_blocks contradicted by the driver: %r vs %r" % (ma["composed2"], ma["direct"]))
                if ma["itemOK"] and noex and c["opts"]["addExactBlock"]:
                    ctx.hist("exact_actions_theorem_instance")
                    if ma["acts"] != ma["direct"]:
                        # C17_exact_actions_text says this cannot happen: the driver and the theorem talk about different things
                        raise common.InfraError("C17_exact_actions_text contradicted by the driver: %r vs %r" % (ma["acts"], ma["direct"]))
            if r.get("exact_type") is not None and "exact" not in r["exact_type"]:
                raise common.InfraError("the re-setup did not run in exact mode: setupType=%r" % (r["exact_type"],))
        for clause, cls, detail, ei in oracle_case(c, r):
            exp = r["exps"][ei]
            ctx.fail(clause, {"case": inp, "expansion": ei}, impl_view(exp), models.get((ci, ei)), note=detail, finding=cls)


EXH_FORMS = ["setupRequired(b)", "setupOptional(x)", "setupRequired(c >= 1)", "setupOptional(d -j 1 [>= 1])", "envSet(A, 1)  # c", "",
             "# c", "if (flavor == Linux) {", "}", "} else {", "setupRequired(b --external)", "if (type == exact) {",
             "setupRequired(eups)", "setupRequired(q)"]


def exhaustive_cases(maxlen, chunk=150):
    """Every table of 1..maxlen lines over EXH_FORMS, expanded in one fixed build environment
    (a 1 -> b 1 -> c 2, d 1 set up with -j, x absent, q required but not set up)."""
    import itertools
    P = {"k": "cmd", "text": "envPrepend(PATH, ${PRODUCT_DIR}/bin)"}

    def S(name, optional=False, spec=None, flags=()):
        return {"k": "setup", "optional": optional, "name": name, "spec": spec, "flags": list(flags), "deco": {}}
    decl = [["a", "1", [P, S("b"), S("d", True, None, ["-j"]), S("x", True)]], ["b", "1", [P, S("c", False, {"e": ">= 1"})]],
            ["c", "2", [P]], ["d", "1", [P, S("c")]]]
    opts = {"pins": {}, "force": False, "expandVersions": True, "addExactBlock": True, "toplevel": "a", "recurse": True}
    texts = []
    for k in range(1, maxlen + 1):
        for combo in itertools.product(EXH_FORMS, repeat=k):
            texts.append("\n".join(combo) + "\n")
    cases = []
    for i in range(0, len(texts), chunk):
        cases.append({"names": ["a", "b", "c", "d"], "decl": decl, "tags": {"a": "1", "b": "1", "c": "2", "d": "1"},
                      "build": {"a": "1", "b": "1", "c": "2", "d": "1"}, "top": ["a", "1"], "stream": "cf", "inexact_build": False,
                      "final_newline": True, "evolve": [], "expanded_deps": [], "opts": opts, "_exhaustive": True,
                      "variants": [{"text": t, "opts": opts} for t in texts[i:i + chunk]]})
    return cases


# ---- shrinking ------------------------------------------------------------------------------------------------

def eval_one(ctx, case):
    """-> (result, [(clause, class, detail, expansion)], {expansion: (impl_view, model_view)})"""
    (r,) = run_chunk([case])
    views = {}
    if r.get("build_ok") is not True:
        return r, [], views
    for ei, exp in enumerate(r["exps"]):
        if "answers" in exp and "skip" not in exp and "child" not in exp:
            views[ei] = (impl_view(exp), model_view(ctx.lean.ask(model_request(exp))))
    return r, list(oracle_case(case, r)), views


def shrink_case(ctx, case, clause, ei, budget=60):
    """Delta-debug the generator-level description while some expansion still fails `clause`."""
    tests = [0]

    def still(c):
        if tests[0] >= budget:
            return False
        tests[0] += 1
        try:
            _, fails, _ = eval_one(ctx, c)
        except Exception:  # noqa
            return False
        return any(f[0] == clause for f in fails)

    cur = json.loads(json.dumps(case_input(case)))
    # 1. only the failing expansion
    cand = dict(cur)
    cand["variants"] = [cur["variants"][ei - 1]] if ei > 0 else []
    if cand["variants"] != cur["variants"] and still(cand):
        cur = cand
    # 2. no syntactic decoration, no expanded dependency tables, no CLI run
    cand = json.loads(json.dumps(cur))
    for _, _, lines in cand["decl"]:
        for l in lines:
            if l["k"] == "setup":
                l["deco"] = {}
    cand["expanded_deps"], cand["cli_check"] = [], False
    if still(cand):
        cur = cand
    # 3. shorter history, fewer products, fewer lines in the top table
    for field in ("evolve", "decl"):
        keep = [e for e in cur[field] if field == "decl" and e[:2] == cur["top"]]
        rest = [e for e in cur[field] if e not in keep]
        if not rest:
            continue
        if still(dict(cur, **{field: keep})):
            cur = dict(cur, **{field: keep})
        else:
            small = common.ddmin(rest, lambda sub: still(dict(cur, **{field: keep + sub})), max_tests=15)
            cur = dict(cur, **{field: keep + small})
    top = [e for e in cur["decl"] if e[:2] == cur["top"]][0]
    others = [e for e in cur["decl"] if e[:2] != cur["top"]]

    def with_top(lines):
        return dict(cur, decl=[[top[0], top[1], lines]] + others)
    if len(top[2]) > 1:
        small = common.ddmin(top[2], lambda sub: still(with_top(sub)), max_tests=20)
        cur = with_top(small)
    return cur


def shrink_failures(ctx, limit=3):
    done = set()
    for fl in ctx.failures:
        if fl["clause"] in done or len(done) >= limit or ctx.time_left() < 20:
            continue
        if not isinstance(fl["input"], dict) or "case" not in fl["input"]:
            continue
        done.add(fl["clause"])
        ei = fl["input"].get("expansion", 0)
        try:
            small = shrink_case(ctx, fl["input"]["case"], fl["clause"], ei)
            r, fails, views = eval_one(ctx, small)
        except Exception as e:  # noqa
            ctx.note("shrinking failed: %r" % e)
            continue
        same = [f for f in fails if f[0] == fl["clause"]]
        if not same:
            continue
        cl, cls, detail, nei = same[0]
        iv, mv = views.get(nei, (None, None))
        fl.update(input={"case": small, "expansion": nei}, impl_output=iv, model_output=mv, note=detail + " [shrunk from %s]" % common.digest(fl["input"]),
                  finding_class=cls)


def run(ctx):
    import time
    big = ctx.tier == "thorough" or ctx.escalated
    # -- the ordinary quick portion, always first and complete (also when the mirrored source changed and `check` escalated the
    #    budget: the new input classes live in the generated stream, which must not be starved by the enlarged enumerations)
    cases = corpus_cases()
    ctx.hist("corpus", len(cases))
    evaluate(ctx, cases)
    evaluate_regexes(ctx, 20000)
    ex = exhaustive_cases(2)
    ctx.hist("exhaustive_small_tables", sum(len(c["variants"]) for c in ex))
    evaluate(ctx, ex)
    batch = 120
    done = 0
    soft = ctx.t0 + 120                  # keep the quick portion near two minutes on a busy machine, never below 360 graphs
    while done < 1200 and not ctx.out_of_time() and not (time.time() > soft and done >= 360):
        k = min(batch, 1200 - done)
        evaluate(ctx, [L.gen_case(ctx.rng) for _ in range(k)])
        done += k
    # -- the enlarged budget (thorough tier, or quick tier escalated because a mirrored function changed), round-robin over
    #    the three families so that none is starved when the time limit cuts the run short
    if big and not ctx.out_of_time():
        ex3 = [c for c in exhaustive_cases(3) if any(v["text"].count("\n") == 3 for v in c["variants"])]
        ctx.hist("exhaustive_small_tables", sum(len(c["variants"]) for c in ex3))
        rex_left = 280000
        while (done < 30000 or ex3 or rex_left > 0) and not ctx.out_of_time():
            if done < 30000:
                k = min(batch, 30000 - done)
                evaluate(ctx, [L.gen_case(ctx.rng) for _ in range(k)])
                done += k
            if ex3 and not ctx.out_of_time():
                evaluate(ctx, [ex3.pop()])
            if rex_left > 0 and not ctx.out_of_time():
                evaluate_regexes(ctx, 20000)
                rex_left -= 20000
    if ctx.failures:
        shrink_failures(ctx)
    h = ctx.histogram
    if ctx.evaluations >= 100:
        if h.get("build=True", 0) < 0.5 * ctx.evaluations:
            raise common.InfraError("degenerate distribution: only %d of %d builds succeeded" % (h.get("build=True", 0), ctx.evaluations))
        if ctx.evaluations >= 300 and sum(v for k, v in h.items() if k.startswith("tag_named_version_set_up=")) < 3:
            raise common.InfraError("degenerate distribution: a version named like a recognised tag was set up in fewer than 3 of %d cases" % ctx.evaluations)
        if ctx.evaluations >= 300 and h.get("history_extra_dependency_set_up", 0) < 3:
            raise common.InfraError("degenerate distribution: the history `listings, redeclare, build, expand` in one process set the extra "
                                    "dependency up in fewer than 3 of %d cases" % ctx.evaluations)
        if ctx.evaluations >= 300 and not all(h.get("replay_entry=%s" % m) for m in REPLAY_MODES[1:]):
            raise common.InfraError("degenerate distribution: an entry point of the exact replay was never exercised")
        if ctx.evaluations >= 300 and not any(k.startswith("top_table_unsetup_line=") for k in h):
            raise common.InfraError("degenerate distribution: no unsetup line in an expanded table among %d cases" % ctx.evaluations)
        nb = h.get("hyp_blocksOK=True", 0) + h.get("hyp_blocksOK=False", 0)
        if nb >= 100 and h.get("hyp_blocksOK=True", 0) < 0.8 * nb:
            raise common.InfraError("degenerate distribution: the scope condition of C17_exact_actions_blocks holds on only %d of %d expansions"
                                    % (h.get("hyp_blocksOK=True", 0), nb))
        if h.get("cli_checked", 0) >= 100 and not all(h.get("cli_mode=%s" % m) for m in set(CLI_MODES)):
            raise common.InfraError("degenerate distribution: an `eups expandtable` destination mode was never exercised")
        if h.get("exact_block=pins", 0) < 0.3 * ctx.evaluations:
            raise common.InfraError("degenerate distribution: only %d of %d expansions have a non-empty exact block" % (h.get("exact_block=pins", 0), ctx.evaluations))


def replay(ctx, rp):
    inp = rp["input"]
    case = inp["case"] if "case" in inp else inp
    ei = inp.get("expansion", 0)
    (r,) = run_chunk([case])
    out = {"input": inp, "build_ok": r.get("build_ok"), "built": r.get("built")}
    fails = []
    if r.get("build_ok") is True:
        exp = r["exps"][ei]
        iv = impl_view(exp)
        a = ctx.lean.ask(model_request(exp)) if "answers" in exp else None
        mv = model_view(a) if a is not None else None
        xa, ma = r.get("exact_actions"), (a.get("exact") if isinstance(a, dict) else None)
        xagree = True
        if ei == 0 and isinstance(xa, dict) and isinstance(ma, dict) and iv == mv:
            xagree = (xa["acts"] if not isinstance(xa["acts"], str) else "error") == ma["direct"]
        out.update(impl_output=iv, model_output=mv, agree=(iv == mv and xagree), exact_records=r.get("exact_records"),
                   exact_ok=r.get("exact_ok"), actions=r.get("actions"), exact_actions=xa,
                   model_exact_actions=(ma or {}).get("direct"))
        fails = [{"clause": cl, "class": k, "detail": d, "expansion": i} for cl, k, d, i in oracle_case(case, r)]
    out["fails"] = fails
    return out
