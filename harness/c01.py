"""C01 — setup yields a consistent environment with no residue of superseded versions.

Implementation: Eups(readCache=False, keep, max_depth); selectVRO(tag, versionName, inexact_version);
eups.app.setup(...), or the whole command line setupcmd.EupsSetup(argv).run() — one forked child per request, histories
of requests on one environment.
Model: lean/EupsModel/Model/Setup.lean through the driver handler "c01".
Oracle (ii): clauses (a) <P>_DIR is the declared directory, (b) own table contributions present, (c) no element under
the directory of a version that is not the recorded one, (4) explicit top-level version, (5) closure — all computed
from the generator's graph and the implementation's environment (harness/lib_setup.py).
Oracle (i) includes the command list of eups.app.setup, string by string (Model/SetupEmit.lean)."""
from . import common
from . import lib_setup as L

RULE = ("case = product graph (3-7 names x 1-3 versions, DAG by name order, required/optional edges with bare / explicit / "
        "relational / 'v [expr]' specs, -j, if (type == exact) blocks, random current/beta tags; ~10% with name-level "
        "cycles across versions) + prior environment + history of 1-5 requests (setup/unsetup, keep, max-depth, just, "
        "explicit/bare/relational top-level version, -t beta, --inexact per history); dependency lines with their own "
        "-t (15%) / -k (8%), multi-element envPrepend values, directory-less products, a second stack on 30% of graphs; "
        "30% of the requests go through the command line entry point setupcmd.EupsSetup(argv).run() (-u -k -j/-S -t -E -Z "
        "and the printed command text), the others call eups.app.setup; the command list is compared string by string; "
        "setup --type build with if (type == build) blocks; input classes with floors: all versions of a product sharing ONE "
        "table file (${PRODUCT_VERSION}) and switched, own directory spelled ${<NAME>_DIR} in the middle of a value, a "
        "set-up bystander named <requested product>_<suffix>, a version named like a recognised tag set up and replaced, "
        "products / variables named eups_… / EUPS_…; sessions: ONE Eups object serving 2-4 top-level Eups.setup calls (16 per "
        "batch, half aimed at a dependency asked for differently by two calls); "
        "a case is non-trivial when some "
        "request changes the environment; distinct = distinct (graph, prior, history) digests")
TRUSTED = ["harness/lib_setup.py: generator, canonicaliser (element lists split at the variable's delimiter, $S for the "
           "stack root), the tagging of strings as own/foreign elements in lean/EupsModel/Drv/C01.lean",
           "CPython dict/str semantics, os.environ handling, fork"]
ASSUMPTIONS = ["one or two stacks (a product may be declared in both under one version name; EUPS_PATH is drawn per request), "
               "session flavor Linux (C04 has an aimed stream with one product declared -f generic, set up once and then only "
               "met again under --keep: the flavor fallback loop of Eups.setup — first round on Linux declarations with its "
               "already-set-up fallback, second round on generic ones — is not modelled, the record's -f flavor is); "
               "product directories distinct and not nested ('none' for directory-less products); versions are dotted numbers",
               "tables contribute through ${PRODUCT_DIR} or literals that lie under no product directory; no table writes "
               "SETUP_*/*_DIR or uses one variable both as a path and as an envSet target",
               "prior environments are the ones eups itself produced over still-declared versions (clause (c) is "
               "evaluated only when the prior environment satisfies (a)-(c))",
               "requests nesting deeper than %d levels of Eups.setup (possible only on name-cyclic graphs, where the code "
               "runs into the interpreter's recursion limit) are compared on that fact only" % L.FUEL]
PID = "C01"
MIRRORS = L.mirrors(PID)


def run(ctx):
    stats = {}
    corpus = L.load_corpus(PID)
    L.evaluate(ctx, PID, [c for c in corpus if not c.get("session")], stats)
    L.evaluate_sessions(ctx, PID, [c for c in corpus if c.get("session")], stats)
    target = ctx.n(4500, 60000)
    done = 0
    import time
    soft = L.soft_deadline(ctx)
    while done < target and not ctx.out_of_time() and time.time() < soft:
        batch = [L.gen_case(ctx.rng) for _ in range(96)]
        L.evaluate(ctx, PID, batch, stats)
        done += sum(len(c["history"]) for c in batch)
        # one Eups object serving several top-level calls (API use)
        L.evaluate_sessions(ctx, PID, [L.gen_session_case(ctx.rng) for _ in range(16)], stats)
    if ctx.tier == "thorough":
        # exhaustive: all 4096 graphs over 3 names x 2 versions of lib_setup.small_graphs
        batch = []
        for c in L.small_graphs():
            batch.append(c)
            if len(batch) == 256:
                if ctx.out_of_time():
                    ctx.note("exhaustive enumeration cut short by the time budget")
                    break
                L.evaluate(ctx, PID, batch, stats)
                batch = []
        if batch and not ctx.out_of_time():
            L.evaluate(ctx, PID, batch, stats)
    for k, v in sorted(stats.items()):
        ctx.hist("stat_" + k, v)
    ok = stats.get("ok", 0)
    if done >= 300 and (ok < done * 0.3 or stats.get("switched", 0) < ok * 0.05 or stats.get("c01_prior_ok", 0) < ok * 0.5):
        raise common.InfraError("degenerate distribution: %r of %d requests" % (stats, done))
    floors = {"class_shared_table_switch": 5, "class_prefix_bystander": 5, "class_mid_reference": 10, "class_tag_named": 5,
              "class_session_switch": 5}
    low = {k: stats.get(k, 0) for k, f in floors.items() if stats.get(k, 0) < f}
    if done >= 600 and low:
        raise common.InfraError("input classes of round 3 under their floors %r: %r of %d requests" % (floors, low, done))
    if done >= 300 and ctx.histogram.get("entry=setupcmd", 0) < done * 0.15:
        raise common.InfraError("too few requests through the command line entry point: %r of %d" % (ctx.histogram.get("entry=setupcmd", 0), done))
    if done >= 300 and (stats.get("sh_compared", 0) < ok * 0.6 or stats.get("sh_quoted", 0) < 20):
        raise common.InfraError("command lists compared string by string on too few requests: %r of %d" % (stats, done))


def replay(ctx, rp):
    return L.replay_case(ctx, PID, rp)
