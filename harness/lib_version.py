"""Version-name grammars, structured descriptions and the order clauses of C10 (no model, no eups).

A *conventional name* is described by a dict
    {"prefix": letters, "nums": [digit strings], "seps": [one of . _ per gap], "pre": text|None, "post": text|None}
and written  prefix nums[0] seps[0] nums[1] ... [-pre] [+post].
The clauses of the property that fix the order of two such names are evaluated from the descriptions alone."""
import itertools
import re

ALPHABET = "ABCXYZabcmpvwxyz0123456789._+-"          # a sample of the well-formed alphabet [A-Za-z0-9._+-]

# ---- the 1,404-name grammar of the design round ----------------------------------------------------

G_PREFIX = ["", "v"]
G_COMPS = [["1"], ["2"], ["10"], ["1", "0"], ["1", "2"], ["1", "10"], ["1", "2", "0"], ["1", "2", "3"]]
G_PRES = [None, "rc1", "rc2", "rc10", "1", "2", "10", "beta1", "a.1"]
G_POSTS = [None, "1", "2", "10", "hack", "1.1"]


def render(d):
    s = d["prefix"] + d["nums"][0]
    for sep, n in zip(d["seps"], d["nums"][1:]):
        s += sep + n
    if d["pre"]:
        s += "-" + d["pre"]
    if d["post"]:
        s += "+" + d["post"]
    return s


def grammar1404():
    out = []
    for pre in G_PREFIX:
        for comps in G_COMPS:
            for sep in "._":
                if len(comps) == 1 and sep == "_":
                    continue
                for a in G_PRES:
                    for b in G_POSTS:
                        out.append({"prefix": pre, "nums": list(comps), "seps": [sep] * (len(comps) - 1), "pre": a, "post": b})
    return out


# ---- a wider conventional grammar: mixed separators inside a name, leading zeros, more prefixes --------

W_PREFIX = ["", "", "", "v", "v", "w", "rel", "V"]
W_NUMS = ["0", "1", "1", "2", "3", "9", "10", "11", "12", "20", "100", "01", "02", "010", "001", "00"]
W_PRES = [None, None, None, "rc1", "rc2", "rc10", "rc01", "1", "2", "10", "beta1", "beta", "a.1", "a.2", "alpha2", "b_1", "rc"]
W_POSTS = [None, None, None, "1", "2", "10", "01", "hack", "1.1", "1.2", "svn100", "svn99", "x_2"]


def random_conventional(rng):
    n = rng.choice([1, 2, 2, 3, 3, 4])
    mode = rng.random()
    if mode < 0.4:
        seps = ["."] * (n - 1)
    elif mode < 0.7:
        seps = ["_"] * (n - 1)
    else:
        seps = [rng.choice("._") for _ in range(n - 1)]
    return {"prefix": rng.choice(W_PREFIX), "nums": [rng.choice(W_NUMS) for _ in range(n)], "seps": seps,
            "pre": rng.choice(W_PRES), "post": rng.choice(W_POSTS)}


def neighbours(rng, d):
    """Descriptions that differ from d in one respect (the pairs the clauses talk about)."""
    out = []
    e = dict(d, nums=list(d["nums"]), seps=list(d["seps"]))
    i = rng.randrange(len(e["nums"]))
    e["nums"][i] = rng.choice(W_NUMS)
    out.append(e)                                                     # one component changed
    out.append(dict(d, nums=d["nums"] + [rng.choice(W_NUMS)], seps=d["seps"] + [rng.choice("._")]))   # longer
    out.append(dict(d, pre=None))                                     # the plain release / post-release
    out.append(dict(d, pre=None, post=None))
    out.append(dict(d, post=None))
    if d["seps"]:
        out.append(dict(d, seps=["_" if s == "." else "." for s in d["seps"]]))     # other separators
    out.append(dict(d, nums=["0" + x if rng.random() < 0.5 else x for x in d["nums"]]))   # leading zeros
    return out


_CONV_RE = re.compile(r"^([A-Za-z]*)(\d+(?:[._]\d+)*)(?:-([A-Za-z0-9._]+))?(?:\+([A-Za-z0-9._]+))?$")


def parse_conventional(name):
    """Inverse of render() on the conventional grammar; None for any other string."""
    m = _CONV_RE.match(name)
    if not m:
        return None
    prefix, body, pre, post = m.groups()
    for part in (pre, post):
        if part is not None and (not all(re.match(r"^[A-Za-z]*\d*$", c) and c for c in re.split(r"[._]", part))
                                 or re.search(r"[mp]\d+$", part)):
            return None
    if (prefix.endswith("m") or prefix.endswith("p")) and pre is None and post is None and re.match(r"^\d+$", body):
        return None                                  # "m3"/"p3": the VVVm#/VVVp# spelling, not a prefixed number
    if pre is None and post is None and re.search(r"[mp]\d+$", name):
        return None
    nums = re.split(r"[._]", body)
    seps = re.findall(r"[._]", body)
    return {"prefix": prefix, "nums": nums, "seps": seps, "pre": pre, "post": post}


# ---- what the property says about two conventional names ------------------------------------------------

def sgn(x):
    return "<" if x < 0 else ">" if x > 0 else "="


def flip(c):
    return {"<": ">", ">": "<"}.get(c, c)


def expected(a, b):
    """(clause, expected sign of cmp(a, b)) when the property's clauses fix it, else None.  a, b descriptions."""
    if a["prefix"] != b["prefix"]:
        return None
    ia, ib = [int(x) for x in a["nums"]], [int(x) for x in b["nums"]]
    if ia != ib:
        k = min(len(ia), len(ib))
        if ia[:k] == ib[:k]:
            return ("longer_follows_prefix", "<" if len(ia) < len(ib) else ">")
        i = next(i for i in range(k) if ia[i] != ib[i])
        return ("numeric", sgn(ia[i] - ib[i]))
    if a["pre"] and not b["pre"]:
        return ("prerelease_precedes", "<")
    if b["pre"] and not a["pre"]:
        return ("prerelease_precedes", ">")
    if (a["pre"] or None) == (b["pre"] or None):      # the same release or the same pre-release, with / without +post
        if a["post"] and not b["post"]:
            return ("postrelease_follows", ">")
        if b["post"] and not a["post"]:
            return ("postrelease_follows", "<")
        if (a["post"] or None) == (b["post"] or None):
            return ("numeric", "=")              # same numbers, spelt with other separators / leading zeros
    return None


def uniform_sep(*ds):
    seps = set(s for d in ds for s in d["seps"])
    return len(seps) <= 1


def no_leading_zeros(*ds):
    return all(len(n) == 1 or not n.startswith("0") for d in ds for n in d["nums"])


# ---- transitivity over a whole matrix, by bit sets ------------------------------------------------------

def intransitive_triples(rows, idx, limit=5):
    """rows[i][j] in '<=>' (anything else: not comparable).  idx: the indices to consider.
    Returns up to `limit` triples (i, j, k) with i<=j and j<=k but not i<=k; exhaustive over idx^3.
    (With antisymmetry, which is checked separately, this is the whole of transitivity: the strict
    variants follow.)"""
    idx = list(idx)
    pos = {i: p for p, i in enumerate(idx)}
    le = {}
    for i in idx:
        m = 0
        r = rows[i]
        for j in idx:
            if r[j] in "<=":
                m |= 1 << pos[j]
        le[i] = m
    out = []
    for i in idx:
        m = le[i]
        reach = 0
        for j in idx:
            if (m >> pos[j]) & 1:
                reach |= le[j]
        bad = reach & ~m
        if bad:
            for k in idx:
                if (bad >> pos[k]) & 1:
                    j = next(j for j in idx if (m >> pos[j]) & 1 and (le[j] >> pos[k]) & 1)
                    out.append((i, j, k))
                    if len(out) >= limit:
                        return out
    return out


# ---- arbitrary strings and expressions ------------------------------------------------------------------

def random_arbitrary(rng):
    r = rng.random()
    if r < 0.55:
        n = rng.choice([0, 1, 1, 2, 2, 3, 3, 4, 5, 6, 8])
        w = "0123456789" * 3 + "ab" * 2 + "mpvABxyz" + "..__" * 2 + "+-" * 3
        return "".join(rng.choice(w) for _ in range(n))
    if r < 0.8:          # a conventional name with one or two random edits
        s = list(render(random_conventional(rng)))
        for _ in range(rng.choice([1, 1, 2])):
            k = rng.random()
            p = rng.randrange(len(s) + 1)
            if k < 0.4 and s:
                s[min(p, len(s) - 1)] = rng.choice(ALPHABET)
            elif k < 0.8:
                s.insert(p, rng.choice(ALPHABET))
            elif s:
                del s[min(p, len(s) - 1)]
        return "".join(s)
    if r < 0.9:          # several hyphens: the whole name is the primary part; signs inside components
        parts = [rng.choice(["a", "1", "+1", "-1", "a+1", "aa1", "a+", "x", "-x", "+", "12", "a1", "1a", ""]) for _ in range(rng.randint(2, 4))]
        return rng.choice(["x-y-", "1-2-", "--", "a-b-c.", "r-"]) + rng.choice("._").join(parts)
    # the VVVm# / VVVp# spellings and odd tails
    return rng.choice(["1.2", "v1", "", "1", "rc", "1.2-rc", "1.2+x", "a"]) + rng.choice(["m1", "p2", "m", "p", "m01", "pm3", "-", "+", "-+", "+-1", "++1m3", "-1-", "+1+2"])


OPS = ["<", "<=", "==", ">=", ">"]


def random_expr(rng, names, odd):
    """(text, terms, pure) — terms = [(op, v)], pure = the text is exactly an `||` chain of well-formed terms."""
    n = rng.choice([1, 1, 1, 2, 2, 3, 4])
    terms, pieces = [], []
    pure = True
    for i in range(n):
        op = rng.choice(OPS + [None])
        v = rng.choice(names) if rng.random() < 0.92 else rng.choice(odd)
        terms.append((op or "==", v))
        sp1, sp2 = rng.choice(["", " ", "  "]), rng.choice(["", " ", " ", "\t"])
        if op is None:
            pieces.append(v)
        else:
            pieces.append(sp1 + op + sp2 + v)
        if i < n - 1:
            c = rng.random()
            if c < 0.8:
                pieces.append(rng.choice([" || ", "||", " ||", " or "]))
            elif c < 0.92:
                pieces.append(rng.choice([" && ", " and ", "&&"]))
                pure = False
            else:
                pieces.append(" ")
                pure = False
    text = "".join(pieces)
    r = rng.random()
    if r < 0.04:
        text += rng.choice([" >=", "<", " ==", " ||", " &&", " = 1.0", " (", "|", " === 2"])
        pure = False
    elif r < 0.06:
        text = rng.choice(["= 1.0", "", " ", "||", ">", "and", "1.0 2.0", "1.0|2.0", "=1"]) + ("" if r < 0.05 else " " + text)
        pure = False
    if any(not re.match(r"^[A-Za-z0-9._+-]+$", v) or v in ("and", "or") for _, v in terms):
        pure = False
    if "&&" in text:        # "a&&b" without blanks is one odd token
        pure = False
    return text, terms, pure
