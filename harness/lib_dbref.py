"""Reference of the *property* C06 (not of the code): what a history of declare / undeclare / tag
commands implies for a fresh reader of the database, under the reading of DESIGN 6 "C06":

* a declaration is keyed by (stack, name, version, flavor) and carries the directory and table it was
  declared with; the first version of a product that a command can see declared becomes `current`;
* a tag (tag, name, flavor) is ONE designation on the whole EUPS_PATH: assigning it removes it wherever it
  was and puts it on the version's stack, so resolving it (first stack that carries it) yields the version it
  was last assigned to;
* the table of a declaration is the file it was declared with: `<dir>/ups/<name>.table` ("default"), none, a file
  kept elsewhere (its path), or — table given as a stream — the copy in the extra directory of the declaration
  ("interned"); two tables are the same when their bytes are;
* undeclaring removes the declaration and every tag on it; a conflicting redeclaration without force and
  without a tag is refused; with a tag only the tag is assigned; refusals and dry runs change nothing;
* every command sees the whole database (every stack, the native and the fallback flavor).  This is where
  the reference is deliberately *not* the code: the code reads through the product cache (which, since the
  repair of D16, shows the same).

Nothing here looks at the Lean model or at eups.  State: decl[(si, n, v, f)] = (dir, table),
tags[(si, t, n, f)] = v."""

NST = 2


class Refused(Exception):
    pass


class NotFound(Exception):
    pass


class Failed(Exception):
    pass


class TableMissing(Exception):
    pass


def fallbacks(f):
    return [f] if f == "generic" else [f, "generic"]


class Ref:
    def __init__(self, dirs, tfiles=()):
        """dirs: iterable of (stack index, relative path) that exist, each holding ups/<name>.table for the
        name in its path; tfiles: [[stack index, path], content id] of the table files kept elsewhere"""
        self.dirs = {(d[0], d[1]) for d in dirs}
        self.tfiles = {(d[0], d[1]): cid for d, cid in tfiles}
        self.any_path_below_ups_db_is_own = False      # class predicate of D38 only
        self.streamed_table_not_compared = False       # class predicate of D39 only
        self.foreign_setup_flavor_known = False        # class predicate of D44 only
        self.decl = {}
        self.tags = {}
        self.loaded = None      # class predicate of D16 only: flavors each stack shows to the command
        self.extras = {}        # extra files (-L): (si, flavor, n, v) -> {path: content}

    # ---- what a reader sees ---------------------------------------------------------------------
    def listing(self):
        return {"decls": sorted([[k[0], k[1], k[2], k[3], list(v[0]), v[1]] for k, v in self.decl.items()],
                                key=lambda x: repr(x)),
                "tags": sorted([[k[0], k[1], k[2], k[3], v] for k, v in self.tags.items()])}

    def load(self, listing):
        self.decl = {(d[0], d[1], d[2], d[3]): (tuple(d[4]) if isinstance(d[4], list) else d[4], d[5])
                     for d in listing["decls"]}
        self.tags = {(t[0], t[1], t[2], t[3]): t[4] for t in listing["tags"]}

    # ---- table files ---------------------------------------------------------------------------------
    @staticmethod
    def interned_path(key):
        si, n, v, f = key
        return (si, "ups_db/%s/%s/%s/ups/%s.table" % (f, n, v, n))

    def file_content(self, path):
        """content id of the file at (stack index, relative path): a table file kept elsewhere or an extra file"""
        path = tuple(path)
        if path in self.tfiles:
            return self.tfiles[path]
        parts = path[1].split("/")
        if len(parts) >= 5 and parts[0] == "ups_db":
            return self.extras.get((path[0], parts[1], parts[2], parts[3]), {}).get("/".join(parts[4:]))
        return None

    def table_content(self, key):
        """content id of the table file the declaration `key` points at (0: the table of an installation directory);
        None: it has none, or the file is not there"""
        d, t = self.decl[key]
        if t == "none":
            return None
        if t == "default":
            dd = tuple(d) if isinstance(d, (list, tuple)) else d
            return 0 if dd in self.dirs and dd[1].split("/")[1] == key[1] else None
        if t == "interned":
            return self.file_content(self.interned_path(key))
        return self.file_content(t)

    def load_extras(self, extras):
        """[[stack, flavor, name, version, path, content id]..] as parsed from the extra directories"""
        self.extras = {}
        for si, f, n, v, path, cid in extras:
            self.extras.setdefault((si, f, n, v), {})[path] = cid

    def sees(self, si, f):
        return self.loaded is None or f in self.loaded[si]

    def find(self, n, v, f, stacks):
        for si in stacks:
            if (si, n, v, f) in self.decl and self.sees(si, f):
                return (si, n, v, f)
        return None

    def resolve(self, t, n, f, stacks=range(NST)):
        """first stack on the path that carries the tag on a declared version"""
        for si in stacks:
            v = self.tags.get((si, t, n, f))
            if v is not None and (si, n, v, f) in self.decl and self.sees(si, f):
                return (si, n, v, f)
        return None

    def visible(self, n, f, stacks=range(NST)):
        """distinct (version, flavor) of the product an instance of flavor f can see"""
        out = []
        for k in sorted(self.decl):
            if k[0] in stacks and k[1] == n and k[3] in fallbacks(f) and self.sees(k[0], k[3]) and (k[2], k[3]) not in out:
                out.append((k[2], k[3]))
        return out

    # ---- commands -----------------------------------------------------------------------------------
    def apply(self, c, loaded=None):
        """Apply one command; returns the outcome enum.  A refused or failing command leaves the state as
        the property says it must (unchanged for refusals and dry runs).  `loaded` (flavors per stack) restricts
        what the command can see; it is used only to decide whether a failure belongs to finding D16."""
        self.loaded = loaded
        try:
            getattr(self, "_" + c["op"])(c)
            return "ok"
        except Refused:
            return "Refused"
        except NotFound:
            return "NotFound"
        except Failed:
            return "Other:RuntimeError"
        except TableMissing:
            return "Other:TableFileNotFound"
        finally:
            self.loaded = None

    def _query(self, c):
        pass

    def _rmcache(self, c):
        pass

    def _clearcache(self, c):
        pass

    def _adminbuild(self, c):
        pass

    def _envrmdir(self, c):
        self.dirs.discard(tuple(c["dir"]))              # deleted by hand: the database is not told

    def _set_tag(self, t, key):
        si, n, v, f = key
        for s in range(NST):
            self.tags.pop((s, t, n, f), None)          # the tag moves: it is nowhere else on the path
        self.tags[(si, t, n, f)] = v

    def _declare(self, c):
        f, n, v = c.get("flavor", "Linux"), c["name"], c["version"]
        tag, force, dry = c.get("tag"), bool(c.get("force")), bool(c.get("noaction"))
        stacks = range(NST) if c.get("stack") is None else [c["stack"]]
        d = tuple(c["dir"]) if c.get("dir") is not None else None
        # the table the call names: None (not given), "none", ("file", path), ("stream", content id)
        targ = c.get("table")
        table = None
        if targ == "none":
            table = "none"
        elif targ:
            table = ("file", tuple(targ[1])) if targ[0] == "path" else ("stream", targ[1])
        if tag and (d is None or table is None):
            # "use of this input will simply assign this tag": the existing declaration supplies what is omitted
            for fl in fallbacks(f):
                k = self.find(n, v, fl, stacks)
                if k:
                    od, ot = self.decl[k]
                    if d is None:
                        d = od
                    if table is None and d == od:
                        # ... its table FILE: the interned copy of another declaration is a file kept elsewhere
                        table = ot if ot in ("default", "none") else \
                            ("file", self.interned_path(k) if ot == "interned" else tuple(ot))
                    break
        if d is None:
            for si in range(NST):
                for fl in fallbacks(f):
                    if (si, "%s/%s/%s" % (fl, n, v)) in self.dirs:
                        d = (si, "%s/%s/%s" % (fl, n, v))
                        break
                if d:
                    break
        if d is None or d not in self.dirs:
            raise Refused()
        if table is None:
            table = "default"
        target = c["stack"] if c.get("stack") is not None else (d[0] if d[0] < NST else 0)
        key = (target, n, v, f)
        ext = {p: cid for p, cid in c.get("ext") or []}
        have = self.extras.get((target, f, n, v))
        listed = dict(ext)              # what the call says the extra directory holds
        if table == "default":
            if d[1].split("/")[1] != n:
                raise Refused()                            # no ups/<name>.table there
            content = 0
        elif table == "none":
            content = None
        elif table[0] == "stream":
            content = None if self.streamed_table_not_compared else table[1]
            ext["ups/%s.table" % n] = table[1]               # the stream is saved beside the external files (and, in D39's
            #                                                  class, compared only as one of them)
            listed = dict(ext)
            table = "interned"
        elif table[1] == self.interned_path(key) or \
                (self.any_path_below_ups_db_is_own and table[1][0] == target and table[1][1].startswith("ups_db/")):
            # the declaration's own interned table, named by its path: it stays, with what lies beside it
            content = None
            listed = {p: cid for p, cid in (have or {}).items() if p.startswith("ups/") and "/" not in p[4:]}
            listed.update(ext)                             # what the call lists itself comes first
            table = "interned"
        else:
            content = self.file_content(table[1])
            if content is None:
                raise Refused()                            # the table file does not exist
            table = list(table[1])
        if not tag and not self.visible(n, f):
            tag = "current"
        old = self.decl.get(key) if self.sees(target, f) else None
        write = True
        if old is not None and not force:
            conflict = old[0] != d or (content is not None and self.table_content(key) != content) or \
                bool(have and have != listed)
            if conflict and not tag:
                raise Refused()
            write = False
        if dry:
            return
        if write:
            self.decl[key] = (d, table)
        if tag:
            self._set_tag(tag, key)
        if ext:
            self.extras.setdefault((target, f, n, v), {}).update(ext)

    def _untag(self, f, t, n, v, stack, dry):
        if v is not None:
            k = self.find(n, v, f, range(NST) if stack is None else [stack])
            if k is None:
                raise NotFound()
            if self.tags.get((k[0], t, n, f)) != v:
                return
            si = k[0]
        elif stack is not None:
            si = stack
        else:
            k = self.resolve(t, n, f)
            if k is None:
                if not any(x[1] == n and x[3] == f and self.sees(x[0], f) for x in self.decl):
                    raise NotFound()
                return
            si = k[0]
        if not dry:
            self.tags.pop((si, t, n, f), None)

    def _undeclare(self, c):
        f, n, v = c.get("flavor", "Linux"), c["name"], c.get("version")
        tag, vat, dry, stack = c.get("tag"), bool(c.get("vat")), bool(c.get("noaction")), c.get("stack")
        stacks = range(NST) if stack is None else [stack]
        if tag and not vat:
            return self._untag(f, tag, n, v, stack, dry)
        if tag and v is None:
            cands = []
            for si in stacks:
                for fl in fallbacks(f):
                    if not any(k[0] == si and k[1] == n and k[3] == fl for k in self.decl) or not self.sees(si, fl):
                        continue
                    r = self.resolve(tag, n, f)
                    if r and (r[2], r[3]) not in cands:
                        cands.append((r[2], r[3]))
                    for k in sorted(self.decl):
                        if k[0] == si and k[1] == n and k[3] == fl and self.tags.get((si, tag, n, fl)) == k[2] \
                                and (k[2], k[3]) not in cands:
                            cands.append((k[2], k[3]))
            if len(cands) == 1:
                v = cands[0][0]
        if v is None:
            vis = self.visible(n, f, stacks)
            if not vis:
                raise NotFound()
            if len(vis) > 1:
                raise Refused()
            v = vis[0][0]
        k = self.find(n, v, f, stacks)
        if k is None:
            raise NotFound()
        if c.get("setup") and not c.get("force"):
            sv, sf, ss = c["setup"]     # a version that a shell has set up is not undeclared under its feet
            # (an instance of flavor f knows the products of f and of its fallback flavor, no others)
            if (sf in fallbacks(f) or self.foreign_setup_flavor_known) and self.find(n, sv, sf, [ss]) is not None \
                    and ss == k[0] and sv == v:
                raise Refused()
        if tag:
            self._untag(f, tag, n, v, k[0], dry)
        if dry:
            return
        del self.decl[k]
        for tk in [tk for tk, tv in self.tags.items() if tk[0] == k[0] and tk[2] == n and tk[3] == f and tv == v]:
            del self.tags[tk]

    def _remove(self, c):
        f, n, v = c.get("flavor", "Linux"), c["name"], c["version"]
        k = self.find(n, v, f, range(NST))
        if k is None:
            raise NotFound()
        d = self.decl[k][0]
        dd = tuple(d) if isinstance(d, (list, tuple)) else d
        if c.get("recursive") and self.decl[k][1] != "none" and self.table_content(k) is None:
            raise TableMissing()                    # the dependencies are read from the table file: it is gone
        self._undeclare({"flavor": f, "name": n, "version": v, "noaction": c.get("noaction"),
                         "setup": c.get("setup"), "force": c.get("force")})
        if not c.get("noaction"):
            d = tuple(d) if isinstance(d, (list, tuple)) else d
            if d not in self.dirs:
                raise Failed()                      # undeclared, but there was no directory left to delete
            self.dirs.discard(d)                    # the installation directory goes too

    def _assignTag(self, c):
        f, n, v = c.get("flavor", "Linux"), c["name"], c["version"]
        k = self.find(n, v, f, range(NST) if c.get("stack") is None else [c["stack"]])
        if k is None:
            raise NotFound()
        self._set_tag(c["tag"], k)

    def _unassignTag(self, c):
        self._untag(c.get("flavor", "Linux"), c["tag"], c["name"], c.get("version"), c.get("stack"),
                    bool(c.get("noaction")))


# ---- state clauses (evaluated on a reader's listing alone) ---------------------------------------------

def dangling_tags(listing):
    keys = {(d[0], d[1], d[2], d[3]) for d in listing["decls"]}
    return [t for t in listing["tags"] if (t[0], t[2], t[4], t[3]) not in keys]


def duplicate_keys(listing):
    seen, dup = set(), []
    for d in listing["decls"]:
        k = ("d",) + tuple(d[:4])
        if k in seen:
            dup.append(list(k))
        seen.add(k)
    for t in listing["tags"]:
        k = ("t",) + tuple(t[:4])
        if k in seen:
            dup.append(list(k))
        seen.add(k)
    return dup


def footprint(c):
    """(decl predicate, tag predicate): the keys the command is allowed to change"""
    f, n = c.get("flavor", "Linux"), c.get("name")
    op = c["op"]
    if op == "declare":
        v, t = c["version"], c.get("tag")
        return (lambda d: d[1] == n and d[2] == v and d[3] == f,
                lambda r: r[2] == n and r[3] == f and (r[1] == t if t else r[1] == "current"))
    if op == "undeclare":
        v, t, vat = c.get("version"), c.get("tag"), c.get("vat")
        if t and not vat:
            return (lambda d: False, lambda r: r[1] == t and r[2] == n and r[3] == f)
        return (lambda d: d[1] == n and d[3] == f and (v is None or d[2] == v),
                lambda r: r[2] == n and r[3] == f and (v is None or r[4] == v or r[1] == t))
    if op == "remove":
        v = c["version"]
        return (lambda d: d[1] == n and d[2] == v and d[3] == f, lambda r: r[2] == n and r[3] == f and r[4] == v)
    if op in ("assignTag", "unassignTag"):
        t = c["tag"]
        return (lambda d: False, lambda r: r[1] == t and r[2] == n and r[3] == f)
    return (lambda d: False, lambda r: False)


def frame_breaks(c, before, after):
    """entries outside the command's footprint that differ between two listings"""
    pd, pt = footprint(c)
    b = {tuple(map(repr, d)) for d in before["decls"] if not pd(d)}
    a = {tuple(map(repr, d)) for d in after["decls"] if not pd(d)}
    bt = {tuple(r) for r in before["tags"] if not pt(r)}
    at = {tuple(r) for r in after["tags"] if not pt(r)}
    return sorted(b ^ a) + sorted(bt ^ at)
