"""C05 — emitted shell commands reproduce the computed environment when sourced.

Implementation: eups.app.setup (the loops that turn (oldEnviron, os.environ, aliases, oldAliases) into
`export`/`unset`/function commands), table.Action.execute for the `--force` bookkeeping, real /bin/dash and
/bin/bash for the evaluation of the text.
Model: lean/EupsModel/Model/ShellEmit.lean through the driver handler "c05" (ops emit, acts, sheval).

Four kinds of case
  emit   synthetic (oldEnviron, os.environ[, aliases]) pair rendered by the real app.setup (Eups.setup stubbed to
         install the target environment)                                   -> command list = model's `emit`
  acts   a sequence of real table actions (envSet / envPrepend / envAppend / envUnset, each with its own
         direction) executed by Action.execute on a real Eups with or without --force, then rendered
                                                                           -> (oldEnviron, environ, commands) = model's
  stack  a real stack with product directories containing blanks and < > | & ; ( ), setup / unsetup [--force]
         through eups.app.setup                                            -> command list = model's `emit`
  shell  command texts over the alphabet, emitter-shaped and not           -> dash, bash = model's `shEval`
For the first three the emitted text is sourced by dash and bash from the caller's environment and
  oracle (i)  the shells' environment = shEval(text) when the text is in the fragment,
  oracle (ii) the shells' environment = the environment eups computed (os.environ after the call), the four
              EUPS_* variables the code documents as never unset excepted.  (ii) uses no model."""
import contextlib
import io
import json
import os
import re
import string
import subprocess

from . import common
from .common import parallel_map

RULE = ("cases = environment deltas (synthetic old/new pairs; sequences of real table actions with and without "
        "--force; setup/unsetup on real stacks whose product directories contain blanks and < > | & ; ( )) rendered by "
        "the real eups.app.setup and sourced by dash and bash (environment, shell functions, echoed text, exit status), "
        "invocations of the real wrapper script bin/eups_setup on real stacks through every exit of EupsSetup.run/execute, "
        "plus command texts (with function definitions, echo, double quotes) run by both shells against shEval / shEvalF; "
        "plus every value of length <= 2 (thorough: 3) over a 14-symbol alphabet of metacharacters; "
        "a delta case is non-trivial when at least one command is emitted, a shell text when it lies in the modelled "
        "fragment and changes the environment; distinct = distinct case digests")
TRUSTED = ["/bin/dash and /bin/bash as installed (the shell models shEval / shEvalF — words, single and double quotes, "
           "function definitions, echo, exit status — are compared with both on every run, not verified)",
           "CPython `re` on the three patterns of the emitter (^['\"].*['\"]$, [\\s<>|&;()], ^EUPS_(DIR|PATH|PKGROOT|SHELL)$): "
           "hand-translated, exercised on every run",
           "`env -0` (GNU coreutils) reports the shell's exported environment; the variables the shells maintain "
           "themselves (_ PWD OLDPWD SHLVL) are ignored"]
ASSUMPTIONS = ["variable names are identifiers and not variables the shells treat specially (IFS, PS1, UID, BASH*, LC_*, ...)",
               "values in the claim are over [A-Za-z0-9/._:+=,@%^-] plus space, tab, newline and < > | & ; ( ), or - the class "
               "eups single-quotes - any value without a single quote that holds a character of [\\s<>|&;()] and is not already "
               "wrapped in quotes ($NAME, ${NAME}, backquotes, backslashes, double quotes, ~, braces, glob characters are literal "
               "inside the quotes); values with $, backquote, backslash, quote characters etc. that eups does NOT quote are "
               "outside the claim (eups deliberately passes them to the shell)",
               "alias values in the claim are plain command lines (words over the safe characters separated by blanks, "
               "the first not a reserved word); other alias values are passed to the shell as they are (eups does not "
               "quote them) and are compared with shEvalF only where its fragment reaches (\"$@\", $@, single quotes, "
               "several commands)",
               "no csh or zsh binary is installed: zsh texts (same commands as sh) are sourced by dash and bash; csh texts are "
               "compared with the model as text and read by a small csh word reader written from the manual (csh_read: single "
               "quotes literal, no newline inside) for oracle (ii)",
               "EUPS_LOCK_PID, which lock.takeLocks puts into the process environment for its children before Eups takes "
               "the baseline of the delta, is not part of the computed environment (command-line cases)"]

MIRRORS = [("python/eups/app.py", "setup"), ("python/eups/app.py", "unsetup"), ("python/eups/setupcmd.py", "*"),
           ("bin/eups_setup.in", "*"), ("python/eups/utils.py", "guessProduct"),
           ("python/eups/Eups.py", "Eups.setEnv"), ("python/eups/Eups.py", "Eups.unsetEnv"),
           ("python/eups/Eups.py", "Eups.setAlias"), ("python/eups/Eups.py", "Eups.unsetAlias"),
           ("python/eups/Eups.py", "Eups.popStack"), ("python/eups/Eups.py", "Eups.pushStack"),
           ("python/eups/table.py", "Action.execute_envSet"), ("python/eups/table.py", "Action.execute_envPrepend"),
           ("python/eups/table.py", "Action.execute_addAlias")]

DASH = ["/bin/dash"]
BASH = ["/bin/bash", "--norc", "--noprofile"]
SHELLS = (("dash", DASH), ("bash", BASH))
IGNORE = ("_", "PWD", "OLDPWD", "SHLVL")
PROTECTED = ("EUPS_DIR", "EUPS_PATH", "EUPS_PKGROOT", "EUPS_SHELL")
MARK = b"\0\0C05-ENV-FOLLOWS\0"

SAFE = string.ascii_letters + string.digits + "/._:+=,@%^-"
META = " \t\n<>|&;()"
OUTSIDE = "'\"$`\\~{}*?[]!#\r\x0b\x0c\x1c\x85\xa0 "

SPECIAL = re.compile(r"^(_|PWD|OLDPWD|SHLVL|IFS|PS\d|UID|EUID|PPID|GROUPS|RANDOM|SECONDS|LINENO|SHELL|TERM|ENV|LANG|"
                     r"LANGUAGE|TZ|TMPDIR|CDPATH|TMOUT|REPLY|MAIL.*|HOST.*|MACHTYPE|OSTYPE|DIRSTACK|PIPESTATUS|FUNCNAME|"
                     r"FUNCNEST|FCEDIT|FIGNORE|GLOBIGNORE|IGNOREEOF|INPUTRC|COLUMNS|LINES|COPROC|MAPFILE|SRANDOM|"
                     r"EXECIGNORE|CHILD_MAX|TIMEFORMAT|POSIXLY_CORRECT|SHELLOPTS|INSIDE_EMACS|NLSPATH|"
                     r"BASH.*|COMP_.*|LC_.*|HIST.*|READLINE.*|OPT.*|EPOCH.*|auto_resume|histchars)$")
NAMES = ["PATH", "LD_LIBRARY_PATH", "PYTHONPATH", "MANPATH", "FOO_DIR", "SETUP_FOO", "BAR_DIR", "SETUP_BAR", "FOO_HOME",
         "A", "B", "C1", "x", "a_b", "_u", "KEEP", "EDITOR", "MY_SETUP_X", "EUPS_PATH", "EUPS_DIR", "EUPS_PKGROOT",
         "EUPS_SHELL", "EUPS_FLAVOR", "EUPS_USERDATA", "CFLAGS", "Q9"]


# ---- generators ------------------------------------------------------------------------------------

NEAR_MISS_FIXED = ["EUPS_PATH_SAVED", "EUPS_PKGROOT_MIRROR", "EUPS_DIR_EXTRA", "EUPS_SHELLTOOLS_DIR", "SETUP_EUPS_SHELLTOOLS",
                   "EUPS_", "EUPS_PATHS", "EUPS_DIRS", "MY_EUPS_PATH", "EUPS_SHELL2", "XEUPS_DIR", "EUPS_PATH_DIR",
                   "SETUP_EUPS_PATH", "eups_path", "EUPS_PKGROOT_", "_EUPS_SHELL"]
NEAR_MISS_PRODUCTS = ["eups_shelltools", "eups_path", "eups_dir_extra", "eups_pkgroot_mirror", "eups_shell", "eups_dirs",
                      "xeups_path", "eups_pkgroot"]


def near_miss(rng):
    """A variable name that is almost, but not, one of the four names app.setup refuses to unset: a protected name with
    something before it, after it, inside it, or missing."""
    while True:
        base = rng.choice(PROTECTED)
        r = rng.random()
        if r < 0.3:
            n = base + rng.choice(["_SAVED", "_MIRROR", "_EXTRA", "S", "2", "_", "TOOLS_DIR", "_DIR", "x"])
        elif r < 0.5:
            n = rng.choice(["MY_", "X", "_", "SETUP_", "OLD_", "a"]) + base
        elif r < 0.6:
            n = base[:-1]
        elif r < 0.7:
            n = base.lower() if rng.random() < 0.5 else base.capitalize()
        elif r < 0.78:
            n = base.replace("EUPS_", rng.choice(["EUPS__", "EUPS", "EUPS_X"]))
        else:
            n = rng.choice(NEAR_MISS_FIXED)
        if n not in PROTECTED and re.match(r"^[A-Za-z_][A-Za-z0-9_]*$", n) and not SPECIAL.match(n):
            return n


def gen_name(rng):
    if rng.random() < 0.8:
        return rng.choice(NAMES)
    while True:
        n = rng.choice(string.ascii_letters + "_") + "".join(
            rng.choice(string.ascii_letters + string.digits + "_") for _ in range(rng.randint(0, 7)))
        if not SPECIAL.match(n):
            return n


def gen_value(rng, claim=True):
    """A value; claim=True keeps it inside the claimed alphabet."""
    r = rng.random()
    if r < 0.06:
        return ""
    if claim and rng.random() < 0.12:
        return gen_quoted_special(rng)
    if r < 0.30:        # plain path-like text
        v = "".join(rng.choice(SAFE) for _ in range(rng.randint(1, 12)))
    elif r < 0.50:      # path with blanks and metacharacters in a directory name
        parts = []
        for _ in range(rng.randint(1, 4)):
            parts.append("".join(rng.choice("abXY01._-" + " " * 3 + META) for _ in range(rng.randint(1, 6))))
        v = "/" + "/".join(parts)
    elif r < 0.62:      # a single metacharacter somewhere
        v = list("".join(rng.choice(SAFE) for _ in range(rng.randint(0, 6))))
        v.insert(rng.randint(0, len(v)), rng.choice(META))
        v = "".join(v)
    elif r < 0.70:      # only metacharacters
        v = "".join(rng.choice(META) for _ in range(rng.randint(1, 4)))
    elif r < 0.76:      # colon-separated list, some elements with blanks
        v = ":".join(rng.choice(["/usr/bin", "/opt/my prod/bin", "/a(b)/lib", "", "/x;y", "."]) for _ in range(rng.randint(1, 5)))
    else:
        v = "".join(rng.choice(SAFE + META * 2) for _ in range(rng.randint(1, 16)))
    if not claim:
        k = rng.random()
        if k < 0.35:    # already wrapped in quotes (the emitter's first test)
            q1, q2 = rng.choice("'\""), rng.choice("'\"")
            v = q1 + v + q2 + rng.choice(["", "", "\n", "x"])
        elif k < 0.5:   # one quote only
            v = rng.choice(["'", "\"", "'" + v, v + "'", "\"" + v])
        else:
            v = list(v)
            for _ in range(rng.randint(1, 3)):
                v.insert(rng.randint(0, len(v)), rng.choice(OUTSIDE))
            v = "".join(v)
    return v


SPECIAL_BITS = ["$ORIGIN", "${ORIGIN}", "$HOME", "${PRODUCT_DIR}", "$", "$$", "`", "`true`", "\\", "\\n", "\\$", "\"", "\"x\"", "~", "{a,b}",
                "*", "?", "[ab]", "!", "#", "$(true)", "${X:-y}", "\\\\"]


def gen_quoted_special(rng):
    """A value that eups single-quotes (it holds a blank or one of < > | & ; ( )) and that ALSO holds text the shell would
    expand or unquote were it not inside single quotes: $NAME, ${NAME}, a backquote, a backslash sequence, a double
    quote.  No single quote.  E.g. `-L${PRODUCT_DIR}/lib -Wl,-rpath,$ORIGIN/../lib`, `(tool) $ `."""
    if rng.random() < 0.25:
        return rng.choice(["-L${PRODUCT_DIR}/lib -Wl,-rpath,$ORIGIN/../lib", "(tool) $ ", "a \\ b", "say \"hi\" > `tty`", "$HOME/my dir",
                           "x;$y", "\\n <nl>", "${A} ${B}", "cost: $5 & up", "a`b c", "\" \""])
    parts = []
    for _ in range(rng.randint(2, 5)):
        r = rng.random()
        if r < 0.4:
            parts.append(rng.choice(SPECIAL_BITS))
        elif r < 0.7:
            parts.append("".join(rng.choice(SAFE) for _ in range(rng.randint(1, 5))))
        else:
            parts.append(rng.choice(META))
    if not any(c in META for p_ in parts for c in p_):
        parts.insert(rng.randint(0, len(parts)), rng.choice(" <>|&;()"))
    if not any(p_ in SPECIAL_BITS for p_ in parts):
        parts.insert(rng.randint(0, len(parts)), rng.choice(SPECIAL_BITS))
    v = "".join(parts)
    if re.search(r"^['\"].*['\"]$", v):       # would be taken for an already quoted value
        v = "x" + v
    return v


def in_alphabet(v):
    return all(c in SAFE or c in META for c in v)


def quoted_literal(v):
    """eups single-quotes the value (non-empty, not already wrapped in quotes, holds a character of [\\s<>|&;()]) and the
    value holds no single quote: inside the quotes every character is literal for an sh-family shell, $ ` \\ " included"""
    return bool(v) and not re.search(r"^['\"].*['\"]$", v) and bool(re.search(r"[\s<>|&;()]", v)) and "'" not in v


def in_claim_value(v):
    return in_alphabet(v) or quoted_literal(v)


def gen_env(rng, n, claim=True):
    env = []
    seen = set()
    for _ in range(n):
        k = gen_name(rng)
        if k in seen:
            continue
        seen.add(k)
        env.append([k, gen_value(rng, claim=claim or rng.random() < 0.5)])
    return env


def gen_emit(rng):
    claim = rng.random() < 0.7
    # the caller's environment may hold anything (its values are never written unless they change)
    old = gen_env(rng, rng.randint(0, 10), claim=claim and rng.random() < 0.6)
    new = []
    for k, v in old:
        r = rng.random()
        if r < 0.45:
            new.append([k, v])                          # unchanged
        elif r < 0.70:
            new.append([k, gen_value(rng, claim)])      # changed
        elif r < 0.78:
            new.append([k, ""])                         # emptied
        # else removed
    for k, v in gen_env(rng, rng.randint(0, 6), claim=claim):
        if k not in [x[0] for x in new] and (k not in [x[0] for x in old] or rng.random() < 0.5):
            new.insert(rng.randint(0, len(new)), [k, v])
    shell = "sh"
    r = rng.random()
    if r < 0.14:
        shell = "csh"
    elif r < 0.20:
        shell = "zsh"
    opts = {"shell": shell, "noaction": rng.random() < 0.12, "verbose2": rng.random() < 0.3,
            "isEups": rng.random() < 0.12, "fwd": rng.random() < 0.6}
    aliases, old_aliases = [], []
    if shell != "zsh" and rng.random() < 0.25:
        pool = [("ll", "ls -l"), ("setup2", "eval `eups_setup \"$@\"`"), ("gg", "git grep \"$@\""), ("e", "echo hi"),
                ("w", "echo $@ done")]
        for k, v in rng.sample(pool, rng.randint(1, 3)):
            r = rng.random()
            if r < 0.5:
                aliases.append([k, v])
                if rng.random() < 0.3:
                    old_aliases.append([k, v if rng.random() < 0.5 else None])
            else:
                old_aliases.append([k, None])
    if opts["isEups"] and not opts["fwd"] and rng.random() < 0.8:
        # unsetup eups: the variables app.setup drops are in the caller's environment, and Eups.setup leaves them
        # untouched, changes them or has removed them already
        for k in ("EUPS_PATH", "EUPS_PKGROOT", "EUPS_SHELL"):
            if rng.random() < 0.8:
                v = gen_value(rng, claim)
                old = [x for x in old if x[0] != k] + [[k, v]]
                new = [x for x in new if x[0] != k]
                r = rng.random()
                if r < 0.6:
                    new.insert(rng.randint(0, len(new)), [k, v])
                elif r < 0.85:
                    new.insert(rng.randint(0, len(new)), [k, gen_value(rng, claim)])
    if rng.random() < 0.3:
        # near misses of the protected names in the caller's environment, mostly among the removed variables
        for _ in range(rng.randint(1, 3)):
            k = near_miss(rng)
            if k in [x[0] for x in old] or k in [x[0] for x in new]:
                continue
            v = gen_value(rng, claim)
            old.insert(rng.randint(0, len(old)), [k, v])
            r = rng.random()
            if r < 0.15:
                new.insert(rng.randint(0, len(new)), [k, v])
            elif r < 0.3:
                new.insert(rng.randint(0, len(new)), [k, gen_value(rng, claim)])
        if rng.random() < 0.5:          # next to a genuinely protected one that disappears (and has to stay)
            k = rng.choice(PROTECTED)
            if k not in [x[0] for x in old]:
                old.append([k, gen_value(rng, claim)])
            new = [x for x in new if x[0] != k]
    forgotten = [k for k, _ in old if rng.random() < 0.15] if rng.random() < 0.3 else []
    return {"kind": "emit", "old": old, "forgotten": forgotten, "new": new, "aliases": aliases,
            "oldAliases": old_aliases, "opts": opts}


ATOMS = ["/a", "/opt/my prod/bin", "/b(1)", "/c;d", "/e", "lib"]


def _uniq(l):
    out = []
    for x in l:
        if x not in out:
            out.append(x)
    return out


def gen_acts(rng):
    """Real table actions.  The value each path action must produce is computed here from the structured
    description (distinct atoms, ':' delimiter), so the model is given the action's *result*, not its text."""
    base = gen_env(rng, rng.randint(0, 6))
    for pair in base:
        # the table's own variable syntax in a value the path actions rewrite: expanded by Eups.setEnv (C12's business)
        while "${" in pair[1] or "$?" in pair[1]:
            pair[1] = gen_value(rng)
    names = [k for k, _ in base] or ["A"]
    env = dict(base)
    acts = []
    force = rng.random() < 0.5
    saved = []          # what pushStack("env") saved (the generator's own copy of the expected environment)
    for _ in range(rng.randint(1, 6)):
        k = rng.choice(names) if rng.random() < 0.7 else gen_name(rng)
        if k in PROTECTED and rng.random() < 0.8:
            continue
        r = rng.random()
        fwd = rng.random() < 0.55
        if rng.random() < 0.25:
            # an optional / nested setup: pushStack("env") ... then popStack (it failed: changes thrown away) or dropStack
            if saved and rng.random() < 0.6:
                if rng.random() < 0.6:
                    env = saved.pop()
                    acts.append({"op": "pop"})
                else:
                    saved.pop()
                    acts.append({"op": "drop"})
            else:
                saved.append(dict(env))
                acts.append({"op": "push"})
            continue
        if rng.random() < 0.12:
            ak, av = rng.choice([("ll", "ls -l"), ("e", "echo hi"), ("gg", "git grep \"$@\""), ("KEEP", "true")])
            acts.append({"op": "alias", "fwd": fwd, "k": ak, "v": av})
            continue
        if r < 0.5:
            v = gen_value(rng) if rng.random() < 0.85 else ""
            while "${" in v or "$?" in v:       # the table's own variable syntax: expanded by Action.execute (C12's business)
                v = gen_value(rng)
            if "-f" == v or v.startswith("-f"):
                v = "x" + v
            text = v if (v or rng.random() < 0.5) else "$?{C05_NOT_DEFINED}"
            acts.append({"op": "envSet", "fwd": fwd, "k": k, "text": text, "v": v})
            if fwd and v:
                env[k] = v
            elif not fwd:
                env.pop(k, None)
        elif r < 0.9:
            append = rng.random() < 0.5
            atom = rng.choice(ATOMS)
            cur = [x for x in env.get(k, "").split(":") if x]
            if fwd:
                res = _uniq([x for x in cur if x != atom] + [atom] if append else [atom] + cur)   # append moves a present element last (D8 repaired)
            else:
                res = [x for x in _uniq(cur) if x != atom]
            v = ":".join(res)
            acts.append({"op": "path", "append": append, "fwd": fwd, "k": k, "text": atom, "v": v})
            env[k] = v
        else:
            acts.append({"op": "unset", "fwd": fwd, "k": k})
            if fwd:
                env.pop(k, None)
    if not [a for a in acts if "fwd" in a]:
        acts.append({"op": "envSet", "fwd": False, "k": names[0], "text": "x", "v": "x"})
    return {"kind": "acts", "base": base, "acts": acts, "force": force,
            "opts": {"shell": "sh", "noaction": False, "verbose2": False, "isEups": False,
                     "fwd": [a for a in acts if "fwd" in a][-1]["fwd"]}}


def weird_dirname(rng):
    w = "".join(rng.choice("abXY01._-:+=,@%^" + "  " + "\t<>|&;()") for _ in range(rng.randint(1, 8)))
    # the version files of the database do not keep leading / trailing blanks of a directory (C16's business)
    w = w.strip(". \t") or "x"
    return w


def gen_stack(rng):
    """1-3 products in a chain (p0 requires p1 requires p2), each in a directory with a weird name."""
    n = rng.randint(1, 3)
    prods = []
    names = ["p%d" % i for i in range(n)]
    if rng.random() < 0.35:
        # products whose names (hence whose <NAME>_DIR / SETUP_<NAME> variables) are near misses of the protected ones
        for i, nm in zip(rng.sample(range(n), rng.randint(1, n)), rng.sample(NEAR_MISS_PRODUCTS, n)):
            names[i] = nm
    for i in range(n):
        name = names[i]
        lines = ["envPrepend(PATH, ${PRODUCT_DIR}/bin)"]
        if rng.random() < 0.3:
            lines.append("envSet(%s, ${PRODUCT_DIR})" % near_miss(rng))
        if rng.random() < 0.8:
            lines.append("envSet(%s_HOME, ${PRODUCT_DIR})" % name.upper())
        if rng.random() < 0.4:
            lines.append("envAppend(LD_LIBRARY_PATH, ${PRODUCT_DIR}/lib)")
        if rng.random() < 0.3:
            lines.append("envSet(%s_OPTS, \"%s\")" % (name.upper(), rng.choice(
                ["-O2 -g", "a;b", "x|y", "(z)", "k=v w", "-L${PRODUCT_DIR}/lib -Wl,-rpath,$ORIGIN/../lib", "(tool) $ ",
                 "-Wl,-rpath,$ORIGIN/../lib -O2", "cost $5 (approx)", "say `tty` > x", "a \\\\ b", "$HOME/my dir"])))
        if rng.random() < 0.25:
            lines.append("addAlias(%s_ls, ls -l)" % name)
        if i + 1 < n:
            lines.append("setupRequired(%s)" % names[i + 1])
        d = weird_dirname(rng)
        # VersionFile.write uses the product directory as a regular expression when it shortens the table path
        # (a defect outside C05): such directories are declared with a table file outside the product directory
        mode = "external" if any(c in d for c in "()|+*?[]{}^$\\") else "ups"
        prods.append({"name": name, "version": "1", "dir": d, "tablemode": mode, "table": "\n".join(lines) + "\n"})
    reqs = []
    top = names[0]
    state = False
    for _ in range(rng.randint(1, 4)):
        fwd = not state if rng.random() < 0.8 else state
        reqs.append({"product": top if rng.random() < 0.8 else rng.choice(prods)["name"], "fwd": fwd,
                     "force": rng.random() < 0.4, "version": "1" if rng.random() < 0.5 else None,
                     "local": fwd and rng.random() < 0.2})
        state = fwd
    extra = [["KEEP", "k e e p"], ["LD_LIBRARY_PATH", "/usr/lib"]] if rng.random() < 0.5 else [["KEEP", "k"]]
    if rng.random() < 0.2:
        # eups managing itself: `setup eups` ... `unsetup eups` must leave EUPS_PATH / EUPS_PKGROOT / EUPS_SHELL unset
        lines = ["envPrepend(PATH, ${PRODUCT_DIR}/bin)"]
        if rng.random() < 0.6:
            lines.append("envAppend(EUPS_PATH, /opt/extra)")
        if rng.random() < 0.5:
            lines.append("envSet(EUPS_DIR, ${PRODUCT_DIR})")
        if rng.random() < 0.3:
            lines.append("envSet(EUPS_PKGROOT, http://z/pkgs)")
        d = weird_dirname(rng)
        prods.append({"name": "eups", "version": "1", "dir": d,
                      "tablemode": "external" if any(c in d for c in "()|+*?[]{}^$\\") else "ups",
                      "table": "\n".join(lines) + "\n"})
        if rng.random() < 0.6:
            extra.append(["EUPS_PKGROOT", rng.choice(["http://x/pkgs|http://y", "/my pkgs"])])
        reqs = reqs[:rng.randint(0, 2)] + [{"product": "eups", "fwd": True, "force": rng.random() < 0.3, "version": None, "local": False},
                                           {"product": "eups", "fwd": False, "force": rng.random() < 0.3, "version": None, "local": False}]
    return {"kind": "stack", "products": prods, "requests": reqs, "extra": extra}


WORDS_GOOD = ["export", "unset", "true", "false", ":"]


def gen_shell(rng):
    """A command text: mostly inside the fragment, emitter-shaped or not, sometimes deliberately outside."""
    env = gen_env(rng, rng.randint(0, 5))
    names = [k for k, _ in env] + ["N1", "N2"]
    cmds = []

    def word_value():
        v = gen_value(rng, claim=rng.random() < 0.9)
        style = rng.random()
        if "'" in v:
            return v                                     # raw: most likely outside the fragment
        if style < 0.55:
            return "'%s'" % v if (v and not in_safe(v)) or rng.random() < 0.2 else v
        if style < 0.7:                                  # quoted in pieces:  a' 'b
            i = rng.randint(0, len(v))
            return "'%s'%s" % (v[:i], v[i:] if in_safe(v[i:]) else "'%s'" % v[i:])
        if style < 0.8:
            return "''" + ("'%s'" % v if v else "")
        return v                                         # raw, quoted or not as it comes

    for _ in range(rng.randint(1, 5)):
        r = rng.random()
        k = rng.choice(names)
        if r < 0.45:
            cmds.append("export %s=%s" % (k, word_value()))
        elif r < 0.6:
            cmds.append("unset %s" % " ".join(rng.choice(names) for _ in range(rng.randint(1, 3))))
        elif r < 0.7:
            cmds.append("export %s=%s %s=%s" % (k, word_value(), rng.choice(names), word_value()))
        elif r < 0.76:
            cmds.append("export %s" % k)
        elif r < 0.82:
            cmds.append(rng.choice(["true", "false", ":", "true x", "false;", "  true  "]))
        elif r < 0.86:
            cmds.append("'export' %s=%s" % (k, word_value()))
        elif r < 0.89:
            cmds.append("export '%s'=%s" % (k, word_value()))
        elif r < 0.92:
            cmds.append("export\t%s=%s\t" % (k, word_value()))
        elif r < 0.95:
            cmds.append("")
        else:
            cmds.append(rng.choice(["export 1x=3", "unset 1x", "export", "unset", "echo hi", ";", "export A=1;;", "A=1",
                                    "export A=$B", "export A=a#b", "#c", "export A=~", "unset -f A", "unset -f", "unset -f A N1", "unset -f 1x", "unset -v A", "export A=\"b\"",
                                    "export A=a\\ b", "export A=*", "(export A=1)", "export A=1 &", "export A=1 | true"]))
    sep = rng.choice([";\n", ";\n", "\n", ";", " ; ", "\n\n"])
    text = sep.join(cmds) + rng.choice(["", "\n", ";", ";\n"])
    return {"kind": "shell", "env": env, "text": text}


FN_POOL = [("ll", "ls -l"), ("e", "echo hi"), ("gg", "git grep \"$@\""), ("w", "echo $@ done"), ("KEEP", "true"),
           ("two", "a b; c"), ("q", "printf 'a  b'"), ("p0_ls", "ls -l"), ("A", "x")]
FN_NAMES = ["ll", "e", "gg", "w", "KEEP", "two", "q", "p0_ls", "A", "N1", "f_1", "export", "unset", "true", "echo", "if", "done",
            "time", "in", "select", "x1"]
BODIES = ["ls -l", "echo hi", "git grep \"$@\"", "echo $@ done", "a b; c", "a;b", "a\nb", "printf 'a  b'", "'x y' z", "a=1 b",
          "ls }", "}", "a ; }", "if", "a; if", "a if", "do", "time", "in x", "", " ", "a ;", "a;;b", "echo \"x\"", "echo $A",
          "echo ${A}", "a | b", "a > f", "(a)", "a & b", "x\ty", "-l", "a 'b", "ls -l /my:dir/x=1,y@z%^+"]


def gen_fndef(rng, name=None, body=None):
    name = name or rng.choice(FN_NAMES)
    body = rng.choice(BODIES) if body is None else body
    r = rng.random()
    if r < 0.6:
        return "%s() { %s ; }" % (name, body)           # the emitter's shape
    return rng.choice(["%s(){ %s ; }", "%s () { %s ; }", "%s()\n{ %s ; }", "%s() {%s ; }", "%s() { %s; }", "%s() { %s ;}",
                       "%s() { %s }", "%s() { %s\n}", "%s()\t{\t%s ;\t}", "%s( ) { %s ; }", "'%s'() { %s ; }",
                       "%s() { %s ; } x", "%s() { %s ; } ;", "x %s() { %s ; }", "%s() %s", "%s() { %s ; }}"]) % (name, body)


def gen_echo(rng):
    r = rng.random()
    if r < 0.5:                                          # what -n prints
        k = rng.choice(NAMES)
        v = gen_value(rng, claim=rng.random() < 0.9)
        q = "'%s'" % v if (v and not in_safe(v)) else v
        return rng.choice(["echo \"export %s=%s\"" % (k, q), "echo \"unset %s\"" % k, "echo \"unset -f %s\"" % k,
                           "echo \"%s\"" % gen_fndef(rng)])
    return rng.choice(["echo", "echo a b", "echo a  b", "echo 'a  b' c", "echo \"x\"y'z'", "echo -n x", "echo -e x", "echo - x",
                       "echo x -n", "echo \"\"", "echo ''", "echo \"a;b\nc\"", "echo \"a'b\"", "echo 'a\"b'", "echo \"$A\"",
                       "echo \"a`b\"", "echo \"a\\b\"", "echo 'a\\nb'", "echo \"a", "echo \"(x) <y> |z& ;\"", "echo \"!\"",
                       "echo a\"b c\"d", "'echo' x", "echo \"a\tb\"", "echo x=1", "echo \"#x\"", "echo \"*\""])


def gen_shellf(rng):
    """A command text with function definitions, echo lines, double quotes and `false`, started with some shell
    functions already defined."""
    env = gen_env(rng, rng.randint(0, 4))
    names = [k for k, _ in env] + ["N1", "N2"]
    funcs0 = [[k, v] for k, v in rng.sample(FN_POOL, rng.randint(0, 3)) if "$" not in v and "'" not in v]
    cmds = []
    for _ in range(rng.randint(1, 5)):
        r = rng.random()
        k = rng.choice(names)
        if r < 0.35:
            if rng.random() < 0.6:
                n, b = rng.choice(FN_POOL)
                cmds.append(gen_fndef(rng, n if rng.random() < 0.8 else None, b if rng.random() < 0.8 else None))
            else:
                cmds.append(gen_fndef(rng))
        elif r < 0.55:
            cmds.append(gen_echo(rng))
        elif r < 0.67:
            v = gen_value(rng)
            cmds.append("export %s=%s" % (k, "'%s'" % v if (v and not in_safe(v)) else v))
        elif r < 0.75:
            cmds.append("unset %s" % k)
        elif r < 0.87:
            cmds.append("unset -f %s" % " ".join(rng.choice(FN_NAMES[:11]) for _ in range(rng.randint(1, 2))))
        elif r < 0.93:
            cmds.append(rng.choice(["false", "true", ":", "false x", "'false'"]))
        elif r < 0.96:
            cmds.append("export %s=\"%s\"" % (k, gen_value(rng, claim=rng.random() < 0.8)))
        else:
            cmds.append(rng.choice(["ll", "e", "export A=\"a b\"c'd e'", "\"export\" A=1", "unset \"A\"", "A=\"x\"", "\"", "\"\"", "unset -f \"ll\""]))
    sep = rng.choice([";\n", ";\n", ";\n", "\n", ";", " ; "])
    text = sep.join(cmds) + rng.choice(["", "\n", ";", ";\n"])
    return {"kind": "shellf", "env": env, "funcs": funcs0, "text": text}


def in_safe(v):
    return all(c in SAFE for c in v)


# ---- the real shells -------------------------------------------------------------------------------

def parse_env0(out):
    i = out.rfind(MARK)
    if i < 0:
        return None
    env = {}
    for item in out[i + len(MARK):].split(b"\0"):
        if b"=" in item:
            k, v = item.split(b"=", 1)
            k = k.decode("utf-8", "surrogateescape")
            if k not in IGNORE:
                env[k] = v.decode("utf-8", "surrogateescape")
    return env


TAIL = "\nprintf '\\0\\0C05-ENV-FOLLOWS\\0'\n/usr/bin/env -0\n"


_CWD = None


def shell_cwd():
    """An empty scratch directory per worker process: texts outside the fragment contain unquoted `>`, which creates
    files where the shell runs."""
    global _CWD
    if _CWD is None or not os.path.isdir(_CWD):
        _CWD = common.scratch("c05cwd")
    return _CWD


FN_MARK = b"\0\0C05-FN-FOLLOWS\0"
IDENT = re.compile(r"^[A-Za-z_][A-Za-z0-9_]*$")


def _tail(fn_names):
    t = "\nc05status=$?\nprintf '\\0\\0C05-ENV-FOLLOWS\\0'\n/usr/bin/env -0\nprintf '\\0\\0C05-FN-FOLLOWS\\0'\n" \
        "printf 'status=%s\\n\\0' \"$c05status\"\n"
    for n in fn_names:
        if IDENT.match(n):
            t += "printf 'fn=%s\\n' " + n + "; type " + n + " 2>/dev/null; printf '\\0'\n"
    return t


def _parse_fn(blob, shell):
    """status and {name: True | canonical body text (bash)} from the part after FN_MARK"""
    status, fns = None, {}
    for item in blob.split(b"\0"):
        item = item.decode("utf-8", "surrogateescape")
        if item.startswith("status="):
            status = int(item[7:].strip() or -1)
        elif item.startswith("fn="):
            lines = item.split("\n")
            name = lines[0][3:]
            if len(lines) > 1 and "function" in lines[1]:
                body = True
                if shell == "bash" and len(lines) >= 5 and lines[3].strip() == "{":
                    i = len(lines) - 1
                    while i > 3 and lines[i].strip() != "}":
                        i -= 1
                    if any(l.count("'") % 2 for l in lines[4:i]):
                        body = True     # a quoted word spans lines: the listing cannot be cut into commands line by line
                    else:
                        body = "; ".join(l[4:].rstrip(";") if l.startswith("    ") else l.rstrip(";") for l in lines[4:i])
                fns[name] = body
    return status, fns


def run_shells_full(env_pairs, text, how="c", scratch=None, funcs0=(), fn_names=()):
    """Evaluate text in dash and bash started with exactly env_pairs and the shell functions funcs0 ([name, body text]);
    returns {shell: {"env": dict, "out": text written to stdout, "status": $?, "fns": {name: body|True}} | None}.
    how='c': `sh -c text`; how='source': text written to a file that the shell sources with `.`"""
    env = {k: v for k, v in env_pairs}
    res = {}
    cwd = shell_cwd()
    pre = "".join("%s() { %s ; }\n" % (k, v) for k, v in funcs0)
    tail = _tail(list(fn_names))
    for name, argv in SHELLS:
        if how == "source":
            path = os.path.join(scratch, "emitted.sh")
            with open(path, "w", encoding="utf-8", errors="surrogateescape") as f:
                f.write(text)
            cmd = argv + ["-c", pre + '. "$1"' + tail, name, path]
        else:
            cmd = argv + ["-c", pre + text + tail]
        try:
            p = subprocess.run(cmd, env=env, stdout=subprocess.PIPE, stderr=subprocess.DEVNULL, stdin=subprocess.DEVNULL,
                               timeout=20, cwd=cwd)
            e = parse_env0(p.stdout.split(FN_MARK)[0]) if FN_MARK in p.stdout else None
            if e is None:
                res[name] = None
            else:
                status, fns = _parse_fn(p.stdout.split(FN_MARK, 1)[1], name)
                res[name] = {"env": e, "out": p.stdout[:p.stdout.rfind(MARK)].decode("utf-8", "surrogateescape"),
                             "status": status, "fns": fns}
        except (subprocess.TimeoutExpired, ValueError, OSError) as e:
            res[name] = "ERR:" + type(e).__name__
    return res


def envs_of(full):
    """the environments only (what the delta oracle looks at)"""
    return {k: (v["env"] if isinstance(v, dict) else v) for k, v in full.items()}


def run_shells(env_pairs, text, how="c", scratch=None):
    return envs_of(run_shells_full(env_pairs, text, how=how, scratch=scratch))


def visible(env_pairs):
    return {k: v for k, v in env_pairs if k not in IGNORE}


# ---- implementation --------------------------------------------------------------------------------

_E = None
BASE_ENV = None


def _eups():
    """One real Eups per worker process, on an empty stack; its setup() is replaced per case."""
    global _E, BASE_ENV
    if _E is None:
        root = common.scratch("c05")
        common.mkstacks(root)
        BASE_ENV = dict(os.environ)
        _E = common.new_eups()
        _E._c05root = root
    return _E


def _set_environ(pairs):
    os.environ.clear()
    for k, v in pairs:
        os.environ[k] = v


def _quiet():
    return contextlib.redirect_stderr(io.StringIO())


def impl_emit(case):
    import eups.app as app
    E = _eups()
    o = case["opts"]
    _set_environ(case["old"])
    E.oldEnviron = os.environ.copy()          # as Eups.__init__ does
    for k in case.get("forgotten", []):       # what --force does to a variable it is about to set
        E.oldEnviron[k] = None
    E.aliases = dict((k, v) for k, v in case["aliases"])
    E.oldAliases = dict((k, v) for k, v in case["oldAliases"])
    E.shell, E.noaction, E.verbose, E.quiet, E.force = o["shell"], o["noaction"], (2 if o["verbose2"] else 0), 1, False

    def fake_setup(productName, version, fwd, productRoot=None, tablefile=None):
        _set_environ(case["new"])
        return True, "1.0", None
    E.setup = fake_setup
    try:
        with _quiet(), contextlib.redirect_stdout(io.StringIO()):
            cmds = app.setup("eups" if o["isEups"] else "prod", eupsenv=E, fwd=o["fwd"])
    except Exception as ex:  # noqa
        return {"exc": type(ex).__name__}
    out = {"cmds": cmds, "old": [list(x) for x in E.oldEnviron.items()], "cur": [list(x) for x in os.environ.items()]}
    if o["noaction"]:
        # the same request without -n: what the -n text claims would be done
        saved_old = dict(E.oldEnviron)
        _set_environ(case["old"])
        E.oldEnviron = os.environ.copy()
        for k in case.get("forgotten", []):
            E.oldEnviron[k] = None
        E.noaction = False
        try:
            with _quiet(), contextlib.redirect_stdout(io.StringIO()):
                out["plain_cmds"] = app.setup("eups" if o["isEups"] else "prod", eupsenv=E, fwd=o["fwd"])
        except Exception as ex:  # noqa
            out["plain_cmds"] = None
        E.noaction = True
    return out


def impl_acts(case):
    import eups.app as app
    from eups.table import Action
    E = _eups()
    o = case["opts"]
    _set_environ(case["base"])
    E.oldEnviron = os.environ.copy()
    E.aliases, E.oldAliases = {}, {}
    E._stacks["env"] = []
    E.shell, E.noaction, E.verbose, E.quiet, E.force = "sh", False, 0, 1, case["force"]
    env_obj = os.environ            # popStack("env") rebinds os.environ to a plain dict: put the real object back afterwards

    def fake_setup(productName, version, fwd, productRoot=None, tablefile=None):
        for a in case["acts"]:
            if a["op"] in ("push", "pop", "drop"):
                {"push": E.pushStack, "pop": E.popStack, "drop": E.dropStack}[a["op"]]("env")
                continue
            if a["op"] == "envSet":
                act = Action("t.table", "envSet", [a["k"], a["text"]], {})
            elif a["op"] == "alias":
                act = Action("t.table", "addAlias", [a["k"], a["v"]], {})
            elif a["op"] == "path":
                act = Action("t.table", "envPrepend", [a["k"], a["text"]], dict(append=a["append"]))
            else:
                act = Action("t.table", "envUnset", [a["k"]], {})
            act.execute(E, 1, a["fwd"])
        return True, "1.0", None
    E.setup = fake_setup
    try:
        with _quiet(), contextlib.redirect_stdout(io.StringIO()):
            cmds = app.setup("prod", eupsenv=E, fwd=o["fwd"])
    except Exception as ex:  # noqa
        os.environ = env_obj
        return {"exc": type(ex).__name__}
    res = {"cmds": cmds, "old": [list(x) for x in E.oldEnviron.items()], "cur": [list(x) for x in os.environ.items()],
           "aliases": [list(x) for x in E.aliases.items()], "oldAliases": [list(x) for x in E.oldAliases.items()]}
    os.environ = env_obj
    return res


def _stack_request(env_before, req):
    """One setup/unsetup command in its own process: fresh Eups as setupcmd.py builds it."""
    import eups.app as app
    _set_environ(env_before)
    M = common.eups_mod("Eups")
    with _quiet(), contextlib.redirect_stdout(io.StringIO()):
        E = M.Eups(readCache=False, force=req["force"], quiet=1)
        pre = []
        real_setup = E.setup

        def recording_setup(*a, **kw):          # os.environ as Eups.setup leaves it, before app.setup's own edits
            r = real_setup(*a, **kw)
            pre[:] = [list(x) for x in os.environ.items()]
            return r
        E.setup = recording_setup
        if req.get("local"):             # setup -r <directory>
            E.selectVRO(productDir=req["dir"])
            cmds = app.setup(req["product"], None, productRoot=req["dir"], eupsenv=E, fwd=req["fwd"])
        else:
            E.selectVRO(versionName=req["version"])
            cmds = app.setup(req["product"], req["version"], eupsenv=E, fwd=req["fwd"])
    return {"cmds": cmds, "pre": pre, "old": [list(x) for x in E.oldEnviron.items()], "cur": [list(x) for x in os.environ.items()],
            "aliases": [list(x) for x in E.aliases.items()], "oldAliases": [list(x) for x in E.oldAliases.items()]}


def _stack_declare(env, root, prods):
    _set_environ(env)
    stack = os.path.join(root, "stack0")
    with _quiet(), contextlib.redirect_stdout(io.StringIO()):
        E = common.new_eups()
        for p in prods:
            d = os.path.join(stack, "Linux", p["name"], p["dir"])
            os.makedirs(os.path.join(d, "ups"))
            with open(os.path.join(d, "ups", p["name"] + ".table"), "w") as f:
                f.write(p["table"])
            if p.get("tablemode") == "external":
                os.makedirs(os.path.join(root, "tables"), exist_ok=True)
                tf = os.path.join(root, "tables", p["name"] + ".table")
                with open(tf, "w") as f:
                    f.write(p["table"])
                E.declare(p["name"], p["version"], d, tablefile=tf, tag="current")
            else:
                E.declare(p["name"], p["version"], d, tag="current")
    return True


def impl_stack(case):
    """Returns one record per request: the command list, the environments, and what dash and bash make of the
    text when they source it from the environment the request started in ($S = the scratch root)."""
    root = common.scratch("c05s")
    try:
        saved = dict(os.environ)
        common.mkstacks(root, default_product=True)     # as installed: implicitProducts is looked for, not found
        env = [["PATH", "/usr/bin:/bin"], ["HOME", root], ["EUPS_SHELL", "sh"], ["EUPS_FLAVOR", "Linux"],
               ["EUPS_PATH", os.environ["EUPS_PATH"]], ["EUPS_USERDATA", os.environ["EUPS_USERDATA"]]] + case["extra"]
        r = common.in_child(_stack_declare, env, root, case["products"])
        if r[0] != "ok":
            return {"declare": r[:3], "steps": []}
        steps = []
        fenv = {}
        for req in case["requests"]:
            if req.get("local"):
                pd = [p for p in case["products"] if p["name"] == req["product"]][0]
                req = dict(req, dir=os.path.join(root, "stack0", "Linux", pd["name"], pd["dir"]))
            r = common.in_child(_stack_request, env, req)
            if r[0] != "ok":
                steps.append({"exc": r[1]})
                break
            st = r[1]
            text = ";\n".join(st["cmds"]) + "\n"
            f0 = [[k, v] for k, v in fenv.items()]
            probed = sorted(set(list(fenv) + [k for k, _ in st["aliases"]] + [k for k, _ in st["oldAliases"]]))
            st["shellsF"] = run_shells_full(env, text, how="source", scratch=root, funcs0=f0, fn_names=probed)
            st["shells"] = envs_of(st["shellsF"])
            st["funcs0"], st["probed"] = f0, probed
            st["base"] = env
            steps.append(st)
            if st["cmds"] == ["false"]:
                continue
            env = st["cur"]                 # the next command starts from the environment eups computed
            for k, v in st["aliases"]:      # ... and with the shell functions the text defined
                fenv[k] = " ".join(v.split()) if simple_body(v) else "true"
            for k, _ in st["oldAliases"]:
                if k not in dict(st["aliases"]):
                    fenv.pop(k, None)
            if "EUPS_PATH" not in dict(env):
                break                       # unsetup eups: nothing can follow
        os.environ.clear()
        os.environ.update(saved)
        return {"steps": steps, "root": root}
    finally:
        common.rmtree(root)


# ---- the command line (bin/eups_setup -> setupcmd.EupsSetup.run -> eups.setup) -------------------------

def gen_cli(rng):
    """A real stack (as gen_stack) and 1-4 invocations of the real wrapper script with option combinations that reach
    every exit of EupsSetup.run/execute: -h, -V, -l, no product, -m with and without a product, a missing table
    file, -r on a product directory / a directory without ups / a missing directory, -r DIR PRODUCT VERSION with an
    undeclared version, -j with -S, an unknown product, unsetup of something that is not set up."""
    st = gen_stack(rng)
    prods = [p for p in st["products"] if p["name"] != "eups"]
    names = [p["name"] for p in prods]
    calls = []
    for _ in range(rng.randint(1, 4)):
        c = {"help": False, "version": False, "list": False, "unsetup": False, "nodepend": False, "maxDepth": -1,
             "tablefile": None, "productDir": None, "args": [], "nolocks": rng.random() < 0.5}
        nm = rng.choice(names)
        r = rng.random()
        if r < 0.30:
            c["args"] = [nm] + (["1"] if rng.random() < 0.4 else [])
        elif r < 0.40:
            c["args"] = [nm]
            c["unsetup"] = True
        elif r < 0.46:
            c[rng.choice(["help", "version", "list"])] = True
            if rng.random() < 0.5:
                c["args"] = [nm]
        elif r < 0.50:
            pass                                              # nothing at all
        elif r < 0.58:
            c["args"] = [rng.choice(["nosuchproduct", nm])] + ([rng.choice(["9.9", "1"])] if rng.random() < 0.6 else [])
        elif r < 0.70:
            c["tablefile"] = rng.choice([["prodtable", nm], ["prodtable", nm], ["missing"], ["none"]])
            if rng.random() < 0.5:
                c["args"] = [nm]
            c["unsetup"] = rng.random() < 0.15
        elif r < 0.90:
            c["productDir"] = rng.choice([["proddir", nm], ["proddir", nm], ["missing"], ["empty"]])
            k = rng.random()
            if k < 0.4:
                c["args"] = [rng.choice([nm, "othername"])]
            elif k < 0.7:
                c["args"] = [nm, rng.choice(["1", "9.9"])]
            if rng.random() < 0.2:
                c["tablefile"] = ["prodtable", nm]
        else:
            c["args"] = [nm]
            c["nodepend"] = True
            c["maxDepth"] = rng.choice([-1, 0, 1, 2])
        if not c["nodepend"] and rng.random() < 0.1:
            c["maxDepth"] = rng.choice([0, 1])
        if rng.random() < 0.3:
            # `eups_setup NAME=value ...`: the wrapper's way of restoring a variable the caller's shell exports but the
            # operating system strips from the Python process (DYLD_LIBRARY_PATH): it belongs to the caller's environment
            c["envargs"] = [[rng.choice(["LD_LIBRARY_PATH", "LD_LIBRARY_PATH", "DYLD_LIBRARY_PATH", "P0_HOME"]),
                             rng.choice(["/sip/lib", "/sip/my lib:/usr/lib", "/a(b)", ""])]]
        calls.append(c)
    return {"kind": "cli", "products": st["products"], "calls": calls, "extra": st["extra"]}


def _cli_paths(root, prods, call):
    """symbolic paths -> real ones, and the facts about them, from the structure of the case"""
    def pdir(nm):
        pd = [p for p in prods if p["name"] == nm][0]
        return os.path.join(root, "stack0", "Linux", pd["name"], pd["dir"])
    tf = call["tablefile"]
    tfp, tf_exists = None, False
    if tf:
        if tf[0] == "prodtable":
            tfp, tf_exists = os.path.join(pdir(tf[1]), "ups", tf[1] + ".table"), True
        elif tf[0] == "missing":
            tfp = os.path.join(root, "nowhere", "x.table")
        else:
            tfp = "none"
    pd = call["productDir"]
    pdp, ups_is_dir, tables = None, False, []
    if pd:
        if pd[0] == "proddir":
            pdp, ups_is_dir, tables = pdir(pd[1]), True, [pd[1]]
        elif pd[0] == "missing":
            pdp = os.path.join(root, "nowhere")
        else:
            pdp = os.path.join(root, "emptydir")
    found = len(call["args"]) > 1 and any(p["name"] == call["args"][0] and p["version"] == call["args"][1] for p in prods)
    return tfp, pdp, {"tablefileExists": tf_exists, "upsIsDir": ups_is_dir, "tables": tables, "found": found}


def _cli_argv(call, tfp, pdp):
    a = ["-q"] if call.get("quiet") else []
    if call["nolocks"]:
        a.append("-N")
    for k, f in (("help", "-h"), ("version", "-V"), ("list", "-l"), ("unsetup", "-u"), ("nodepend", "-j")):
        if call[k]:
            a.append(f)
    if call["maxDepth"] != -1:
        a += ["-S", str(call["maxDepth"])]
    if tfp is not None:
        a += ["-m", tfp]
    if pdp is not None:
        a += ["-r", pdp]
    return a + call["args"]


def _cli_run(env_before, argv, cwd):
    """The real wrapper script bin/eups_setup(.in) in this (forked) process: stdout, exit status, what eups.setup
    returned, os.environ afterwards."""
    import runpy
    import eups
    _set_environ(env_before)
    os.chdir(cwd)
    sys_argv = ["eups_setup"] + argv
    rec = {"reached": False, "cmds": None}
    real = eups.setup

    def recording(*a, **kw):
        rec["reached"] = True
        r = real(*a, **kw)
        rec["cmds"] = list(r)
        return r
    eups.setup = recording
    import sys as _sys
    _sys.argv = sys_argv
    out, code = io.StringIO(), 0
    script = os.path.join(common.REPO, "bin", "eups_setup.in")
    try:
        with contextlib.redirect_stdout(out), _quiet():
            try:
                runpy.run_path(script, run_name="__main__")
            except SystemExit as e:
                code = e.code if isinstance(e.code, int) else (0 if e.code is None else 1)
    finally:
        eups.setup = real
    return {"stdout": out.getvalue(), "status": code & 0xFF, "reached": rec["reached"], "cmds": rec["cmds"],
            "cur": [list(x) for x in os.environ.items()]}


def impl_cli(case):
    root = common.scratch("c05c")
    try:
        saved = dict(os.environ)
        cwd0 = os.getcwd()
        common.mkstacks(root, default_product=True)
        os.makedirs(os.path.join(root, "emptydir"))
        env = [["PATH", "/usr/bin:/bin"], ["HOME", root], ["EUPS_SHELL", "sh"], ["EUPS_FLAVOR", "Linux"],
               ["EUPS_PATH", os.environ["EUPS_PATH"]], ["EUPS_USERDATA", os.environ["EUPS_USERDATA"]]] + case["extra"]
        r = common.in_child(_stack_declare, env, root, case["products"])
        if r[0] != "ok":
            return {"declare": r[:3], "steps": []}
        steps = []
        for call in case["calls"]:
            tfp, pdp, world = _cli_paths(root, case["products"], call)
            argv = _cli_argv(call, tfp, pdp)
            pyenv = env
            if call.get("envargs"):
                ea = dict((k, v) for k, v in call["envargs"])
                # the caller's shell: holds NAME=value (an empty value: does not hold NAME); the Python process: does not get NAME
                env = [x for x in env if x[0] not in ea] + [[k, v] for k, v in call["envargs"] if v]
                pyenv = [x for x in env if x[0] not in ea]
                argv = ["%s=%s" % (k, v) for k, v in call["envargs"]] + argv
            r = common.in_child(_cli_run, pyenv, argv, os.path.join(root, "emptydir"))
            if r[0] != "ok":
                steps.append({"exc": r[1:3]})
                break
            st = r[1]
            st["world"], st["argv"], st["base"] = world, argv, env
            st["tablefile"], st["productDir"] = tfp, pdp
            if "`" not in st["stdout"] and "$(" not in st["stdout"]:
                st["shellsF"] = run_shells_full(env, st["stdout"], how="source", scratch=root)
            else:
                st["shellsF"] = None
            steps.append(st)
            if st["status"] == 0 and st["reached"] and st["cmds"] != ["false"]:
                env = [x for x in st["cur"] if x[0] != "EUPS_LOCK_PID"]
        os.chdir(cwd0)
        os.environ.clear()
        os.environ.update(saved)
        return {"steps": steps, "root": root}
    finally:
        common.rmtree(root)


def _subst(x, root):
    if root is None:
        return x
    if isinstance(x, str):
        return x.replace(root, "$S")
    if isinstance(x, list):
        return [_subst(y, root) for y in x]
    if isinstance(x, dict):
        return {k: _subst(v, root) for k, v in x.items()}
    return x


def impl_case(case):
    kind = case["kind"]
    if kind == "shell":
        return {"shells": run_shells(case["env"], case["text"])}
    if kind == "shellf":
        return {"shellsF": run_shells_full(case["env"], case["text"], funcs0=case["funcs"],
                                           fn_names=sorted(set(FN_NAMES + [k for k, _ in case["funcs"]])))}
    if kind == "stack":
        return impl_stack(case)
    if kind == "cli":
        return impl_cli(case)
    out = impl_emit(case) if kind == "emit" else impl_acts(case)
    sh_like = case["opts"]["shell"] == "sh" or (case["opts"]["shell"] == "zsh" and not case.get("aliases"))
    if "cmds" in out and sh_like and shell_safe(case, out):
        base = case["old"] if kind == "emit" else case["base"]
        f0 = funcs0_of(case)
        probed = sorted(set([k for k, _ in f0] + [k for k, _ in out.get("aliases", case.get("aliases", []))] +
                            [k for k, _ in out.get("oldAliases", case.get("oldAliases", []))]))
        out["shellsF"] = run_shells_full(base, ";\n".join(out["cmds"]) + "\n", how="source", scratch=_E._c05root,
                                         funcs0=f0, fn_names=probed)
        out["shells"] = envs_of(out["shellsF"])
        out["funcs0"], out["probed"] = f0, probed
    return out


def simple_body(v):
    """an alias value that can be handed to the shells as a predefined function and compared after normalisation"""
    return bool(v) and bool(v.strip()) and all(c in SAFE + " " for c in v) and v.split()[0] not in RESERVED


RESERVED = ["if", "then", "else", "elif", "fi", "case", "esac", "for", "while", "until", "do", "done", "in", "function",
            "select", "time", "coproc"]


def funcs0_of(case):
    """The shell functions the caller's shell holds before it sources the text: the aliases eups believes to exist
    (oldAliases); `acts` cases start with the aliases their unsetup actions will remove."""
    if case["kind"] == "emit":
        return [[k, " ".join(v.split()) if (v and simple_body(v)) else "true"] for k, v in case["oldAliases"] if IDENT.match(k)]
    if case["kind"] == "acts":
        seen, out = set(), []
        for a in case["acts"]:
            if a["op"] == "alias" and not a["fwd"] and a["k"] not in seen:
                seen.add(a["k"])
                out.append([a["k"], "true"])
        return out
    return []


def shell_safe(case, out):
    """May the text be handed to a real shell at all?  (Not the claim: it only keeps command substitutions, which
    could run anything, away from the machine.)"""
    text = ";\n".join(out["cmds"])
    if "`" not in text and "$(" not in text:
        return True
    # backquotes / $( ) that come from generated values of the quoted class are harmless whatever the emitter does with
    # them (`true`, $(true), a lone backquote); anything else (alias bodies with `eups_setup ...`) stays away from the shells
    vals = [v for _, v in out.get("cur", [])]
    rest = text
    for v in vals:
        if ("`" in v or "$(" in v) and all(b not in v.replace("`true`", "").replace("$(true)", "") for b in ("$(",)) and \
                v.replace("`true`", "").count("`") <= 1:
            rest = rest.replace(v, "")
    al = [v for _, v in (out.get("aliases") or case.get("aliases") or [])]
    return "`" not in rest and "$(" not in rest and not any("`" in v or "$(" in v for v in al)


def _mute():
    """eups writes its chatter to stream objects created at import time; silence them in the worker."""
    U = common.eups_mod("utils")
    null = open(os.devnull, "w")
    for n in ("stderr", "stdinfo", "stdwarn", "stdok"):
        setattr(U, n, null)


def run_chunk(cases):
    _mute()
    # the real-stack kinds first: the synthetic kinds configure the worker's eups (no default product) in a way the
    # real `Eups()` of a later stack case does not survive
    order = sorted(range(len(cases)), key=lambda i: 0 if cases[i]["kind"] in ("stack", "cli") else 1)
    res = [None] * len(cases)
    for i in order:
        res[i] = impl_case(cases[i])
    if _E is not None:
        common.rmtree(_E._c05root)
    if _CWD is not None:
        common.rmtree(_CWD)
    return res


# ---- model -----------------------------------------------------------------------------------------

def model_request(case):
    k = case["kind"]
    if k == "emit":
        fg = case.get("forgotten", [])
        return {"m": "c05", "op": "emit", "old": [[k, None if k in fg else v] for k, v in case["old"]],
                "new": case["new"], "aliases": case["aliases"],
                "oldAliases": case["oldAliases"], "opts": case["opts"]}
    if k == "acts":
        acts = []
        for a in case["acts"]:
            if a["op"] in ("push", "pop", "drop"):
                acts.append({"op": a["op"]})
            elif a["op"] == "alias":
                acts.append({"op": "alias", "force": case["force"], "fwd": a["fwd"], "k": a["k"], "v": a["v"]})
            elif a["op"] == "unset":
                if a["fwd"]:
                    acts.append({"op": "unset", "k": a["k"]})
            else:
                acts.append({"op": a["op"], "force": case["force"], "fwd": a["fwd"], "k": a["k"], "v": a["v"]})
        return {"m": "c05", "op": "acts", "base": case["base"], "acts": acts, "pinned": False, "opts": case["opts"]}
    if k == "shell":
        return {"m": "c05", "op": "sheval", "env": case["env"], "text": case["text"]}
    if k == "shellf":
        return {"m": "c05", "op": "shevalf", "env": case["env"], "funcs": case["funcs"], "text": case["text"]}
    raise ValueError(k)


SH_OPTS = {"shell": "sh", "noaction": False, "verbose2": False, "isEups": False, "fwd": True}


# ---- oracles ---------------------------------------------------------------------------------------

def expected_after_sourcing(base, computed, is_eups):
    """Oracle (ii), no model: the environment eups computed, except that the four EUPS_* variables are
    documented as never unset (unless the product is eups itself)."""
    exp = visible(computed)
    if not is_eups:
        b = dict(base)
        for k in PROTECTED:
            if k in b and k not in exp:
                exp[k] = b[k]
    return exp


def claim_of(base, old_after, computed, alphabet_only=False):
    """Is this delta inside the property's quantifier?  Names identifiers and not shell-special; every value that
    has to be written (new, changed, or re-exported because --force forgot the old value) over the claimed alphabet."""
    b = dict(base)
    oa = dict((k, v) for k, v in old_after)
    for k, v in computed:
        if not re.match(r"^[A-Za-z_][A-Za-z0-9_]*$", k) or SPECIAL.match(k):
            return False
        if oa.get(k) != v and not (in_alphabet(v) if alphabet_only else in_claim_value(v)):
            return False
    for k in b:
        if not re.match(r"^[A-Za-z_][A-Za-z0-9_]*$", k) or SPECIAL.match(k):
            return False
    return True


def check_delta(ctx, case, inp, base, old_after, computed, shells, is_eups, model_out, impl_out, alias_names=(), root=None):
    """Oracle (ii) on one rendered delta that was sourced by the shells."""
    if shells is None:
        return
    if not claim_of(base, old_after, computed):
        ctx.hist("delta:outside-claim")
        return
    if any(k in dict(computed) or k in dict(base) for k in alias_names):
        ctx.hist("delta:alias-named-like-variable")
    ctx.hist("delta:in-claim")
    oa_ = dict((k, v) for k, v in old_after)
    if any(oa_.get(k) != v and quoted_literal(v) and not in_alphabet(v) for k, v in computed):
        ctx.hist("delta:quoted-value-with-shell-special-text")
    exp = expected_after_sourcing(base, computed, is_eups)
    for sh, got in shells.items():
        if got != exp:
            diff = {k: [None if not isinstance(got, dict) else got.get(k), exp.get(k)]
                    for k in set(exp) | set(got if isinstance(got, dict) else {})
                    if not isinstance(got, dict) or got.get(k) != exp.get(k)}
            ctx.fail("sourced_env_equals_computed", inp, impl_out, model_out,
                     note="%s: {var: [after sourcing, computed]} = %s" % (sh, common.jdump(_subst(diff, root))[:600]))


def check_functions(ctx, inp, funcs0, aliases, old_aliases, full, noaction, impl_out, root=None):
    """Oracle (ii), no model: after sourcing, the shell holds exactly the functions it had, plus the aliases eups set,
    minus the aliases eups removed (bash: with the alias' text as body, up to blanks); under -n nothing changes.
    Only for alias values that are plain command lines (words over the safe characters)."""
    if full is None or not (aliases or old_aliases or funcs0):
        return
    if not all(IDENT.match(k) and k not in RESERVED + ["export", "unset", "true", "false", "echo"] for k, _ in aliases):
        return
    if not all(simple_body(v) for _, v in aliases):
        ctx.hist("functions:outside-claim")
        return
    exp = dict((k, v) for k, v in funcs0)
    if not noaction:
        od = dict((k, v) for k, v in old_aliases)
        for k, v in aliases:
            if not (k in od and od[k] == v):
                exp[k] = " ".join(v.split())
        for k, _ in old_aliases:
            if k not in dict(aliases):
                exp.pop(k, None)
    ctx.hist("functions:in-claim")
    if exp != dict((k, v) for k, v in funcs0):
        ctx.hist("functions:changed")
    for sh, got in full.items():
        if not isinstance(got, dict):
            continue                    # reported by sourced_env_equals_computed
        bad = sorted(k for k in set(exp) | set(got["fns"])
                     if (k in exp) != (k in got["fns"]) or (k in exp and isinstance(got["fns"][k], str) and got["fns"][k] != exp[k]))
        if bad:
            ctx.fail("sourced_functions_equal_aliases", inp, impl_out, None,
                     note="%s: functions %s: after sourcing %s, expected %s" % (sh, bad, common.jdump(got["fns"])[:300], common.jdump(exp)[:300]))


def csh_read(cmds):
    """What csh does with the emitted commands, read off its manual (no csh binary here): `setenv NAME WORD`,
    `unsetenv NAME`, `alias NAME 'TEXT'`, `unalias NAME`; a WORD is a run of ordinary characters or a single-quoted string
    (every character literal; csh has no way to put a quote inside, and an unescaped newline ends the line).
    Returns (sets, unsets, aliases, unaliases) or None when a command is not of these shapes."""
    sets, unsets, al, unal = {}, [], {}, []

    def word(w, alias=False):
        # (an alias text may hold \!*, csh's way of writing "the arguments"; elsewhere ! would be history substitution)
        if len(w) >= 2 and w[0] == "'" and w[-1] == "'" and "'" not in w[1:-1] and "\n" not in w and (alias or "!" not in w):
            return w[1:-1]
        if w and all(c in SAFE for c in w):
            return w
        return None
    for c in cmds:
        m = re.match(r"^setenv ([A-Za-z_][A-Za-z0-9_]*) (.*)$", c, re.S)
        if m:
            v = "" if m.group(2) == "" else word(m.group(2))
            if v is None:
                return None
            sets[m.group(1)] = v
            continue
        m = re.match(r"^unsetenv ([A-Za-z_][A-Za-z0-9_]*)$", c)
        if m:
            unsets.append(m.group(1))
            continue
        m = re.match(r"^alias ([A-Za-z_][A-Za-z0-9_]*) (.*)$", c, re.S)
        if m and word(m.group(2), alias=True) is not None:
            al[m.group(1)] = word(m.group(2), alias=True)
            continue
        m = re.match(r"^unalias ([A-Za-z_][A-Za-z0-9_]*)$", c)
        if m:
            unal.append(m.group(1))
            continue
        return None
    return sets, unsets, al, unal


def check_csh(ctx, inp, base, old_after, computed, cmds, is_eups, impl_out):
    """Oracle (ii) for the csh dialect, at the level of the text: read as csh reads it, the command list takes the caller's
    environment to the computed one (values over the alphabet, without newline: csh cannot quote one)."""
    if not claim_of(base, old_after, computed, alphabet_only=True) or \
            any("\n" in v for k, v in computed if dict(old_after).get(k) != v):
        ctx.hist("csh:outside-claim")
        return
    ctx.hist("csh:in-claim")
    r = csh_read(cmds)
    if r is None:
        ctx.fail("csh_text_reproduces_computed_environment", inp, impl_out, None,
                 note="a command is not a setenv/unsetenv/alias/unalias of words csh reads literally: %s" % common.jdump(cmds)[:400])
        return
    sets, unsets, al, unal = r
    env = visible(base)
    env.update(sets)
    for k in unsets:
        env.pop(k, None)
    exp = expected_after_sourcing(base, computed, is_eups)
    if env != exp:
        diff = {k: [env.get(k), exp.get(k)] for k in set(env) | set(exp) if env.get(k) != exp.get(k)}
        ctx.fail("csh_text_reproduces_computed_environment", inp, impl_out, None,
                 note="{var: [after the csh commands, computed]} = %s" % common.jdump(diff)[:500])
    want_al = dict((k, re.sub(r'"?\$@"?', r"\\!*", v)) for k, v in inp.get("aliases", [])
                   if dict((a, b) for a, b in inp.get("oldAliases", [])).get(k) != v)
    if all(simple_body(v) for v in want_al.values()) and (al != want_al or
                                                         sorted(unal) != sorted(k for k, _ in inp.get("oldAliases", []) if k not in dict(inp.get("aliases", [])))):
        ctx.fail("csh_text_reproduces_computed_environment", inp, impl_out, None,
                 note="aliases: text defines %r and removes %r" % (al, unal))


def check_noaction(ctx, inp, base, funcs0, full, impl_out, plain=None):
    """Oracle (ii): sourcing what `setup -n` prints changes nothing in the shell and succeeds."""
    if full is None:
        return
    if not all(IDENT.match(k) and not SPECIAL.match(k) for k, _ in base):
        return
    ctx.hist("noaction:sourced")
    for sh, got in full.items():
        if not isinstance(got, dict) or got["env"] != visible(base) or got["status"] != 0:
            ctx.fail("noaction_text_changes_nothing", inp, impl_out, None,
                     note="%s: after sourcing the -n text: %s" % (sh, common.jdump(got)[:400]))
    if plain is not None and not inp.get("aliases"):
        # ... and prints the commands the same request prints without -n (SETUP_* variables hidden unless -vv)
        exp = [c for c in plain if inp["opts"]["verbose2"] or "SETUP_" not in c.split("=")[0]]
        ctx.hist("noaction:echo-compared")
        for sh, got in full.items():
            if isinstance(got, dict) and got["out"] != "".join(c + "\n" for c in exp):
                ctx.fail("noaction_prints_the_commands", inp, impl_out, None,
                         note="%s: printed %s, the request without -n emits %s" % (sh, common.jdump(got["out"])[:300], common.jdump(exp)[:300]))


def check_failure(ctx, inp, base, funcs0, full, impl_out, root=None):
    """Oracle (ii): a failed request prints `false`: the environment is untouched and the caller sees a failure."""
    if full is None:
        return
    ctx.hist("failure:sourced")
    for sh, got in full.items():
        if not isinstance(got, dict) or got["env"] != visible(base) or got["status"] == 0 or \
                got["fns"] != dict((k, v) if sh == "bash" else (k, True) for k, v in funcs0):
            ctx.fail("failed_request_leaves_shell_untouched_and_reports_failure", inp, impl_out, None,
                     note="%s: after sourcing: %s" % (sh, common.jdump(_subst(got, root))[:400]))


def compare_shell_model(ctx, inp, shells, ans, what, root=None):
    """Oracle (i) for the shell model: when the text is in the fragment both shells must agree with shEval."""
    if shells is None:
        return None
    if "bad-op" in ans:
        ctx.disagree("shEval", inp, shells, ans)
        return None
    if ans.get("none"):
        ctx.hist(what + ":outside-fragment")
        return False
    m = visible(ans["env"])
    ctx.hist(what + ":in-fragment")
    for sh, got in shells.items():
        if got != m:
            ctx.disagree("shEval_vs_" + sh, inp, _subst(shells, root), _subst(m, root),
                         note="text evaluated by the real shell differs from shEval")
            break
    return True


def compare_shellf_model(ctx, inp, full, ans, what, probed, root=None):
    """Oracle (i) for the second layer of the shell model: environment, defined functions among `probed` (bash: their
    bodies too), echoed text and exit status of both shells = shEvalF's whenever the text is in the fragment."""
    if full is None:
        return None
    if "bad-op" in ans:
        ctx.disagree("shEvalF", inp, full, ans)
        return None
    if ans.get("none"):
        ctx.hist(what + ":outside-fragment")
        return False
    ctx.hist(what + ":in-fragment")
    menv, mf = visible(ans["env"]), dict((k, v) for k, v in ans["funcs"])
    mout = "".join(l + "\n" for l in ans["out"])
    for sh, got in full.items():
        bad = None
        if not isinstance(got, dict):
            bad = "the real shell rejects the text"
        elif got["env"] != menv:
            bad = "environment"
        elif got["out"] != mout:
            bad = "echoed text"
        elif got["status"] != ans["status"]:
            bad = "exit status"
        else:
            for k in probed:
                if (k in got["fns"]) != (k in mf):
                    bad = "function %s defined" % k
                elif k in mf and isinstance(got["fns"][k], str) and got["fns"][k] != mf[k]:
                    bad = "body of function %s" % k
        if bad:
            ctx.disagree("shEvalF_vs_" + sh, inp, _subst(got, root), _subst(ans, root),
                         note="text evaluated by the real shell differs from shEvalF: " + bad)
            break
    return True


# ---- evaluation ------------------------------------------------------------------------------------

NW = 4


def evaluate(ctx, cases):
    chunks = [cases[i::NW] for i in range(NW)]
    outs = parallel_map(run_chunk, chunks, workers=NW)
    impl = [None] * len(cases)
    for k, ch in enumerate(outs):
        for j, v in enumerate(ch):
            impl[k + j * NW] = v
    # round 1: emitter / action / shell-text models
    reqs, where = [], []
    for i, (c, io_) in enumerate(zip(cases, impl)):
        if c["kind"] == "cli":
            for j, st in enumerate(io_["steps"]):
                if "stdout" in st:
                    call = c["calls"][j]
                    inner = "returned"
                    if not (st["reached"] and st["cmds"] is not None) and st["status"] in (1, 255):
                        inner = "EupsException" if st["status"] == 1 else "other"
                    where.append((i, j))
                    reqs.append({"m": "c05", "op": "cli", "inner": inner, "cmds": st["cmds"] or [], "world": st["world"],
                                 "cli": {"help": call["help"], "version": call["version"], "list": call["list"],
                                         "unsetup": call["unsetup"], "nodepend": call["nodepend"], "maxDepth": call["maxDepth"],
                                         "tablefile": st["tablefile"], "productDir": st["productDir"], "args": call["args"]}})
        elif c["kind"] == "stack":
            for j, st in enumerate(io_["steps"]):
                if "cmds" in st and st["cmds"] != ["false"]:
                    where.append((i, j))
                    reqs.append({"m": "c05", "op": "emit", "old": st["old"], "new": st["pre"], "aliases": st["aliases"],
                                 "oldAliases": st["oldAliases"],
                                 "opts": dict(SH_OPTS, fwd=c["requests"][j]["fwd"],
                                              isEups=c["requests"][j]["product"] == "eups")})
        else:
            where.append((i, None))
            reqs.append(model_request(c))
    answers = ctx.lean.ask_many(reqs)
    model = {}
    for w, a in zip(where, answers):
        model[w] = a
    # round 2: shEval on the text the implementation emitted
    reqs2, where2 = [], []
    for i, (c, io_) in enumerate(zip(cases, impl)):
        if c["kind"] == "emit" and c["opts"]["shell"] == "csh" and not c["opts"]["noaction"] and "cmds" in io_:
            fg = c.get("forgotten", [])
            where2.append((i, "csh"))
            reqs2.append({"m": "c05", "op": "csh", "base": c["old"], "old": [[k, None if k in fg else v] for k, v in c["old"]],
                          "new": c["new"], "opts": c["opts"]})
        if c["kind"] in ("emit", "acts") and io_.get("shells") is not None:
            where2.append((i, None))
            reqs2.append({"m": "c05", "op": "shevalf", "env": c["old"] if c["kind"] == "emit" else c["base"],
                          "funcs": io_["funcs0"], "text": ";\n".join(io_["cmds"]) + "\n"})
        elif c["kind"] == "cli":
            for j, st in enumerate(io_["steps"]):
                if st.get("shellsF") is not None:
                    where2.append((i, j))
                    reqs2.append({"m": "c05", "op": "shevalf", "env": st["base"], "funcs": [], "text": st["stdout"]})
        elif c["kind"] == "stack":
            for j, st in enumerate(io_["steps"]):
                if "cmds" in st:
                    where2.append((i, j))
                    reqs2.append({"m": "c05", "op": "shevalf", "env": st["base"], "funcs": st["funcs0"],
                                  "text": ";\n".join(st["cmds"]) + "\n"})
    sheval = dict(zip(where2, ctx.lean.ask_many(reqs2)))

    for i, (c, io_) in enumerate(zip(cases, impl)):
        kind = c["kind"]
        ctx.hist("kind=" + kind)
        inp = c
        if kind == "shell":
            ans = model[(i, None)]
            infrag = compare_shell_model(ctx, inp, io_["shells"], ans, "text")
            changed = bool(infrag) and visible(ans["env"]) != visible(c["env"])
            ctx.case(key=c, nontrivial=changed, sample={"input": c, "impl": io_} if ctx.evaluations % 499 == 0 else None)
            continue
        if kind == "shellf":
            ans = model[(i, None)]
            probed = sorted(set(FN_NAMES + [k for k, _ in c["funcs"]]))
            infrag = compare_shellf_model(ctx, inp, io_["shellsF"], ans, "textF", probed)
            if infrag:
                if ans["funcs"] != c["funcs"]:
                    ctx.hist("textF:functions-changed")
                if ans["out"]:
                    ctx.hist("textF:echo")
                if ans["status"]:
                    ctx.hist("textF:status-nonzero")
            changed = bool(infrag) and (visible(ans["env"]) != visible(c["env"]) or ans["funcs"] != c["funcs"] or bool(ans["out"]))
            ctx.case(key=c, nontrivial=changed, sample={"input": c, "impl": io_} if ctx.evaluations % 499 == 0 else None)
            continue
        if kind == "cli":
            if "declare" in io_:
                raise common.InfraError("could not declare the generated products: %r" % (io_["declare"],))
            root = io_["root"]
            nontriv = False
            for j, st in enumerate(io_["steps"]):
                sub = {"kind": "cli", "products": c["products"], "calls": c["calls"][:j + 1], "extra": c["extra"]}
                if "exc" in st:
                    ctx.hist("cli:harness-exception=%s" % st["exc"][0])
                    ctx.disagree("cli_runs", sub, st, None)
                    continue
                m = model.get((i, j))
                got = {"stdout": st["stdout"] or None, "status": st["status"]}
                ctx.hist("cli:status=%d%s" % (st["status"], "" if st["stdout"] else "/silent"))
                if c["calls"][j].get("envargs") and st["status"] == 0 and st["reached"] and st["cmds"] != ["false"]:
                    ctx.hist("cli:NAME=value-argument/success")
                if st["cmds"] == ["false"]:
                    ctx.hist("cli:false-from-eups.setup")
                if m != got:
                    ctx.disagree("cli_stdout_and_status", sub, _subst(dict(got, argv=st["argv"], reached=st["reached"]), root),
                                 _subst(m, root))
                if st.get("shellsF") is None:
                    continue
                compare_shellf_model(ctx, sub, st["shellsF"], sheval[(i, j)], "emitted", [], root=root)
                failed = st["status"] != 0 or st["cmds"] == ["false"] or not st["reached"]
                call = c["calls"][j]
                declared = [(p["name"], p["version"]) for p in c["products"]]
                # from the structure of the case alone: a product or version that does not exist cannot be set up
                must_fail = bool(call["args"]) and not call["productDir"] and not (call["tablefile"] and not call["unsetup"]) and \
                    not (call["help"] or call["version"] or call["list"]) and not call["unsetup"] and \
                    not any(n == call["args"][0] and (len(call["args"]) < 2 or v == call["args"][1]) for n, v in declared)
                # ... and neither can a product that has no table file in the directory given with -r
                if call["productDir"] and call["productDir"][0] == "proddir" and call["args"] and not call["tablefile"] and \
                        call["args"][0] != call["productDir"][1] and not (call["help"] or call["version"] or call["list"]):
                    must_fail = True
                if must_fail:
                    ctx.hist("cli:request-that-must-fail")
                    for sh, g in st["shellsF"].items():
                        if not isinstance(g, dict) or g["status"] == 0 or g["env"] != visible(st["base"]):
                            ctx.fail("failed_request_leaves_shell_untouched_and_reports_failure", sub,
                                     _subst({"stdout": st["stdout"], "status": st["status"]}, root), _subst(m, root),
                                     note="%s: the request cannot succeed, yet after sourcing: %s" % (sh, common.jdump(_subst(g, root))[:300]))
                if failed:
                    # oracle (ii): whatever went wrong, the caller's shell is untouched; when something was printed it is
                    # a failing command
                    ctx.hist("cli:failure-sourced")
                    for sh, g in st["shellsF"].items():
                        if not isinstance(g, dict) or g["env"] != visible(st["base"]) or (st["stdout"].strip() and g["status"] == 0):
                            ctx.fail("failed_request_leaves_shell_untouched_and_reports_failure", sub,
                                     _subst({"stdout": st["stdout"], "status": st["status"]}, root), _subst(m, root),
                                     note="%s: after sourcing: %s" % (sh, common.jdump(_subst(g, root))[:400]))
                else:
                    nontriv = nontriv or bool(st["cmds"])
                    old_after = [[k, v] for k, v in st["base"]]
                    # lock.takeLocks puts EUPS_LOCK_PID into the process environment for its children *before* Eups takes
                    # the baseline of the delta: it is deliberately not part of what the shell is told
                    cur = [x for x in st["cur"] if x[0] != "EUPS_LOCK_PID" or x[0] in dict(st["base"])]
                    check_delta(ctx, c, sub, st["base"], old_after, cur, envs_of(st["shellsF"]),
                                bool(c["calls"][j]["args"]) and c["calls"][j]["args"][0] == "eups",
                                _subst(m, root), _subst({"stdout": st["stdout"], "status": st["status"]}, root), root=root)
            ctx.case(key=c, nontrivial=nontriv, sample={"input": c, "impl": _subst(io_, root)} if ctx.evaluations % 199 == 0 else None)
            continue
        if kind == "stack":
            if "declare" in io_:
                raise common.InfraError("could not declare the generated products: %r" % (io_["declare"],))
            any_cmd = False
            for j, st in enumerate(io_["steps"]):
                req = c["requests"][j]
                ctx.hist("stack:%s%s" % ("setup" if req["fwd"] else "unsetup", "/force" if req["force"] else ""))
                if req["product"] == "eups" and not req["fwd"] and "cmds" in st and st["cmds"] != ["false"]:
                    ctx.hist("stack:unsetup-eups")
                if "cmds" in st and req["product"] != "eups" and \
                        any(x.startswith("unset ") and re.match(r"unset (SETUP_)?EUPS_", x) for x in st["cmds"]):
                    ctx.hist("stack:near-miss-variable-unset")
                if "exc" in st:
                    ctx.hist("stack:exception=" + st["exc"])
                    continue
                if st["cmds"] == ["false"]:
                    ctx.hist("stack:refused")
                    sub = {"kind": "stack", "products": c["products"], "requests": c["requests"][:j + 1], "extra": c["extra"]}
                    compare_shellf_model(ctx, sub, st["shellsF"], sheval[(i, j)], "emitted", st["probed"], root=io_["root"])
                    check_failure(ctx, sub, st["base"], st["funcs0"], st["shellsF"], _subst(st["cmds"], io_["root"]), root=io_["root"])
                    continue
                any_cmd = any_cmd or bool(st["cmds"])
                m = model.get((i, j))
                sub = {"kind": "stack", "products": c["products"], "requests": c["requests"][:j + 1], "extra": c["extra"]}
                root = io_["root"]
                if m is None or m.get("cmds") != st["cmds"]:
                    ctx.disagree("emitted_commands", sub, _subst(st["cmds"], root), _subst(m, root))
                compare_shellf_model(ctx, sub, st["shellsF"], sheval[(i, j)], "emitted", st["probed"], root=root)
                if claim_of(st["base"], st["old"], st["cur"]):
                    check_functions(ctx, sub, st["funcs0"], st["aliases"], st["oldAliases"], st["shellsF"], False,
                                    _subst(st["cmds"], root), root=root)
                if m is not None and "final" in m and m["final"] != st["cur"]:
                    ctx.disagree("computed_environment", sub, _subst(st["cur"], root), _subst(m["final"], root))
                check_delta(ctx, c, sub, st["base"], st["old"], st["cur"], st["shells"], req["product"] == "eups",
                            _subst(m and m.get("cmds"), root), _subst(st["cmds"], root), root=root,
                            alias_names=[k for k, _ in st["aliases"]] + [k for k, _ in st["oldAliases"]])
            ctx.case(key=c, nontrivial=any_cmd, sample={"input": c, "impl": io_} if ctx.evaluations % 199 == 0 else None)
            continue
        # emit / acts
        m = model[(i, None)]
        if "exc" in io_:
            ctx.hist(kind + ":exception=" + io_["exc"])
            ctx.disagree("no_exception", inp, io_, m)
            ctx.case(key=c, nontrivial=False)
            continue
        o = c["opts"]
        ctx.hist("%s:shell=%s%s" % (kind, o["shell"], "/noaction" if o["noaction"] else ""))
        if kind == "acts" and any(a["op"] == "pop" for a in c["acts"]):
            ctx.hist("acts:changes-thrown-away-by-popStack")
        if kind == "emit" and o["shell"] == "sh" and not o["noaction"] and not o["isEups"]:
            gone = [k for k, _ in c["old"] if k not in dict(c["new"])]
            if any(k not in PROTECTED and any(k.upper().find(p) >= 0 or p.startswith(k.upper()) for p in PROTECTED) for k in gone):
                ctx.hist("emit:near-miss-of-protected-name-removed")
            if any(k in PROTECTED for k in gone):
                ctx.hist("emit:protected-name-removed")
        if kind == "emit" and o["isEups"] and not o["fwd"] and o["shell"] == "sh" and not o["noaction"]:
            dropped = [k for k in ("EUPS_PATH", "EUPS_PKGROOT", "EUPS_SHELL") if k in dict(c["old"]) and k in dict(c["new"])]
            ctx.hist("emit:unsetup-eups")
            if dropped:
                ctx.hist("emit:unsetup-eups/dropped-variable-in-caller-env")
        ctx.hist("ncmds=%s" % min(len(io_["cmds"]), 10))
        # (from the case, not from what the implementation printed: a floor must not depend on the code under test)
        vals = [v for _, v in c["new"]] if kind == "emit" else [a.get("v") or "" for a in c["acts"]]
        if any(quoted_literal(v) for v in vals):
            ctx.hist("quoted-value")
        if m.get("unmodelled"):
            ctx.hist(kind + ":unmodelled")
            ctx.case(key=c, nontrivial=False, validated=False)
            continue
        if "bad-op" in m:
            ctx.disagree("emitted_commands", inp, io_, m)
            continue
        if kind == "emit":
            mo = {"cmds": m["cmds"], "cur": m["final"]}
            io_cmp = {"cmds": io_["cmds"], "cur": io_["cur"]}
        else:
            mo = {"cmds": m["cmds"], "old": m["old"], "cur": m["cur"], "aliases": m["aliases"], "oldAliases": m["oldAliases"]}
            io_cmp = {"cmds": io_["cmds"], "old": io_["old"], "cur": io_["cur"], "aliases": io_["aliases"],
                      "oldAliases": io_["oldAliases"]}
        if mo != io_cmp:
            ctx.disagree("emitted_commands" if mo["cmds"] != io_cmp["cmds"] else "environment_bookkeeping", inp, io_cmp, mo)
        if kind == "emit" and o["shell"] == "csh" and not o["noaction"]:
            check_csh(ctx, inp, c["old"], io_["old"], io_["cur"], io_["cmds"], o["isEups"], io_cmp)
            # the Lean reading of csh words (cshWord, what C05_csh_roundtrip is about) and the harness's reader agree
            ans = sheval.get((i, "csh"))
            r = csh_read([x for x in io_["cmds"] if not x.startswith(("alias ", "unalias "))])
            if ans is not None and "bad-op" not in ans:
                py = None
                if r is not None:
                    py = visible(c["old"])
                    py.update(r[0])
                    for k in r[1]:
                        py.pop(k, None)
                lean = None if ans.get("none") else visible(ans["env"])
                if py != lean and m.get("cmds") == io_["cmds"]:
                    ctx.disagree("csh_reading", inp, py, lean, note="csh_read (harness) and cshApplyAll (model) read the csh text differently")
        if io_.get("shells") is not None:
            if o["shell"] == "zsh":
                ctx.hist("emit:zsh-text-sourced")
            base = c["old"] if kind == "emit" else c["base"]
            compare_shellf_model(ctx, inp, io_["shellsF"], sheval[(i, None)], "emitted", io_["probed"])
            if claim_of(base, io_["old"], io_["cur"]):
                check_functions(ctx, inp, io_["funcs0"], io_.get("aliases", c.get("aliases", [])),
                                io_.get("oldAliases", c.get("oldAliases", [])), io_["shellsF"], o["noaction"], io_cmp)
                # under -n the commands sit inside echo "...": $, backquote, backslash and double quote are not literal there
                if o["noaction"] and claim_of(base, io_["old"], io_["cur"], alphabet_only=True):
                    check_noaction(ctx, inp, base, io_["funcs0"], io_["shellsF"], io_cmp, plain=io_.get("plain_cmds"))
            if not o["noaction"]:
                check_delta(ctx, c, inp, base, io_["old"], io_["cur"], io_["shells"], o["isEups"], mo, io_cmp,
                            alias_names=[k for k, _ in io_.get("aliases", c.get("aliases", []))] +
                            [k for k, _ in io_.get("oldAliases", c.get("oldAliases", []))])
        ctx.case(key=c, nontrivial=bool(io_["cmds"]), sample={"input": c, "impl": io_} if ctx.evaluations % 499 == 0 else None)


def corpus_cases():
    d = os.path.join(common.VERIF, "corpus", "C05")
    out = []
    if os.path.isdir(d):
        for f in sorted(os.listdir(d)):
            if f.endswith(".json"):
                with open(os.path.join(d, f)) as fh:
                    c = json.load(fh)
                out.append(c)
    return out


def gen_case(rng, kind):
    return {"emit": gen_emit, "acts": gen_acts, "stack": gen_stack, "shell": gen_shell, "shellf": gen_shellf, "cli": gen_cli}[kind](rng)


ENUM_ALPHA = "a/= \t\n<>|&;()'"


def enum_cases(maxlen):
    """Every value of length <= maxlen over a 14-symbol alphabet (the metacharacters, three safe characters and the
    single quote), each as a new variable; 12 variables per case, next to an untouched caller's environment."""
    import itertools
    vals = [""]
    for n in range(1, maxlen + 1):
        vals += ["".join(t) for t in itertools.product(ENUM_ALPHA, repeat=n)]
    out = []
    for i in range(0, len(vals), 12):
        new = [["KEEP", "k e e p"]] + [["V%d" % j, v] for j, v in enumerate(vals[i:i + 12])]
        out.append({"kind": "emit", "old": [["KEEP", "k e e p"], ["GONE", "x"]], "forgotten": [], "new": new, "aliases": [],
                    "oldAliases": [], "opts": dict(SH_OPTS)})
    return out


QUICK = [("emit", 2000, 500), ("stack", 120, 40), ("cli", 72, 24), ("acts", 600, 300), ("shellf", 1000, 500), ("shell", 1200, 400)]
THOROUGH = [("emit", 60000, 600), ("stack", 4000, 48), ("cli", 3000, 48), ("acts", 30000, 600), ("shellf", 60000, 600),
            ("shell", 100000, 600)]


def run_stream(ctx, budget):
    """The generated stream, round-robin over the case classes: every class gets a slice per round, so that a time limit
    (loaded machine, enlarged budget) starves none of them."""
    done = {k: 0 for k, _, _ in budget}
    while not ctx.out_of_time() and any(done[k] < n for k, n, _ in budget):
        for kind, n, batch in budget:
            if done[kind] >= n or ctx.out_of_time():
                continue
            k = min(batch, n - done[kind])
            evaluate(ctx, [gen_case(ctx.rng, kind) for _ in range(k)])
            done[kind] += k


def check_floors(ctx):
    h = ctx.histogram
    if h.get("delta:in-claim", 0) < 0.2 * max(1, h.get("kind=emit", 0) + h.get("kind=acts", 0)):
        raise common.InfraError("degenerate distribution: %d deltas inside the claim" % h.get("delta:in-claim", 0))
    if h.get("text:in-fragment", 0) < 0.3 * max(1, h.get("kind=shell", 0)):
        raise common.InfraError("degenerate distribution: %d shell texts inside the fragment" % h.get("text:in-fragment", 0))
    if h.get("emit:near-miss-of-protected-name-removed", 0) < 100 or h.get("stack:near-miss-variable-unset", 0) < 5:
        raise common.InfraError("degenerate distribution: near misses of the protected names among the removed variables "
                                "%d (synthetic) / %d (real stack) times" %
                                (h.get("emit:near-miss-of-protected-name-removed", 0), h.get("stack:near-miss-variable-unset", 0)))
    if h.get("emit:unsetup-eups/dropped-variable-in-caller-env", 0) < 20 or h.get("stack:unsetup-eups", 0) < 5:
        raise common.InfraError("degenerate distribution: unsetup of eups itself reached %d (synthetic) / %d (real stack) times"
                                % (h.get("emit:unsetup-eups/dropped-variable-in-caller-env", 0), h.get("stack:unsetup-eups", 0)))
    if h.get("textF:in-fragment", 0) < 0.25 * max(1, h.get("kind=shellf", 0)) or h.get("textF:functions-changed", 0) < 30:
        raise common.InfraError("degenerate distribution: %d texts with functions/echo inside the fragment, %d changing the functions"
                                % (h.get("textF:in-fragment", 0), h.get("textF:functions-changed", 0)))
    if h.get("functions:changed", 0) < 30 or h.get("noaction:sourced", 0) < 20:
        raise common.InfraError("degenerate distribution: aliases changed the shell's functions %d times, -n texts sourced %d times"
                                % (h.get("functions:changed", 0), h.get("noaction:sourced", 0)))
    if h.get("cli:NAME=value-argument/success", 0) < 8:
        raise common.InfraError("degenerate distribution: %d successful command lines with a NAME=value argument"
                                % h.get("cli:NAME=value-argument/success", 0))
    if h.get("cli:failure-sourced", 0) < 10 or h.get("cli:status=0", 0) < 10 or h.get("cli:status=3/silent", 0) < 2:
        raise common.InfraError("degenerate distribution: command-line cases: %d failures sourced, %d successes, %d usage errors"
                                % (h.get("cli:failure-sourced", 0), h.get("cli:status=0", 0), h.get("cli:status=3/silent", 0)))
    if h.get("delta:quoted-value-with-shell-special-text", 0) < 150:
        raise common.InfraError("degenerate distribution: %d deltas write a quoted value that also holds $NAME, a backquote, a "
                                "backslash or a double quote" % h.get("delta:quoted-value-with-shell-special-text", 0))
    if h.get("acts:changes-thrown-away-by-popStack", 0) < 10:
        raise common.InfraError("degenerate distribution: %d action sequences with changes thrown away by popStack"
                                % h.get("acts:changes-thrown-away-by-popStack", 0))
    if h.get("csh:in-claim", 0) < 40 or h.get("emit:zsh-text-sourced", 0) < 20:
        raise common.InfraError("degenerate distribution: %d csh texts inside the claim, %d zsh texts sourced"
                                % (h.get("csh:in-claim", 0), h.get("emit:zsh-text-sourced", 0)))
    if h.get("quoted-value", 0) < 0.2 * max(1, h.get("kind=emit", 0)):
        raise common.InfraError("degenerate distribution: %d cases with a quoted value" % h.get("quoted-value", 0))


def run(ctx):
    """The ordinary quick portion first and completely - corpus, the enumeration slice, the generated stream of every class,
    the distribution floors - and only then whatever the thorough tier (or a quick run escalated because the mirrored
    source changed) adds."""
    cases = corpus_cases()
    ctx.hist("corpus", len(cases))
    evaluate(ctx, cases)
    en = enum_cases(2)
    ctx.hist("enumerated-values", sum(len(c["new"]) - 1 for c in en))
    for i in range(0, len(en), 600):
        evaluate(ctx, en[i:i + 600])
    run_stream(ctx, QUICK)
    check_floors(ctx)
    if ctx.tier == "thorough" or ctx.escalated:
        if not ctx.out_of_time():
            en = enum_cases(3)[len(en):]
            ctx.hist("enumerated-values", sum(len(c["new"]) - 1 for c in en))
            for i in range(0, len(en), 600):
                if ctx.out_of_time():
                    break
                evaluate(ctx, en[i:i + 600])
        run_stream(ctx, [(k, n - dict((a, b) for a, b, _ in QUICK)[k], batch) for k, n, batch in THOROUGH])


def replay(ctx, rp):
    c = rp["input"]
    before = (len(ctx.failures), len(ctx.disagreements))
    evaluate(ctx, [c])
    fails = [{"clause": f["clause"], "note": f["note"]} for f in ctx.failures[before[0]:]]
    dis = [{"observable": d["observable"], "impl": d["impl_output"], "model": d["model_output"]}
           for d in ctx.disagreements[before[1]:]]
    impl = ctx.failures[before[0]]["impl_output"] if fails else (dis[0]["impl"] if dis else None)
    model = ctx.failures[before[0]]["model_output"] if fails else (dis[0]["model"] if dis else None)
    return {"input": c, "impl_output": impl, "model_output": model, "agree": not dis, "disagreements": dis, "fails": fails}
