"""C04 — setup changes only what it was asked to (keep, just, max-depth, bystanders).

Same implementation runner, model and generator as C01 (harness/lib_setup.py); histories are longer so that the
request under test meets a populated environment (related and unrelated products, same or different versions).
Oracle (ii): (i) keep: every product set up beforehand other than the one named keeps its version; (ii) frame: names
not reachable from the requested name through the tables of any declared version keep record, directory variable,
own path elements (order included) and own envSet variables; foreign path elements are kept in order;
(iii) depth: names whose distance from the request exceeds max_depth are untouched."""
from . import common
from . import lib_setup as L

RULE = ("case = product graph (as C01) + prior environment + history of 2-5 requests on one environment with keep (28%), "
        "max-depth in {-1,0,1,2}, explicit/bare/relational versions, -t beta, unsetup requests; every request of a "
        "history is checked against the environment the previous ones left; non-trivial = some request changes the "
        "environment; distinct = distinct case digests")
TRUSTED = ["harness/lib_setup.py (generator, canonicaliser, reachability and distance over the name graph)",
           "CPython dict/str semantics, os.environ handling, fork"]
ASSUMPTIONS = ["as C01; reachability and depth are taken over the tables of every declared version of a product "
               "(reading ii of DESIGN.md section 6 C04, over-approximated)"]
PID = "C04"
MIRRORS = L.mirrors(PID)


def aim_keep_at_line_tag(rng, case):
    """Turn a generated case into the scenario `--keep` against a dependency line's own tag: some line `p -> m` gets
    `-t beta`, m is first set up in a version other than the beta one, then p is requested with --keep."""
    g = case["graph"]
    beta = g["tags"]["beta"]
    cands = []
    for d in g["decls"]:
        if d.get("shared"):
            continue                # every version of the product reads ONE table file: its lines are not edited one by one
        for seg in d["table"]:
            for a in ([seg] if "if" not in seg else seg["if"] + seg["else"]):
                if a.get("a") == "dep" and a["name"] in beta:
                    others = [x["ver"] for x in g["decls"] if x["name"] == a["name"] and x["ver"] != beta[a["name"]]
                              and x.get("stack", 0) == 0]
                    if others:
                        cands.append((d, a, others))
    if not cands:
        return case
    d, a, others = rng.choice(cands)
    a["tags"] = ["beta"]
    a["just"] = False
    inexact = case["history"][0]["inexact"]
    mk = lambda name, ver, keep: {"op": "setup", "name": name, "ver": ver, "keep": keep, "max_depth": -1, "tags": [], "inexact": inexact}
    case["history"] = [mk(a["name"], {"v": rng.choice(others)}, False), mk(d["name"], {"v": d["ver"]}, True)] + case["history"][:2]
    return case


def run(ctx):
    stats = {}
    L.evaluate(ctx, PID, L.load_corpus(PID), stats)
    target = ctx.n(4000, 60000)
    done = 0
    import time
    soft = L.soft_deadline(ctx)
    while done < target and not ctx.out_of_time() and time.time() < soft:
        batch = [L.gen_case(ctx.rng, nreq=ctx.rng.randint(2, 5)) for _ in range(96)]
        batch = [aim_keep_at_line_tag(ctx.rng, c) if ctx.rng.random() < 0.15 else c for c in batch]
        batch += [L.gen_generic_keep_case(ctx.rng) for _ in range(10)]      # --keep over a set-up product of flavor generic
        L.evaluate(ctx, PID, batch, stats)
        done += sum(len(c["history"]) for c in batch)
    for k, v in sorted(stats.items()):
        ctx.hist("stat_" + k, v)
    if done >= 600 and (stats.get("class_keep_generic", 0) < 3 or stats.get("class_prefix_bystander", 0) < 5):
        raise common.InfraError("input classes of round 3 under their floors: %r of %d requests" % (stats, done))
    if done >= 300 and (stats.get("c04_keep", 0) < 20 or stats.get("c04_depth", 0) < 40 or stats.get("c04_frame", 0) < 100):
        raise common.InfraError("degenerate distribution: %r of %d requests" % (stats, done))


def replay(ctx, rp):
    return L.replay_case(ctx, PID, rp)
