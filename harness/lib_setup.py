"""Shared library of the C01 / C02 / C04 harnesses (one model: lean/EupsModel/Model/Setup.lean, handler "c01").

A *case* is generator-level JSON: a product graph (names x versions, tables as lists of structured actions,
`if (type == exact)` blocks, tags), a prior environment (strings, `$S` = the stack root) and a history of
requests executed on one environment, each request in its own forked child:

    Eups(readCache=False, keep, max_depth); selectVRO(tag, versionName, inexact_version); eups.app.setup(...)

Observables per request: outcome (ok | notfound | raised), the VRO, SETUP_* records, *_DIR, every variable a
table names as canonical element lists, aliases, the command list of eups.app.setup string by string (`sh`: against
Model/Setup composed with Model/ShellEmit's rendering, see sh_comparable / sh_canon), the deepest nesting of Eups.setup.
Oracle (ii) is computed from the graph and the implementation's outputs only (never from the model)."""
import contextlib
import io
import json
import os
import sys

from . import common

def mirrors(pid):
    """MIRRORS of a C01/C02/C04 harness: the central list (fingerprints/mirrors.json) plus what round 3 put under the
    correspondence: the emission loop (app.setup / unsetup), the command line entry (setupcmd), the naming helpers
    (utils) and the expansion of ${PRODUCT_DIR} / ${<NAME>_DIR} / ${PRODUCT_VERSION} when a table is loaded."""
    with open(os.path.join(common.VERIF, "fingerprints", "mirrors.json")) as f:
        base = [tuple(x) for x in json.load(f).get(pid, [])]
    extra = [("python/eups/app.py", "setup"), ("python/eups/app.py", "unsetup"), ("python/eups/setupcmd.py", "*"),
             ("python/eups/utils.py", "*"), ("python/eups/table.py", "Table.expandEupsVariables"),
             ("python/eups/Product.py", "*")]
    return base + [x for x in extra if x not in base]


FUEL = 60                       # nesting depth of Eups.setup the model follows; deeper = out-of-fuel
BASE_PATH = "/usr/bin:/bin"
NAMES = ["a", "b", "c", "d", "e", "f", "g"]
VERPOOLS = [["1", "2", "3"], ["1.0", "1.3", "2.0"], ["1.9", "1.10", "2"]]
RELOPS = ["<", "<=", "==", ">=", ">"]


# ================================================================================================
# generator
# ================================================================================================

def gen_spec(rng, pool, fail_rate=0.06):
    r = rng.random()
    if r < fail_rate:
        return rng.choice([{"kind": "explicit", "v": "9"}, {"kind": "expr", "e": [[">=", "9"]]}])
    r = rng.random()
    if r < 0.45:
        return {"kind": "bare"}
    if r < 0.65:
        return {"kind": "explicit", "v": rng.choice(pool)}
    if r < 0.82:
        e = [[rng.choice(RELOPS), rng.choice(pool)]]
        if rng.random() < 0.2:
            e.append([rng.choice(RELOPS), rng.choice(pool)])
        return {"kind": "expr", "e": e}
    if r < 0.94:
        return {"kind": "vexpr", "v": rng.choice(pool), "e": [[rng.choice([">=", ">", "<="]), rng.choice(pool)]]}
    return {"kind": "bracket", "e": [[">=", rng.choice(pool)]]}


def gen_contribs(rng, n, pathvars, rich):
    acts = [{"a": "prepend", "var": "PATH", "own": True, "val": "/bin", "append": False}]
    if rng.random() < 0.5:
        acts.append({"a": "prepend", "var": "LIBP", "own": True, "val": "/lib", "append": True})
    if "XP" in pathvars and rng.random() < 0.5:
        acts.append({"a": "prepend", "var": "XP", "own": True, "val": rng.choice(["/x", "", "/share/x"]),
                     "append": rng.random() < 0.5})
    if rng.random() < 0.3:
        # one envPrepend / envAppend whose value holds several delimiter-separated pieces
        var = rng.choice(sorted(pathvars))
        more = [{"own": True, "val": "/scripts"}]
        if rng.random() < 0.3:
            more.append({"own": True, "val": "/m2"})
        if rich and rng.random() < 0.25:
            more.append({"own": False, "val": "/opt/%s/multi" % n})
        acts.append({"a": "prepend", "var": var, "own": True, "val": "/mbin", "append": rng.random() < 0.5, "more": more})
    if rng.random() < 0.5:
        acts.append({"a": "set", "var": n.upper() + "_X", "own": True, "val": rng.choice(["/x", "", "/etc/x.cfg"])})
    if rich and rng.random() < 0.15:
        acts.append({"a": "prepend", "var": "PATH", "own": False, "val": "/opt/%s/bin" % n, "append": rng.random() < 0.5})
    if rich and rng.random() < 0.12:
        acts.append({"a": "set", "var": n.upper() + "_MODE", "own": False, "val": "mode-" + n})
    if rich and rng.random() < 0.2:
        acts.append({"a": "alias", "key": "run_" + n, "val": "echo run " + n})
    if rich and rng.random() < 0.14:
        # the product's own directory spelled ${<NAME>_DIR} in the *middle* of a value: -L${N_DIR}/lib (blank-delimited
        # variable) or /opt/share/n:${N_DIR}/man (text, and a delimiter, in front of the reference; a value that *starts*
        # with the delimiter would add an empty element, which is C12's string level)
        if "LDF" in pathvars and rng.random() < 0.6:
            acts.append({"a": "prepend", "var": "LDF", "own": False, "val": "-L%D/lib", "append": rng.random() < 0.5})
        else:
            acts.append({"a": "prepend", "var": rng.choice(["PATH", "LIBP"]), "own": False,
                         "val": "/opt/share/%s:%%D/man" % n, "append": rng.random() < 0.5})
    return acts


def gen_graph(rng, cyc=False, rich=True, nmin=3, nmax=7, generic=False):
    """DAG by name order (product i depends on products of larger index); with cyc, a few back edges
    create name-level cycles across versions (the D17 class)."""
    k = rng.randint(nmin, nmax)
    names = NAMES[:k]
    pool = rng.choice(VERPOOLS)
    pathvars = {"PATH": ":", "LIBP": ":"}
    spaces = rng.random() < 0.15
    space_root = rng.random() < 0.1
    if rng.random() < 0.4:      # a blank delimiter only where no directory contains a blank (C12 owns that case)
        pathvars["XP"] = rng.choice([";", ",", "|"] + ([] if spaces or space_root else [" "]))
    if rich and not spaces and not space_root and rng.random() < 0.35:
        pathvars["LDF"] = " "    # a blank-delimited flags variable (envAppend(LDF, -L${X_DIR}/lib, " "))
    decls, cur, beta = [], {}, {}
    for i, n in enumerate(names):
        vs = rng.sample(pool, rng.randint(1, 3))
        for v in vs:
            acts = gen_contribs(rng, n, pathvars, rich)
            for m in names:
                if m == n:
                    continue
                fwd_edge = names.index(m) > i
                p = 0.45 if fwd_edge else (0.12 if cyc else 0.0)
                if rng.random() < p:
                    dep = {"a": "dep", "name": m, "opt": rng.random() < 0.34, "just": rng.random() < 0.25,
                           "spec": gen_spec(rng, pool), "tags": []}
                    if rich and rng.random() < 0.15:      # the line's own -t tag(s): setupRequired(m -t beta …)
                        dep["tags"] = rng.choice([["beta"], ["beta"], ["current"], ["beta", "current"]])
                    if rich and rng.random() < 0.08:      # the line's own -k: keep for this line only
                        dep["keep"] = True
                    acts.insert(rng.randint(0, len(acts)), dep)
            if rich and rng.random() < 0.04:
                acts.insert(rng.randint(0, len(acts)), {"a": "dep", "name": "zz", "opt": rng.random() < 0.6, "just": False,
                                                        "spec": {"kind": "bare"}})
            table = list(acts)
            if rich and rng.random() < 0.3:      # wrap a slice in if (type == exact) { … } else { … }
                i0 = rng.randint(0, len(acts) - 1)
                i1 = rng.randint(i0 + 1, min(len(acts), i0 + 3))
                other = []
                for _ in range(rng.randint(1, 2)):
                    if rng.random() < 0.5 and i + 1 < len(names):
                        other.append({"a": "dep", "name": rng.choice(names[i + 1:]), "opt": rng.random() < 0.4,
                                      "just": False, "spec": gen_spec(rng, pool)})
                    else:
                        other.append({"a": "prepend", "var": "PATH", "own": True, "val": "/ibin", "append": False})
                table = acts[:i0] + [{"if": acts[i0:i1], "else": other}] + acts[i1:]
            if rich and rng.random() < 0.15:     # if (type == build) { … } else { … }  (setup --type build)
                flat_i = [k_ for k_, seg in enumerate(table) if "if" not in seg]
                if flat_i:
                    k_ = rng.choice(flat_i)
                    other = [{"a": "prepend", "var": "PATH", "own": True, "val": "/dbg", "append": rng.random() < 0.5}] \
                        if rng.random() < 0.6 else []
                    if rng.random() < 0.3 and i + 1 < len(names):
                        other.append({"a": "dep", "name": rng.choice(names[i + 1:]), "opt": rng.random() < 0.5,
                                      "just": False, "spec": gen_spec(rng, pool)})
                    seg = {"if": [table[k_]], "else": other, "cond": "build"}
                    if rng.random() < 0.3:
                        seg = {"if": other, "else": [table[k_]], "cond": "build"}
                    if seg["if"] or seg["else"]:
                        table[k_] = seg
            sub = "Linux/%s%s/%s" % (n, " dir" if spaces else "", v)
            decls.append({"name": n, "ver": v, "sub": sub, "table": table})
        if rng.random() < 0.85:
            cur[n] = rng.choice(vs) if (not rich or rng.random() > 0.03) else "9"      # rarely: a tag on an undeclared version
        if rng.random() < 0.4:
            beta[n] = rng.choice(vs)
    g = {"names": names, "pool": pool, "pathvars": pathvars, "space_root": space_root,
         "decls": decls, "tags": {"current": cur, "beta": beta}, "cyc": cyc, "nstacks": 1}
    if rich and rng.random() < 0.15:
        # ONE table file shared by every version of a product (declare -m /site/<name>.table): the table speaks of
        # ${PRODUCT_DIR} and ${PRODUCT_VERSION}; a switch between the versions reads the same file for two products
        multi = sorted({d["name"] for d in decls if sum(1 for x in decls if x["name"] == d["name"]) > 1})
        if multi:
            ns = rng.choice(multi)
            mine_ = [d for d in decls if d["name"] == ns]
            t0 = mine_[0]["table"] + [{"a": "prepend", "var": "PATH", "own": True, "val": "/v%V/bin", "append": rng.random() < 0.5}]
            if rng.random() < 0.5:
                t0.append({"a": "set", "var": ns.upper() + "_VER", "own": False, "val": "%V"})
            import copy as _copy
            for d in mine_:
                d["table"] = _copy.deepcopy(t0)
                d["shared"] = "site/%s.table" % ns
            g["shared_table"] = ns
    if generic:
        # a product declared -f generic (found through the fallback flavors; its SETUP_ record says -f generic).  Only in
        # the aimed stream gen_generic_keep_case: the flavor fallback loop of Eups.setup is not modelled (see there)
        cand = [n for n in names if n != g.get("shared_table")]
        ng = rng.choice(cand)
        for d in decls:
            if d["name"] == ng:
                d["flavor"] = "generic"
        g["generic"] = ng
    if rich and rng.random() < 0.2:
        # a bystander whose name is <requested product>_<suffix> (pex / pex_policy): SETUP_PEX vs SETUP_PEX_POLICY; it
        # shares version names with the product it is named after; nothing depends on it and it depends on nothing
        n0 = rng.choice(names)
        pn = n0 + rng.choice(["_policy", "_p", "_config"])
        vs0 = [d["ver"] for d in decls if d["name"] == n0]
        for v in sorted(set([rng.choice(vs0)] + ([rng.choice(pool)] if rng.random() < 0.5 else []))):
            decls.append({"name": pn, "ver": v, "sub": "Linux/%s/%s" % (pn, v), "table": gen_contribs(rng, pn, pathvars, rich)})
        cur[pn] = rng.choice([d["ver"] for d in decls if d["name"] == pn])
        g["names"] = names + [pn]
        g["prefix_pair"] = [n0, pn]
    if rich and rng.random() < 0.15:
        # a product whose name starts with eups_ (EUPS_EXTRAS_DIR, SETUP_EUPS_EXTRAS) and a table that envSets EUPS_FOO:
        # not among the four protected variables (EUPS_DIR/PATH/PKGROOT/SHELL) — unsetup must unset them through the
        # emitted commands.  Some product may depend on it.
        en = rng.choice(["eups_extras", "eups_x"])
        vs_e = sorted(set(rng.sample(pool, rng.randint(1, 2))))
        for v in vs_e:
            t = gen_contribs(rng, en, pathvars, rich) + [{"a": "set", "var": "EUPS_FOO", "own": rng.random() < 0.5, "val": "/foo"}]
            decls.append({"name": en, "ver": v, "sub": "Linux/%s/%s" % (en, v), "table": t})
        cur[en] = rng.choice(vs_e)
        if rng.random() < 0.5:
            host = rng.choice([d for d in decls if d["name"] in names and not d.get("shared")] or [decls[0]])
            host["table"].append({"a": "dep", "name": en, "opt": rng.random() < 0.3, "just": False, "spec": {"kind": "bare"}, "tags": []})
        g["names"] = g["names"] + [en]
        g["eups_named"] = en
    if rich and rng.random() < 0.15:
        # a VERSION NAMED LIKE A RECOGNISED TAG (beta / current) while the same-named tag points at another version:
        # findSetupVersion must take the SETUP_ record's word for a declared version and not resolve the tag.  A product of
        # its own (named versions have no place in the numeric order of the relational specs), requested bare / explicitly
        tn = "tn"
        tagname = rng.choice(["beta", "current"])
        other = rng.choice(pool)
        for v in (tagname, other):
            decls.append({"name": tn, "ver": v, "sub": "Linux/%s/%s" % (tn, v), "table": gen_contribs(rng, tn, pathvars, rich)})
        g["tags"][tagname][tn] = other
        if tagname != "current":
            cur[tn] = rng.choice([tagname, other])
        if rng.random() < 0.4:
            host = rng.choice([d for d in decls if d["name"] in names and not d.get("shared")] or [decls[0]])
            host["table"].append({"a": "dep", "name": tn, "opt": False, "just": False,
                                  "spec": rng.choice([{"kind": "bare"}, {"kind": "explicit", "v": other}, {"kind": "explicit", "v": tagname}]), "tags": []})
        g["names"] = g["names"] + [tn]
        g["tag_named"] = [tn, tagname, other]
    if rich and rng.random() < 0.08:
        # a "meta" product: every version declared without a directory (PROD_DIR = none); its tables hold literals only
        n0 = rng.choice([n for n in names if n not in (g.get("shared_table"), g.get("generic"))] or names)
        for d in decls:
            if d["name"] == n0:
                d["sub"] = None
                lit = lambda a: dict(a, own=False, val="/meta/%s/%s%s" % (n0, d["ver"], a["val"].replace("%D", "").replace("%V", "").replace(":", "")), more=[]) if a.get("a") in ("prepend", "set") else a
                d["table"] = [(dict(seg, **{"if": [lit(x) for x in seg["if"]], "else": [lit(x) for x in seg["else"]]}) if "if" in seg else lit(seg))
                              for seg in d["table"]]
    if rich and rng.random() < 0.3:
        add_second_stack(rng, g)
    return g


def add_second_stack(rng, g):
    """A second stack ("mine"): the user's own builds of some (name, version) pairs that the first stack declares too —
    same name and version, another directory, a slightly different table — plus the odd version of its own; its own
    `current` tags.  Requests then run with EUPS_PATH = one stack, or both in either order."""
    import copy
    g["nstacks"] = 2
    cur1 = {}
    mine = []
    for d in list(g["decls"]):
        if d["name"] == g.get("generic"):
            continue        # the flavor fallback loop is not modelled: a generic-flavored product lives in one stack only
        if rng.random() < 0.4:
            t = copy.deepcopy(d["table"])
            t.append({"a": "prepend", "var": "PATH", "own": True, "val": "/mine", "append": rng.random() < 0.5})
            if rng.random() < 0.3:                      # the private build lost one of its lines
                t = [x for x in t if not ("a" in x and x["a"] == "set")]
            mine.append({"name": d["name"], "ver": d["ver"], "stack": 1, "sub": "Linux/%s/%s" % (d["name"], d["ver"]), "table": t})
    for n in g["names"]:
        if n != g.get("generic") and rng.random() < 0.2:
            v = rng.choice([x for x in ["4", "4.1", "5"]])
            mine.append({"name": n, "ver": v, "stack": 1, "sub": "Linux/%s/%s" % (n, v),
                         "table": [{"a": "prepend", "var": "PATH", "own": True, "val": "/bin", "append": False}]})
    for d in mine:
        if d["name"] == g.get("generic"):
            d["flavor"] = "generic"          # a product is declared under one flavor wherever it is declared
        if rng.random() < 0.4:
            cur1[d["name"]] = d["ver"]
    g["decls"] += mine
    g["tags1"] = {"current": cur1, "beta": {}}
    return g


def gen_request(rng, g, op=None, plain=False):
    names = g["names"]
    name = rng.choice(names) if rng.random() > 0.03 or plain else "zz"
    vs = [d["ver"] for d in g["decls"] if d["name"] == name]
    r = rng.random()
    if r < 0.55 or not vs:
        ver = None
    elif r < 0.85:
        ver = {"v": rng.choice(vs)}
    elif r < 0.9:
        ver = {"v": "9"}
    else:
        ver = {"e": [[rng.choice(RELOPS), rng.choice(g["pool"])]]}
    req = {"op": op or ("unsetup" if rng.random() < 0.12 else "setup"), "name": name, "ver": ver,
           "keep": (not plain) and rng.random() < 0.28,
           "max_depth": -1 if plain else rng.choice([-1, -1, -1, 0, 1, 2]),
           "tags": ["beta"] if (not plain and rng.random() < 0.12) else []}
    beta = g["tags"].get("beta", {})
    if req["tags"] and beta and rng.random() < 0.6:
        # the version acceptance loop: a tag placed before `version` in the VRO answers with one version,
        # the command line names another one
        req["name"] = rng.choice(sorted(beta))
        vs = [d["ver"] for d in g["decls"] if d["name"] == req["name"]]
        req["ver"] = {"v": rng.choice(vs)}
    if req["tags"] and rng.random() < 0.25:
        req["tags"] = rng.choice([["beta", "current"], ["current", "beta"], ["current"]])
    req["path"] = [0] if g.get("nstacks", 1) == 1 else rng.choice([[0], [0], [1, 0], [1, 0], [0, 1], [1]])
    # the entry point: eups.app.setup called directly, or the command line of `eups_setup` (setupcmd.EupsSetup:
    # option parsing, -j / -S / -k / -t / -E / -u / -Z glue, the printed command text)
    if g.get("tag_named") and req["name"] == g["tag_named"][0] and req["ver"] is not None and "e" in req["ver"]:
        req["ver"] = None         # named versions are requested bare or explicitly (the order of names is C10's)
    if req["name"] == g.get("generic"):
        req["keep"] = False       # (see add_second_stack) the already-set-up fallback of the first flavor round is not modelled
    req["cli"] = rng.random() < 0.3
    req["types"] = []                               # --type (set per history by gen_case)
    req["just_flag"] = rng.random() < 0.5          # max_depth 0 is written -j (else -S 0)
    if req["op"] == "unsetup":
        # `unsetup p v`: the version is only compared with the set-up one (a warning)
        req["ver"] = {"v": rng.choice(vs)} if vs and rng.random() < 0.2 else None
        req["tags"] = []
    return req


def gen_prior(rng, g, mode=None):
    """Prior environment as raw strings (`$S` = stack root).  Returns (env, mode)."""
    mode = mode or rng.choice(["clean", "clean", "dups", "empties", "libp_set", "preset", "contained", "delim", "stale"])
    env = {"PATH": BASE_PATH}
    d = rng.choice(g["decls"])
    if mode == "dups":
        env["PATH"] = "/usr/bin:/bin:/usr/bin"
        env["LIBP"] = "/l1:/l1"
    elif mode == "empties":
        env["PATH"] = "/usr/bin::/bin:"
        env["LIBP"] = ":/l1"
    elif mode == "libp_set":
        env["LIBP"] = "/opt/lib"
    elif mode == "preset":
        env[d["name"].upper() + "_X"] = "old value"
    elif mode == "contained" and d["sub"] is not None:
        env["PATH"] = "/usr/bin:%s/%s/bin:/bin" % (ROOTS[d.get("stack", 0)], d["sub"])
    elif mode == "stale":
        # a record eups wrote for a version that has been undeclared since (findSetupProduct finds nothing)
        n = d["name"]
        env["SETUP_" + n.upper()] = "%s 7 -f Linux -Z $SZ" % n
        env[n.upper() + "_DIR"] = "$S/Linux/%s/7" % n
        env["PATH"] = "$S/Linux/%s/7/bin:%s" % (n, BASE_PATH)
    elif mode == "delim" and "XP" in g["pathvars"]:
        dl = g["pathvars"]["XP"]
        env["XP"] = dl.join(["/q", "/r", "/q"])
    return env, mode


def small_graphs():
    """Every graph over names a, b, c x versions 1, 2 (current = 1) in which each of the six possible dependency
    lines a1->b, a1->c, a2->b, a2->c, b1->c, b2->c is one of: absent, required bare, required `2`, optional `-j 1`
    (4^6 = 4096 graphs), each with one fixed history that switches versions, uses keep, max-depth and unsetup."""
    import itertools
    choices = [None,
               {"opt": False, "just": False, "spec": {"kind": "bare"}},
               {"opt": False, "just": False, "spec": {"kind": "explicit", "v": "2"}},
               {"opt": True, "just": True, "spec": {"kind": "explicit", "v": "1"}}]
    lines = [("a", "1", "b"), ("a", "1", "c"), ("a", "2", "b"), ("a", "2", "c"), ("b", "1", "c"), ("b", "2", "c")]
    hist = [{"op": "setup", "name": "a", "ver": None, "keep": False, "max_depth": -1, "tags": [], "inexact": False},
            {"op": "setup", "name": "a", "ver": {"v": "2"}, "keep": False, "max_depth": 1, "tags": [], "inexact": False},
            {"op": "setup", "name": "b", "ver": {"v": "2"}, "keep": True, "max_depth": -1, "tags": [], "inexact": False},
            {"op": "unsetup", "name": "a", "ver": None, "keep": False, "max_depth": -1, "tags": [], "inexact": False}]
    for combo in itertools.product(range(4), repeat=6):
        tables = {(n, v): [{"a": "prepend", "var": "PATH", "own": True, "val": "/bin", "append": False}]
                  for n in "abc" for v in "12"}
        for (n, v, m), c in zip(lines, combo):
            if choices[c] is not None:
                tables[(n, v)].append(dict(choices[c], a="dep", name=m))
        g = {"names": ["a", "b", "c"], "pool": ["1", "2"], "pathvars": {"PATH": ":", "LIBP": ":"}, "space_root": False,
             "decls": [{"name": n, "ver": v, "sub": "Linux/%s/%s" % (n, v), "table": t} for (n, v), t in sorted(tables.items())],
             "tags": {"current": {"a": "1", "b": "1", "c": "1"}, "beta": {}}, "cyc": False}
        yield {"graph": g, "prior": {"PATH": BASE_PATH}, "prior_mode": "exhaustive", "history": [dict(h) for h in hist]}


def aim_new_classes(rng, g, hist, plain=False):
    """Aim a history at the input classes added in round 3 (each only when the graph has the feature)."""
    base = dict(hist[0])
    mk = lambda name, ver=None, **kw: dict(base, op="setup", name=name, ver=ver, keep=False, max_depth=-1, tags=[], **kw)
    if g.get("prefix_pair") and rng.random() < 0.6:
        # the bystander <p>_<suffix> is set up first, then <p> (not set up yet) is requested
        n0, pn = g["prefix_pair"]
        v0 = rng.choice([d["ver"] for d in g["decls"] if d["name"] == pn and d.get("stack", 0) == 0])
        second = dict(hist[0], name=n0, op="setup")
        if rng.random() < 0.5:
            second["ver"] = {"v": v0} if any(d["name"] == n0 and d["ver"] == v0 for d in g["decls"]) else None
        hist[:1] = [mk(pn, {"v": v0}), second]
    if g.get("tag_named") and rng.random() < 0.7:
        # the tag-named version is set up, then replaced by the version the tag points at (and back)
        tn, tagname, other = g["tag_named"]
        hist[:0] = [mk(tn, {"v": tagname}), mk(tn, {"v": other})] + ([mk(tn, {"v": tagname})] if rng.random() < 0.3 else [])
    if g.get("eups_named") and rng.random() < 0.5:
        en = g["eups_named"]
        hist[:0] = [mk(en), dict(mk(en), op="unsetup")]
    if g.get("shared_table") and rng.random() < 0.6:
        # switch between two versions of the product whose versions share one table file
        ns = g["shared_table"]
        vs = [d["ver"] for d in g["decls"] if d["name"] == ns and d.get("stack", 0) == 0]
        a, b = rng.sample(vs, 2)
        hist[:0] = [mk(ns, {"v": a}), mk(ns, {"v": b})]


def gen_generic_keep_case(rng):
    """C04 class "keep with a set-up product of a non-session flavor": a product declared -f generic (found through the
    fallback flavors, SETUP_ record `-f generic`) is set up by an explicit request; every later request carries --keep and
    names another product (preferably one whose table asks for the generic product, in whatever version).  The generic
    product is therefore only ever resolved again through the `keep` entry at the head of the VRO — the one place where the
    flavor fallback loop of Eups.setup (round 1 over Linux declarations with its already-set-up fallback, round 2 over
    generic ones), which the model does not have, cannot make a difference."""
    g = gen_graph(rng, cyc=False, generic=True)
    if g.get("nstacks", 1) > 1:
        g["decls"] = [d for d in g["decls"] if d.get("stack", 0) == 0]
        g["nstacks"] = 1
        g.pop("tags1", None)
    ng = g["generic"]
    vs = [d["ver"] for d in g["decls"] if d["name"] == ng]
    users = sorted({d["name"] for d in g["decls"] if d["name"] != ng and
                    any(a.get("a") == "dep" and a["name"] == ng for _, a in flat_table(d["table"]))})
    inexact = rng.random() < 0.2
    def mk(name, ver, keep):
        r = gen_request(rng, g, op="setup", plain=True)
        r.update(name=name, ver=ver, keep=keep, inexact=inexact, path=[0])
        return r
    hist = [mk(ng, {"v": rng.choice(vs)}, False)]
    others = [n for n in g["names"] if n != ng]
    for _ in range(rng.randint(1, 3)):
        n = rng.choice(users) if users and rng.random() < 0.7 else rng.choice(others)
        r = mk(n, None, True)
        if rng.random() < 0.3:
            r["max_depth"] = rng.choice([1, 2])
        hist.append(r)
    return {"graph": g, "prior": {"PATH": BASE_PATH}, "prior_mode": "clean", "history": hist}


def gen_case(rng, cyc=None, nreq=None, plain=False):
    if cyc is None:
        cyc = rng.random() < 0.1
    g = gen_graph(rng, cyc=cyc)
    prior, mode = gen_prior(rng, g, mode="clean" if rng.random() < 0.6 else None)
    inexact = rng.random() < 0.2
    hist = []
    n = nreq or rng.randint(1, 5)
    flip = rng.randint(1, n - 1) if (n > 1 and not plain and rng.random() < 0.12) else None   # mixed setup types (D34)
    types = ["build"] if rng.random() < 0.2 else []           # setup --type build, for the whole history …
    tflip = rng.randint(1, n - 1) if (n > 1 and not plain and rng.random() < 0.06) else None   # … or changing midway (D34)
    for k in range(n):
        r = gen_request(rng, g, plain=plain)
        r["inexact"] = inexact if (flip is None or k < flip) else not inexact
        r["types"] = list(types) if (tflip is None or k < tflip) else ([] if types else ["build"])
        hist.append(r)
    aim_new_classes(rng, g, hist, plain)
    return {"graph": g, "prior": prior, "prior_mode": mode, "history": hist}


# ================================================================================================
# graph helpers (used by the installer, the model-request builder and the oracles)
# ================================================================================================

def pvals(a):
    """[(own?, text)] — the pieces of the value of an envPrepend / envAppend action, in order"""
    return [(a["own"], a["val"])] + [(m["own"], m["val"]) for m in a.get("more", [])]


def flat_table(table):
    """[(guard, act)] in table order"""
    out = []
    for seg in table:
        if "if" in seg and seg.get("cond"):
            out += [("type:" + seg["cond"], a) for a in seg["if"]]
            out += [("ntype:" + seg["cond"], a) for a in seg["else"]]
        elif "if" in seg:
            out += [("exact", a) for a in seg["if"]]
            out += [("inexact", a) for a in seg["else"]]
        else:
            out.append(("always", seg))
    return out


class Mode(int):
    """The setup type(s) a request runs under, as the oracles pass it around: truth value = "exact" in the setup type
    (the historical boolean), .types = the --type list."""
    def __new__(cls, exact, types=()):
        o = int.__new__(cls, 1 if exact else 0)
        o.types = tuple(types)
        return o


def mode_of(req):
    return Mode(not req["inexact"], req.get("types") or ())


def guard_holds(gd, mode):
    if gd == "always":
        return True
    if gd == "exact":
        return bool(mode)
    if gd == "inexact":
        return not mode
    types = getattr(mode, "types", ())
    if gd.startswith("type:"):
        return gd[5:] in types
    if gd.startswith("ntype:"):
        return gd[6:] not in types
    raise ValueError(gd)


def spec_text(sp):
    def ex(e):
        return " || ".join("%s %s" % (op, v) for op, v in e)
    k = sp["kind"]
    if k == "bare":
        return ""
    if k == "explicit":
        return sp["v"]
    if k == "expr":
        return ex(sp["e"])
    if k == "vexpr":
        return "%s [%s]" % (sp["v"], ex(sp["e"]))
    if k == "bracket":
        return "[%s]" % ex(sp["e"])
    raise ValueError(k)


def spell(text, name):
    """Table spelling of the placeholders in a value: %D = the product's own directory written ${<NAME>_DIR} (not
    ${PRODUCT_DIR}), %V = ${PRODUCT_VERSION}."""
    return text.replace("%D", "${%s_DIR}" % (name or "PRODUCT").upper()).replace("%V", "${PRODUCT_VERSION}")


def act_text(a, pathvars, name=None):
    if a["a"] == "prepend":
        dl = pathvars.get(a["var"], ":")
        val = spell(dl.join(("${PRODUCT_DIR}" if o else "") + v for o, v in pvals(a)), name)
        if "," in val or " " in val:
            val = '"%s"' % val
        third = "" if dl == ":" else ', "%s"' % dl
        return "%s(%s, %s%s)" % ("envAppend" if a["append"] else "envPrepend", a["var"], val, third)
    if a["a"] == "set":
        return "envSet(%s, %s)" % (a["var"], spell(("${PRODUCT_DIR}" if a["own"] else "") + a["val"], name))
    if a["a"] == "alias":
        return "addAlias(%s, %s)" % (a["key"], a["val"])
    if a["a"] == "dep":
        bits = (["-k"] if a.get("keep") else []) + [a["name"]] + (["-j"] if a["just"] else []) + \
            [x for t in a.get("tags", []) for x in ("-t", t)] + \
            ([spec_text(a["spec"])] if spec_text(a["spec"]) else [])
        return "%s(%s)" % ("setupOptional" if a["opt"] else "setupRequired", " ".join(bits))
    raise ValueError(a)


def table_text(table, pathvars, name=None):
    out = []
    for seg in table:
        if "if" in seg:
            out.append("if (type == %s) {" % seg.get("cond", "exact"))
            out += ["   " + act_text(a, pathvars, name) for a in seg["if"]]
            out.append("} else {")
            out += ["   " + act_text(a, pathvars, name) for a in seg["else"]]
            out.append("}")
        else:
            out.append(act_text(seg, pathvars, name))
    return "\n".join(out) + "\n"


ROOTS = ["$S", "$T"]            # placeholders of the stack roots (stack 0, stack 1)


def vk(v, k=0):
    """Key of a declared version inside the harness: the version name, suffixed `@k` for a stack other than 0
    (two stacks may declare the same name and version, with different directories and tables)."""
    return v if not k else "%s@%d" % (v, k)


def unvk(key):
    if "@" in key:
        v, k = key.rsplit("@", 1)
        return v, int(k)
    return key, 0


def stack_tags(g, k):
    return g["tags"] if k == 0 else g.get("tags%d" % k, {})


class G:
    """Index over a generated graph.  Declared versions are keyed (name, vk(version, stack))."""

    def __init__(self, g):
        self.g = g
        self.pathvars = g["pathvars"]
        self.nstacks = g.get("nstacks", 1)
        self.decl = {(d["name"], vk(d["ver"], d.get("stack", 0))): d for d in g["decls"]}
        self.flat = {k: flat_table(d["table"]) for k, d in self.decl.items()}
        self.names = sorted({d["name"] for d in g["decls"]})
        self.flavors = {d["name"]: d["flavor"] for d in g["decls"] if d.get("flavor")}
        self.setvars = sorted({a["var"] for fl in self.flat.values() for _, a in fl if a["a"] == "set"})
        self.edges = {}                          # name -> set of names (any version, any guard)
        for (n, v), fl in self.flat.items():
            self.edges.setdefault(n, set()).update(a["name"] for _, a in fl if a["a"] == "dep")

    def dir(self, n, v):
        d = self.decl[(n, v)]
        if d["sub"] is None:
            return "none"               # declared without a directory (PROD_DIR = none)
        return ROOTS[d.get("stack", 0)] + "/" + d["sub"]

    def versions(self, n):
        return [v for (m, v) in self.decl if m == n]

    def versions_on(self, n, path):
        """keys of the versions of n declared in the stacks of the path, in path order"""
        return [v for k in path for (m, v) in self.decl if m == n and unvk(v)[1] == k]

    def find_ver(self, n, vname, path):
        """the first stack on the path declaring (n, vname)"""
        for k in path:
            if (n, vk(vname, k)) in self.decl:
                return vk(vname, k)
        return None

    def tagged(self, t, n, path):
        """the first stack on the path whose tag t names a version of n that is declared there"""
        for k in path:
            v = stack_tags(self.g, k).get(t, {}).get(n)
            if v is not None and (n, vk(v, k)) in self.decl:
                return vk(v, k)
        return None

    def owner(self, s):
        for (n, v), d in self.decl.items():
            if d["sub"] is None:
                continue
            dd = ROOTS[d.get("stack", 0)] + "/" + d["sub"]
            if s == dd or s.startswith(dd + "/"):
                return (n, v)
        return None

    def acts(self, n, v, exact):
        return [a for gd, a in self.flat[(n, v)] if guard_holds(gd, exact)]

    def reach(self, start_names):
        """names reachable from the given names through the tables of *any* version (over-approximation)"""
        seen, todo = set(), list(start_names)
        while todo:
            n = todo.pop()
            if n in seen:
                continue
            seen.add(n)
            todo += list(self.edges.get(n, ()))
        return seen

    def reach_from(self, n, v):
        """names reachable from the dependencies of one declared version"""
        if (n, v) not in self.flat:
            return set()
        return self.reach([a["name"] for _, a in self.flat[(n, v)] if a["a"] == "dep"])

    def dist(self, start):
        d, fr = {start: 0}, [start]
        while fr:
            nx = []
            for n in fr:
                for m in self.edges.get(n, ()):
                    if m not in d:
                        d[m] = d[n] + 1
                        nx.append(m)
            fr = nx
        return d

    def cyclic_names(self):
        return {n for n in self.names if any(n in self.reach([m]) for m in self.edges.get(n, ()))}

    def expand(self, n, v, text):
        """the placeholders of a value, expanded for one declared version: %D its directory, %V its version name"""
        return text.replace("%D", self.dir(n, v)).replace("%V", unvk(v)[0])

    def value(self, n, v, a):
        return self.expand(n, v, (self.dir(n, v) if a["own"] else "") + a["val"])

    def values(self, n, v, a):
        """[(own?, string)] for every piece of a path action's value (a piece whose text itself holds the variable's
        delimiter — `:${X_DIR}/man` — is split, empty pieces dropped)"""
        dl = self.pathvars.get(a["var"], ":")
        out = []
        for o, t in pvals(a):
            x = self.expand(n, v, (self.dir(n, v) if o else "") + t)
            if "%" in t and not o:
                dd = self.dir(n, v)
                out += [((dd != "none" and (y == dd or y.startswith(dd + "/"))), y) for y in x.split(dl) if y]
            else:
                out.append((o, x))
        return out


# ================================================================================================
# implementation side
# ================================================================================================

VERSION_FILE = """FILE = version
PRODUCT = %(n)s
VERSION = %(v)s
Group:
   FLAVOR = Linux
   QUALIFIERS = ""
   PROD_DIR = %(sub)s
   UPS_DIR = ups
   TABLE_FILE = %(n)s.table
End:
"""
CHAIN_FILE = """FILE = version
PRODUCT = %(n)s
CHAIN = %(t)s
#Group:
   FLAVOR = Linux
   VERSION = %(v)s
   QUALIFIERS = ""
#End:
"""
STARTUP = """# written by the verification harness (lib_setup)
hooks.config.Eups.defaultProduct["name"] = ""
hooks.config.Eups.globalTags += ["beta"]
"""


def install(g, root):
    """Write the stacks for a graph under root; returns ([stack roots], userdata dir)."""
    Ss = [os.path.join(root, "the stack" if g.get("space_root") else "stack0")]
    for k in range(1, g.get("nstacks", 1)):
        Ss.append(os.path.join(root, ("my other stack%d" if g.get("space_root") else "mine%d") % k))
    for S in Ss:
        os.makedirs(os.path.join(S, "ups_db"))
    ud = os.path.join(root, "userdata")
    os.makedirs(ud)
    with open(os.path.join(ud, "startup.py"), "w") as f:
        f.write(STARTUP)
    for d in g["decls"]:
        S = Ss[d.get("stack", 0)]
        os.makedirs(os.path.join(S, "ups_db", d["name"]), exist_ok=True)
        if d["sub"] is None:            # no directory: PROD_DIR = none, the table lives beside the database
            os.makedirs(os.path.join(S, "tables"), exist_ok=True)
            tf = os.path.join(S, "tables", "%s-%s.table" % (d["name"], d["ver"]))
            with open(tf, "w") as f:
                f.write(table_text(d["table"], g["pathvars"], d["name"]))
            with open(os.path.join(S, "ups_db", d["name"], d["ver"] + ".version"), "w") as f:
                f.write((VERSION_FILE % {"n": d["name"], "v": d["ver"], "sub": "none"}).replace(
                    "TABLE_FILE = %s.table" % d["name"], "TABLE_FILE = %s" % tf))
            continue
        pd = os.path.join(S, d["sub"])
        os.makedirs(os.path.join(pd, "ups"), exist_ok=True)
        vf = VERSION_FILE % {"n": d["name"], "v": d["ver"], "sub": d["sub"]}
        if d.get("flavor"):             # declared -f generic: found through the fallback flavors
            vf = vf.replace("FLAVOR = Linux", "FLAVOR = " + d["flavor"])
        if d.get("shared"):
            # ONE table file for every version of the product (declare -m /site/<name>.table): written once
            tf = os.path.join(S, d["shared"])
            os.makedirs(os.path.dirname(tf), exist_ok=True)
            if not os.path.exists(tf):
                with open(tf, "w") as f:
                    f.write(table_text(d["table"], g["pathvars"], d["name"]))
            vf = vf.replace("TABLE_FILE = %s.table" % d["name"], "TABLE_FILE = %s" % tf)
        else:
            with open(os.path.join(pd, "ups", d["name"] + ".table"), "w") as f:
                f.write(table_text(d["table"], g["pathvars"], d["name"]))
        with open(os.path.join(S, "ups_db", d["name"], d["ver"] + ".version"), "w") as f:
            f.write(vf)
    flav = {d["name"]: d["flavor"] for d in g["decls"] if d.get("flavor")}
    for k, S in enumerate(Ss):
        for t, m in stack_tags(g, k).items():
            for n, v in m.items():
                os.makedirs(os.path.join(S, "ups_db", n), exist_ok=True)
                with open(os.path.join(S, "ups_db", n, t + ".chain"), "w") as f:
                    f.write((CHAIN_FILE % {"n": n, "v": v, "t": t}).replace("FLAVOR = Linux", "FLAVOR = " + flav.get(n, "Linux")))
    return Ss, ud


def ver_text(ver):
    if ver is None:
        return None
    if "v" in ver:
        return ver["v"]
    return " || ".join("%s %s" % (op, v) for op, v in ver["e"])


class _TooDeep(BaseException):
    """Raised by the nesting counter once Eups.setup nests deeper than FUEL (the model is out of fuel there): the
    request is compared on that fact only, so it is cut short instead of being left to hit the interpreter's
    recursion limit over and over (each RecursionError is swallowed as a failed dependency; on graphs with many
    optional lines that takes minutes).  Not an Exception, so `except Exception` in table.py lets it through."""


def req_path(req):
    return list(req.get("path") or [0])


def _do_request(Ss, ud, env, req):
    """Runs in a forked child: one command."""
    for k in list(os.environ):
        del os.environ[k]
    os.environ.update(env)
    os.environ.update({"EUPS_PATH": ":".join(Ss[k] for k in req_path(req)), "EUPS_USERDATA": ud, "EUPS_SHELL": "sh", "EUPS_FLAVOR": "Linux",
                       "HOME": ud, "USER": "verif"})
    M = common.eups_mod("Eups")
    app = common.eups_mod("app")
    U = common.eups_mod("utils")
    U.stderr = U.stdwarn = U.stdinfo = U.stdok = io.StringIO()      # chatter is not an observable
    nest = [0, 0]
    orig = M.Eups.setup

    def counted(self, *a, **k):
        nest[0] += 1
        nest[1] = max(nest[1], nest[0])
        try:
            if nest[0] > FUEL:
                raise _TooDeep()
            return orig(self, *a, **k)
        finally:
            nest[0] -= 1
    M.Eups.setup = counted
    out = {"exc": None}
    if req.get("cli"):
        return _do_cli(M, U, Ss, req, out, nest)
    with contextlib.redirect_stderr(io.StringIO()), contextlib.redirect_stdout(io.StringIO()):
        E = M.Eups(readCache=False, quiet=1, keep=req["keep"], max_depth=req["max_depth"],
                   setupType=" ".join(req.get("types") or []))
        vname = ver_text(req["ver"])
        tags = list(req["tags"]) or None
        E.selectVRO(tag=tags, versionName=vname, inexact_version=req["inexact"])
        out["vro"] = list(E.getPreferredTags())
        try:
            cmds = app.setup(req["name"], vname, prefTags=tags, eupsenv=E, fwd=(req["op"] == "setup"))
            out["outcome"] = "notfound" if "false" in cmds else "ok"
            out["cmds"] = cmds
        except _TooDeep:
            out["outcome"] = "deep"
            out["cmds"] = None
        except Exception as e:  # noqa
            out["outcome"] = "raised"
            out["exc"] = type(e).__name__
            out["cmds"] = None
    out["env"] = dict(os.environ)
    out["aliases"] = dict(E.aliases)
    out["unaliased"] = sorted(k for k in E.oldAliases if k not in E.aliases)
    out["nest"] = nest[1]
    return out


def cli_args(Ss, req):
    """The argument vector of `eups_setup` for a request (what the shell function `setup` / `unsetup` passes on)."""
    args = ["-q"]
    if req["op"] == "unsetup":
        args.append("-u")
    if req["keep"]:
        args.append("-k")
    if req["max_depth"] == 0 and req.get("just_flag", True):
        args.append("-j")                                   # --just is --max-depth 0
    elif req["max_depth"] >= 0:
        args += ["-S", str(req["max_depth"])]
    for t in req["tags"]:
        args += ["-t", t]
    if req["inexact"]:
        args.append("-E")
    if req.get("types"):
        args += ["--type", " ".join(req["types"])]
    args += ["-Z", ":".join(Ss[k] for k in req_path(req))]
    args.append(req["name"])
    v = ver_text(req["ver"])
    if v is not None:
        args.append(v)
    return args


def _do_cli(M, U, Ss, req, out, nest):
    """One command through setupcmd.EupsSetup(args).run(): the text it prints is what the shell evaluates."""
    SC = common.eups_mod("setupcmd")
    seen = {}
    orig_select = M.Eups.selectVRO

    def select(self, *a, **k):
        r = orig_select(self, *a, **k)
        seen["E"] = self
        seen["vro"] = list(self.getPreferredTags())
        return r
    M.Eups.selectVRO = select
    buf = io.StringIO()
    with contextlib.redirect_stderr(io.StringIO()), contextlib.redirect_stdout(buf):
        try:
            status = SC.EupsSetup(cli_args(Ss, req), "eups_setup").run()
            text = buf.getvalue()
            cmds = text[:-1].split(";\n") if text.endswith("\n") and text != "\n" else ([] if text == "\n" else ["?" + text])
            out["status"] = status
            out["outcome"] = "notfound" if "false" in cmds else "ok"
            out["cmds"] = cmds
        except _TooDeep:
            out["outcome"] = "deep"
            out["cmds"] = None
        except Exception as e:  # noqa
            out["outcome"] = "raised"
            out["exc"] = type(e).__name__
            out["cmds"] = None
    E = seen.get("E")
    out["vro"] = seen.get("vro", [])
    out["env"] = dict(os.environ)
    out["aliases"] = dict(E.aliases) if E is not None else {}
    out["unaliased"] = sorted(k for k in E.oldAliases if k not in E.aliases) if E is not None else []
    out["nest"] = nest[1]
    return out


def apply_cmds(env, cmds):
    """What a POSIX shell holds after sourcing the command list (values as the emitter quotes them):
    `export K=V`, `unset K` (variable), `unset -f F` (function), `F() { … ; }`.
    Returns (env, functions defined, functions unset)."""
    env = dict(env)
    defs, undefs = {}, []
    for c in cmds:
        if c.startswith("export "):
            k, v = c[len("export "):].split("=", 1)
            if len(v) >= 2 and v[0] == "'" and v[-1] == "'":
                v = v[1:-1]
            env[k] = v
        elif c.startswith("unset -f "):
            undefs.append(c[len("unset -f "):])          # a shell function (alias) is removed; variables are untouched
        elif c.startswith("unset "):
            env.pop(c[len("unset "):], None)             # a variable is removed (no effect on functions)
        elif "() {" in c:
            k = c.split("()", 1)[0]
            defs[k] = c
        else:
            undefs.append("?" + c)           # not a command the emitter is known to produce
    return env, defs, undefs


def run_history(case):
    """Install the case's graph in a scratch stack and run its history, one forked child per request.
    Returns the list of raw per-request results with `$S` substituted (see canon_result)."""
    root = common.scratch("setup")
    try:
        Ss, ud = install(case["graph"], root)
        S = Ss
        def subst(v):
            v = v.replace("$SZ", Ss[0].replace(" ", "-+-")).replace("$S", Ss[0])
            return v.replace("$T", Ss[1]) if len(Ss) > 1 else v
        env = {k: subst(v) for k, v in case["prior"].items()}
        outs = []
        for req in case["history"]:
            r = common.in_child(_do_request, Ss, ud, env, req, _timeout=60)
            if r[0] != "ok":
                with open(os.path.join(common.WORK, "failed-request-%s.json" % common.digest(case_input(case))), "w") as f:
                    json.dump({"case": case_input(case), "step": len(outs), "result": repr(r[:3])}, f)
                outs.append({"outcome": "harness:" + str(r[:3])})
                break
            if r[1]["outcome"] == "deep":
                outs.append({"before": strip(env, S), "outcome": "deep", "exc": None, "vro": r[1]["vro"], "nest": r[1]["nest"],
                             "after": {}, "aliases": {}, "unaliased": [], "cmds": None})
                break                    # the environment after such a request is not looked at: the history ends here
            r = r[1]
            res = {"before": strip(env, S), "outcome": r["outcome"], "exc": r["exc"], "vro": r["vro"], "nest": r["nest"],
                   "after": strip(r["env"], S), "aliases": r["aliases"], "unaliased": r["unaliased"],
                   "cmds": [strip_text(c, S) for c in r["cmds"]] if r["cmds"] is not None else None,
                   "cmds_raw": r["cmds"], "roots": list(Ss)}
            if r["outcome"] == "ok":
                shell, defs, undefs = apply_cmds(env, r["cmds"])
                res["shell"] = strip(shell, S)
                res["shell_defs"] = sorted(defs)
                res["shell_undefs"] = sorted(undefs)
                env = shell
            outs.append(res)
        return outs
    finally:
        common.rmtree(root)


INFRA_KEYS = ("EUPS_PATH", "EUPS_USERDATA", "EUPS_SHELL", "EUPS_FLAVOR", "HOME", "USER", "EUPS_VERIF", "EUPS_DIR")


def strip_text(v, Ss):
    for k in reversed(range(len(Ss))):          # longer / later roots first
        v = v.replace(Ss[k], ROOTS[k]).replace(Ss[k].replace(" ", "-+-"), ROOTS[k])
    return v


def strip(env, Ss):
    return {k: strip_text(v, Ss) for k, v in env.items() if k not in INFRA_KEYS}


# ================================================================================================
# canonical form shared by the implementation's output and the model's input/output
# ================================================================================================

def elems(s, delim):
    return [x for x in (s or "").split(delim) if x]


def uniq(l):
    out = []
    for x in l:
        if x not in out:
            out.append(x)
    return out


def canon_env(G_, env):
    """{'recs': {name: version | raw}, 'dirs': {name: str}, 'paths': {var: [elements]}, 'vars': {var: str}}"""
    recs, dirs, paths, vars_ = {}, {}, {}, {}
    for k, v in env.items():
        if k.startswith("SETUP_"):
            f = v.split()
            if len(f) == 6 and f[2:4] == ["-f", G_.flavors.get(f[0], "Linux")] and f[4] == "-Z" and f[5] in ROOTS \
                    and k == "SETUP_" + f[0].upper():
                recs[f[0]] = vk(f[1], ROOTS.index(f[5]))
            else:
                recs[k] = "RAW:" + v
    for n in set(G_.names) | set(recs):
        if n.upper() + "_DIR" in env:
            dirs[n] = env[n.upper() + "_DIR"]
    for var, dl in G_.pathvars.items():
        el = elems(env.get(var), dl)
        if el:
            paths[var] = el
    for var in G_.setvars:
        if var in env:
            vars_[var] = env[var]
    return {"recs": recs, "dirs": dirs, "paths": paths, "vars": vars_}


def sh_comparable(G_, r):
    """Is the command list compared string by string?  Yes unless a path variable of the environment the request
    started from holds empty elements (`a::b`, a leading or trailing delimiter): the element lists of the setup model
    do not carry them (C12 owns the string level), so the exported *string* is not determined by the model there."""
    for var, dl in G_.pathvars.items():
        v = r["before"].get(var)
        if v is not None and (v == "" or "" in v.split(dl)):
            return False
    return True


def sh_canon(G_, cmds):
    """The command strings as compared: sorted (the order is the dict order of os.environ), without `export <P>_DIR=none`
    for products declared without a directory — the model tags that value by (product, version), so it re-exports it when
    the version changes although the string does not (the environment the shell ends with is checked by the clause
    commands_realise_environment either way)."""
    nodir = {"export %s_DIR=none" % d["name"].upper() for d in G_.g["decls"] if d["sub"] is None}
    return sorted(c for c in cmds if c not in nodir)


def canon_impl(G_, r):
    """The observables of one request on the implementation."""
    if "before" not in r:
        return {"outcome": r["outcome"]}
    out = {"outcome": r["outcome"], "vro": r["vro"], "deep": r["nest"] > FUEL}
    if r.get("cmds_raw") is not None and sh_comparable(G_, r):
        out["sh"] = sh_canon(G_, r["cmds"])          # the command strings of eups.app.setup
    if r["outcome"] in ("ok", "raised"):
        out["env"] = canon_env(G_, r["after"])
    if r["outcome"] == "ok":
        out["aliases"] = r["aliases"]
        out["unaliased"] = r["unaliased"]
    return out


def spec_model(sp):
    k = sp["kind"]
    if k == "bare":
        return None, None
    if k == "explicit":
        return {"v": sp["v"]}, None
    if k == "expr":
        return {"e": sp["e"]}, None
    if k == "vexpr":
        return {"v": sp["v"]}, sp["e"]
    return None, sp["e"]


def model_db(G_):
    decls = []
    for (n, v), d in G_.decl.items():
        tb = []
        for gd, a in G_.flat[(n, v)]:
            if a["a"] == "dep":
                ver, vexpr = spec_model(a["spec"])
                tb.append({"g": gd, "a": "dep", "name": a["name"], "opt": a["opt"], "just": a["just"], "ver": ver,
                           "vexpr": vexpr, "tags": list(a.get("tags", [])), "keep": bool(a.get("keep"))})
            elif a["a"] == "prepend":
                vals = []
                dl = G_.pathvars.get(a["var"], ":")
                for o, t in pvals(a):
                    if "%" in t:        # a placeholder: the model gets the expanded string (own text stays own)
                        x = G_.expand(n, v, t)
                        if o:
                            vals.append({"own": True, "val": x})
                        else:
                            # a piece that is the product's own directory (+ rest) is an own element, as the
                            # driver tags the same string when it meets it in the environment
                            dd = G_.dir(n, v)
                            for y in x.split(dl):
                                if y and dd != "none" and (y == dd or y.startswith(dd + "/")):
                                    vals.append({"own": True, "val": y[len(dd):]})
                                elif y:
                                    vals.append({"own": False, "val": y})
                    else:
                        vals.append({"own": o, "val": t})
                tb.append({"g": gd, "a": "prepend", "var": a["var"], "append": a["append"], "vals": vals})
            elif a["a"] == "set":
                x = dict(a)
                x["g"] = gd
                x["val"] = G_.expand(n, v, a["val"])
                tb.append(x)
            else:
                x = dict(a)
                x["g"] = gd
                tb.append(x)
        decls.append({"name": n, "ver": d["ver"], "stack": d.get("stack", 0), "dir": G_.dir(n, v), "table": tb})
    tags = [[t, n, v, k] for k in range(G_.nstacks) for t, m in sorted(stack_tags(G_.g, k).items())
            for n, v in sorted(m.items())]
    return {"decls": decls, "tags": tags}


def model_request(G_, db, before, req, roots=None):
    env = canon_env(G_, before)
    env = dict(env, recs={n: list(unvk(v)) if not v.startswith("RAW:") else [v, 99] for n, v in env["recs"].items()})
    out = {"m": "c01", "op": req["op"], "fuel": FUEL, "db": db, "env": env, "types": list(req.get("types") or []),
           "req": {"name": req["name"], "ver": req["ver"], "keep": req["keep"], "max_depth": req["max_depth"],
                   "inexact": req["inexact"], "tags": req["tags"], "path": req_path(req)}}
    if roots:
        # end to end: the model renders the command strings of eups.app.setup with the real stack roots
        out["layout"] = {"roots": list(roots), "delims": dict(G_.pathvars), "flavor": "Linux", "flavors": dict(G_.flavors),
                         "subst": [[ROOTS[k], roots[k]] for k in reversed(range(len(roots)))]}
    return out


def canon_model(ans, sh_roots=None, G_=None):
    if "bad-op" in ans:
        return {"outcome": "bad-op:" + str(ans["bad-op"])}
    if ans["out"] == "fuel":
        return {"outcome": "fuel", "vro": ans["vro"], "deep": True}
    out = {"outcome": ans["out"], "vro": ans["vro"], "deep": False}
    if sh_roots is not None and ans.get("sh") is not None:
        out["sh"] = sh_canon(G_, [strip_text(c, sh_roots) for c in ans["sh"]])
    if ans["out"] in ("ok", "raised"):
        e = ans["env"]
        out["env"] = {"recs": {n: (vk(r[0], r[1]) if r[1] != 99 else r[0]) for n, r in e["recs"].items()},
                      "dirs": e["dirs"], "paths": {k: v for k, v in e["paths"].items() if v},
                      "vars": e["vars"]}
    if ans["out"] == "ok":
        out["aliases"] = ans["aliases"]
        out["unaliased"] = sorted(k for k in ans["unaliased"] if k not in ans["aliases"])
    return out


def compare(impl, model):
    """Names of the observables on which implementation and model differ (oracle (i)).  A request that
    nests deeper than FUEL is out-of-fuel in the model and hits the interpreter's recursion limit in the
    code: only the fact itself is compared."""
    if impl.get("deep") or model.get("deep"):
        return [] if impl.get("deep") == model.get("deep") else ["recursion_depth"]
    diffs = []
    for k in sorted(set(impl) | set(model)):
        if impl.get(k) != model.get(k):
            if k == "env" and k in impl and k in model:
                diffs += ["env." + f for f in ("recs", "dirs", "paths", "vars") if impl[k].get(f) != model[k].get(f)]
            else:
                diffs.append(k)
    return diffs


# ================================================================================================
# oracle (ii): the properties' clauses on the implementation's own output
# ================================================================================================

def residue(G_, env):
    """[(where, string, owner)] for every element / value / directory variable that lies under the directory of
    a declared version which is not the one recorded as set up (clause (c))."""
    out = []
    recs = env["recs"]
    for var, el in env["paths"].items():
        for s in el:
            o = G_.owner(s)
            if o and recs.get(o[0]) != o[1]:
                out.append((var, s, o))
    for var, s in env["vars"].items():
        o = G_.owner(s)
        if o and recs.get(o[0]) != o[1]:
            out.append((var, s, o))
    for n, s in env["dirs"].items():
        o = G_.owner(s)
        if o and recs.get(o[0]) != o[1]:
            out.append((n.upper() + "_DIR", s, o))
    return out


def missing_contribs(G_, env, exact):
    """[(name, version, what)] own contributions of set-up products that are absent (clause (b)); a contribution
    guarded by the setup type counts when it matches `exact` (histories keep one setup type)."""
    out = []
    for n, v in env["recs"].items():
        if (n, v) not in G_.decl:
            continue
        for a in G_.acts(n, v, exact):
            if a["a"] == "prepend":
                for o, x in G_.values(n, v, a):
                    if o and x not in env["paths"].get(a["var"], []):
                        out.append((n, v, "%s lacks %s" % (a["var"], x)))
            elif a["a"] == "set" and a["own"] and a["val"] != "":
                if env["vars"].get(a["var"]) != G_.value(n, v, a):
                    out.append((n, v, "%s != %s" % (a["var"], G_.value(n, v, a))))
    return out


def bad_dirs(G_, env):
    """[(name, version)] records whose version is not declared or whose <P>_DIR is not its directory (clause (a))"""
    out = []
    for n, v in env["recs"].items():
        if (n, v) not in G_.decl or env["dirs"].get(n) != G_.dir(n, v):
            out.append((n, v))
    return out


def env_ok(G_, env, exact):
    return not residue(G_, env) and not missing_contribs(G_, env, exact) and not bad_dirs(G_, env)


# ---- a second, model-free reading of resolution, for the closure clause --------------------------

def vkey(v):
    try:
        return [int(x) for x in v.split(".")]
    except ValueError:
        return [-1]          # a named version (tag-named class): never the target of a relational request here


def vmatch(v, e):
    import operator
    ops = {"<": operator.lt, "<=": operator.le, "==": operator.eq, ">=": operator.ge, ">": operator.gt}
    return any(ops[op](vkey(v), vkey(w)) for op, w in e)


def designated(G_, name, ver, vexpr, tags=("current",), line_tags=(), path=(0,)):
    """The declared version (key) the default resolution order designates for a request taken on its own, over the
    stacks of the path: the line's own -t tags first; an expression -> the highest version satisfying it (the first
    stack of the path carrying that version name); an explicit version -> the first stack declaring it, else the highest
    one satisfying an accompanying [expr]; no version -> the tagged version.  None = cannot be resolved."""
    def by_expr(e):
        c = [unvk(v)[0] for v in G_.versions_on(name, path) if vmatch(unvk(v)[0], e)]
        return G_.find_ver(name, max(c, key=vkey), path) if c else None
    for t in line_tags:            # the line's own -t tags stand in front of the whole VRO
        v = G_.tagged(t, name, path)
        if v is not None:
            return v
    if ver is not None and "e" in ver:
        return by_expr(ver["e"])
    if ver is not None:
        v = G_.find_ver(name, ver["v"], path)
        if v is not None:
            return v
        return by_expr(vexpr) if vexpr else None
    for t in tags:
        v = G_.tagged(t, name, path)
        if v is not None:
            return v
    return None


def closure(G_, name, ver, exact, path=(0,), asked=None):
    """(set of (name, version) | None when the request fails, conflict-free?) — the dependency closure of the
    request: required dependencies, optional ones that can be resolved (together with everything they
    require), honouring -j; computed on an acyclic name graph only.  `asked` (optional dict) receives, per name,
    the set of versions requested along the traversal."""
    asked = {} if asked is None else asked      # name -> versions requested (failed attempts included)
    conflict = [False]

    def visit(n, vr, vx, norec, acc, ltags=()):
        v = designated(G_, n, vr, vx, line_tags=ltags, path=path)
        if v is None:
            return False
        asked.setdefault(n, set()).add(v)
        if len(asked[n]) > 1:
            conflict[0] = True
        if (n, v) in acc:
            return True
        acc.add((n, v))
        if norec:
            return True
        for a in G_.acts(n, v, exact):
            if a["a"] != "dep":
                continue
            if a.get("keep"):
                conflict[0] = True        # a line's own -k: what it designates depends on what is set up
            vr2, vx2 = spec_model(a["spec"])
            sub = set(acc)
            # a line's -t tags go in front of the VRO in force, and stay in force for everything set up below it
            if visit(a["name"], vr2, vx2, a["just"], sub, tuple(a.get("tags", [])) + tuple(ltags)):
                acc |= sub
            elif not a["opt"]:
                return False
        return True
    acc = set()
    ok = visit(name, ver, None, False, acc)
    return (acc if ok else None), not conflict[0]


def asked_versions(G_, name, ver, exact, path=(0,)):
    """name -> set of versions some line designates for it, over everything reachable from the request through the
    designated versions — without stopping at lines that cannot be resolved (the real traversal may skip a subtree that
    is already set up, so a failure found statically does not end it)."""
    asked, seen = {}, set()
    todo = [(name, ver, None, ())]
    while todo:
        n, vr, vx, lt = todo.pop()
        v = designated(G_, n, vr, vx, line_tags=lt, path=path)
        asked.setdefault(n, set()).add(v)
        if v is None or (n, v, lt) in seen:
            continue
        seen.add((n, v, lt))
        for a in G_.acts(n, v, exact):
            if a["a"] == "dep":
                vr2, vx2 = spec_model(a["spec"])
                todo.append((a["name"], vr2, vx2, tuple(a.get("tags", [])) + tuple(lt)))
    return asked


# ---- per-request clause evaluation ------------------------------------------------------------

def changed_for(G_, m, e0, e1):
    """Is anything that belongs to product name m different between two canonical environments:
    record, directory variable, the sub-list of its own elements in every path variable, its own set variables."""
    if e0["recs"].get(m) != e1["recs"].get(m) or e0["dirs"].get(m) != e1["dirs"].get(m):
        return True
    for var in set(e0["paths"]) | set(e1["paths"]):
        o0 = [s for s in e0["paths"].get(var, []) if (G_.owner(s) or (None,))[0] == m]
        o1 = [s for s in e1["paths"].get(var, []) if (G_.owner(s) or (None,))[0] == m]
        if o0 != o1:
            return True
    for var in set(e0["vars"]) | set(e1["vars"]):
        for e in (e0, e1):
            s = e["vars"].get(var)
            if s is not None and (G_.owner(s) or (None,))[0] == m and e0["vars"].get(var) != e1["vars"].get(var):
                return True
    return False


def contributed_by(G_, owner, var, s, mode):
    """Does a line of the owner's table that is active under the mode contribute the string to the variable?"""
    n, v = owner
    if (n, v) not in G_.decl:
        return False
    for a in G_.acts(n, v, mode):
        if a["a"] == "prepend" and a["var"] == var and s in [x for _, x in G_.values(n, v, a)]:
            return True
        if a["a"] == "set" and a["var"] == var and G_.value(n, v, a) == s:
            return True
    return False


def guarded_value(G_, owner, s):
    """Is the string contributed by a line of the owner's table that sits inside an if (type == exact) / else block?"""
    n, v = owner
    for gd, a in G_.flat.get((n, v), []):
        if gd == "always":
            continue
        if a["a"] == "prepend" and s in [x for _, x in G_.values(n, v, a)]:
            return True
        if a["a"] == "set" and G_.value(n, v, a) == s:
            return True
    return False


def check_request(G_, req, r, stats=None, mixed=False):
    """Oracle (ii) for one request of a history: yields (property, clause, finding class | None, detail).
    r is the raw result of run_history (before / after / outcome / cmds …); mixed = the history so far holds
    requests of both setup types (--inexact and not)."""
    cyc = G_.cyclic_names()
    e0 = canon_env(G_, r["before"])
    exact = mode_of(req)

    def cnt(k):
        if stats is not None:
            stats[k] = stats.get(k, 0) + 1

    # --- C02 clause 2: a failing request hands nothing to the shell --------------------------------
    if r["outcome"] == "notfound" and r["cmds"] != ["false"]:
        yield ("C02", "failed_request_emits_nothing", None, "cmds=%r" % (r["cmds"],))
    if r["outcome"] == "raised" and r["cmds"] is not None:
        yield ("C02", "failed_request_emits_nothing", None, "raised but cmds=%r" % (r["cmds"],))
    if r["outcome"] != "ok":
        return
    if any(x.startswith("?") for x in r["shell_undefs"]):
        yield ("C02", "commands_realise_environment", None, "unknown commands %r" % (r["shell_undefs"],))
    e1 = canon_env(G_, r["after"])
    es = canon_env(G_, r["shell"])
    if es != e1:
        yield ("C02", "commands_realise_environment", None, "shell %r != computed %r" % (es, e1))

    if req["op"] == "setup":
        name = req["name"]
        # --- C01 (a) (b) (c): on priors that are themselves consistent -----------------------------
        if not residue(G_, e0) and not bad_dirs(G_, e0):
            cnt("c01_prior_ok")
            for var, s, o in residue(G_, e1):
                # the claim is about environments eups itself produced (WellOwned in the theorems): an element under the
                # directory of a set-up version that was there before the request and that no line of that version's
                # table contributes under the setup type(s) of this (unmixed) history was put there by the generated
                # prior ("contained": PATH already held <dir>/bin), not by eups — unwinding the table cannot remove it
                if not mixed and s in (e0["paths"].get(var, []) + [e0["vars"].get(var)]) and e0["recs"].get(o[0]) == o[1] \
                        and not contributed_by(G_, o, var, s, exact):
                    cnt("c01_prior_foreign_own_element")
                    continue
                cls = "D17" if o[0] in cyc else ("D34" if mixed and guarded_value(G_, o, s) else None)
                yield ("C01", "c_no_residue", cls, "%s holds %s of %s %s; records %r" % (var, s, o[0], o[1], e1["recs"]))
            for n, v in bad_dirs(G_, e1):
                yield ("C01", "a_dir_is_declared_dir", "D17" if n in cyc else None, "%s %s: dir %r" % (n, v, e1["dirs"].get(n)))
            # (b) speaks of the contributions under the setup type the products were set up with: evaluated
            # while the history has used one type only
            if not mixed and not missing_contribs(G_, e0, exact):
                for n, v, what in missing_contribs(G_, e1, exact):
                    yield ("C01", "b_contributions_present", "D17" if n in cyc else None, "%s %s: %s" % (n, v, what))
        else:
            cnt("c01_prior_not_ok")
        # --- C01 clause 4: explicit version --------------------------------------------------------
        if req["ver"] is not None and "v" in req["ver"]:
            cnt("c01_explicit")
            if unvk(e1["recs"].get(name) or "")[0] != req["ver"]["v"]:
                yield ("C01", "explicit_version", "D17" if name in cyc else None,
                       "asked %s %s, record %r" % (name, req["ver"]["v"], e1["recs"].get(name)))
        # --- C01 clause 5: closure -----------------------------------------------------------------
        if not e0["recs"] and not req["keep"] and not req["tags"] and req["max_depth"] == -1 and not cyc:
            cl, conflict_free = closure(G_, name, req["ver"], exact, path=tuple(req_path(req)))
            if cl is not None and conflict_free:
                cnt("c01_closure_checked")
                got = set(e1["recs"].items())
                if got != cl:
                    yield ("C01", "closure", None, "set up %r, closure %r" % (sorted(got), sorted(cl)))
            elif cl is None and conflict_free:
                yield ("C01", "closure", None, "request succeeded although its required closure cannot be resolved")
            else:
                cnt("c01_closure_conflict")
        # --- C01 clause 5 on populated environments: the required lines of the requested product's own table ------
        top_v = e1["recs"].get(name)
        if not req["keep"] and not req["tags"] and req["max_depth"] != 0 and not cyc and (name, top_v) in G_.decl:
            path = tuple(req_path(req))
            asked = asked_versions(G_, name, req["ver"], exact, path=path)
            keep_named = {}                  # name -> kinds of lines naming it in the reachable tables (with / without -k)
            for n2 in G_.reach([name]):
                for v2 in G_.versions(n2):
                    for a2 in G_.acts(n2, v2, exact):
                        if a2["a"] == "dep":
                            keep_named.setdefault(a2["name"], set()).add(bool(a2.get("keep")))
            for a2 in G_.acts(name, top_v, exact):
                if a2["a"] != "dep" or a2["opt"]:
                    continue
                m = a2["name"]
                if m == name or len(asked.get(m, ())) > 1 or len(keep_named.get(m, ())) > 1:
                    continue                 # requested in two versions (or both with and without -k) along the traversal
                vr2, vx2 = spec_model(a2["spec"])
                if a2.get("keep") and (m, e0["recs"].get(m)) in G_.decl:
                    w = e0["recs"][m]        # the line says -k: the version set up beforehand stays
                else:
                    w = designated(G_, m, vr2, vx2, line_tags=tuple(a2.get("tags", [])), path=path)
                if w is None:
                    continue
                cnt("c01_line_designated")
                got = e1["recs"].get(m)
                if got is None or unvk(got)[0] != unvk(w)[0]:
                    cls = None
                    if got is None:
                        for p2, ov in e0["recs"].items():
                            if p2 != m and (p2, ov) in G_.decl and p2 in G_.reach([name]) and e1["recs"].get(p2) != ov \
                                    and m in G_.reach_from(p2, ov):
                                cls = "D35"
                        # the same mechanism inside one request: a product asked for in two versions along the
                        # traversal is set up, then replaced — the replaced version's table names the missing product
                        # (the property's clause 5 does not apply to such a traversal at all)
                        for p2, vs in asked.items():
                            if p2 != m and len(vs) > 1 and any(w2 is not None and m in G_.reach_from(p2, w2) for w2 in vs):
                                cls = "D35"
                    yield ("C01", "line_designated_version", cls,
                           "%s's table asks for %s -> %s, record %r (before: %r)" % (name, m, w, got, e0["recs"].get(m)))
        # --- C04 (i) keep --------------------------------------------------------------------------
        if req["keep"]:
            cnt("c04_keep")
            for m, v in e0["recs"].items():
                if (m, v) not in G_.decl:
                    continue            # a record naming an undeclared version: eups cannot find it, nothing to keep
                if m != name and e1["recs"].get(m) != v:
                    cls = None
                    oldv = e0["recs"].get(name)
                    if oldv is not None and m in G_.reach_from(name, oldv):
                        cls = "D21"
                    yield ("C04", "keep", cls, "%s %s -> %r (request %s, was %r, now %r)" % (m, v, e1["recs"].get(m), name, oldv, e1["recs"].get(name)))
        # --- C04 (iii) depth -----------------------------------------------------------------------
        if req["max_depth"] >= 0:
            cnt("c04_depth")
            dist = G_.dist(name)
            for m in G_.names:
                if dist.get(m, 10 ** 6) > req["max_depth"] and changed_for(G_, m, e0, e1):
                    yield ("C04", "depth", None, "%s at distance %s > %d changed" % (m, dist.get(m), req["max_depth"]))
    # --- C04 (ii) frame (setup and unsetup) ------------------------------------------------------------
    R = G_.reach([req["name"]])
    cnt("c04_frame")
    for m in G_.names:
        if m not in R and changed_for(G_, m, e0, e1):
            yield ("C04", "frame", None, "%s is not reachable from %s but changed" % (m, req["name"]))
    lits = {x for (n, v) in G_.decl for _, a in G_.flat[(n, v)] if a["a"] == "prepend" for o, x in G_.values(n, v, a) if not o}
    for var in G_.pathvars:
        f0 = [s for s in e0["paths"].get(var, []) if G_.owner(s) is None]
        f1 = [s for s in e1["paths"].get(var, []) if G_.owner(s) is None]
        if uniq([s for s in f0 if s not in lits]) != uniq([s for s in f1 if s not in lits]):
            yield ("C04", "frame_foreign_elements", None, "%s: foreign elements %r -> %r" % (var, f0, f1))


# ================================================================================================
# evaluation of a batch of cases: implementation, model, both oracles
# ================================================================================================

def soft_deadline(ctx, quick_s=75.0):
    """The quick tier stops generating after about quick_s seconds of correspondence work (the registered check
    should stay within ~2 minutes wall on a loaded machine); the thorough tier runs to ctx's own deadline."""
    import time
    return time.time() + quick_s if (ctx.tier == "quick" and not ctx.escalated) else float("inf")


def load_corpus(pid):
    d = os.path.join(common.VERIF, "corpus", pid)
    out = []
    if os.path.isdir(d):
        for f in sorted(os.listdir(d)):
            if f.endswith(".json"):
                with open(os.path.join(d, f)) as fh:
                    c = json.load(fh)
                c["_corpus"] = f
                out.append(c)
    return out


def case_input(case):
    return {k: case[k] for k in ("graph", "prior", "history")}


def run_cases(ctx, cases, workers=12):
    """Returns [(case, G, raw results, impl observables, model observables)]"""
    common.import_eups()            # in the parent, so that children inherit the imported (never constructed) eups
    raws = common.parallel_map(run_history, cases, workers=workers)
    reqs, spans = [], []
    for case, raw in zip(cases, raws):
        G_ = G(case["graph"])
        db = model_db(G_)
        n0 = len(reqs)
        for req, r in zip(case["history"], raw):
            if "before" in r:
                reqs.append(model_request(G_, db, r["before"], req, r.get("roots")))
        spans.append((n0, len(reqs) - n0))
    answers = ctx.lean.ask_many(reqs)
    out = []
    for case, raw, (s, n) in zip(cases, raws, spans):
        G_ = G(case["graph"])
        impl = [canon_impl(G_, r) for r in raw]
        model = [canon_model(a, sh_roots=(r.get("roots") if "sh" in im else None), G_=G_)
                 for a, im, r in zip(answers[s:s + n], impl, raw)]
        out.append((case, G_, raw, impl, model))
    return out


def evaluate(ctx, pid, cases, stats, workers=12, extra=None):
    """Run the cases; report disagreements (oracle (i)) and the failures of `pid`'s clauses (oracle (ii))."""
    for case, G_, raw, impl, model in run_cases(ctx, cases, workers):
        inp = case_input(case)
        nontrivial = False
        for i, (req, r) in enumerate(zip(case["history"], raw)):
            if "before" not in r:
                raise common.InfraError("request could not be run: %r" % (r,))
            im, mo = impl[i], model[i] if i < len(model) else {"outcome": "missing"}
            if mo["outcome"].startswith("bad-op"):
                raise common.InfraError("driver rejected a request: %s" % mo["outcome"])
            ctx.hist("outcome=" + im["outcome"])
            ctx.hist("op=%s" % req["op"])
            ctx.hist("entry=%s" % ("setupcmd" if req.get("cli") else "app.setup"))
            if im.get("deep") or mo.get("deep"):
                ctx.hist("recursion_limit")
            diffs = compare(im, mo)
            for d in diffs:
                ctx.disagree(d, dict(inp, step=i), im, mo)
            if "sh" in im:
                stats["sh_compared"] = stats.get("sh_compared", 0) + 1
                if any(c.startswith("export ") and "'" in c for c in im["sh"]):
                    stats["sh_quoted"] = stats.get("sh_quoted", 0) + 1
            if im["outcome"] == "ok":
                b, a = canon_env(G_, r["before"]), canon_env(G_, r["after"])
                if a != b:
                    nontrivial = True
                if any(a["recs"].get(n) not in (None, v) for n, v in b["recs"].items()):
                    ctx.hist("switched_version")
                    stats["switched"] = stats.get("switched", 0) + 1
                stats["ok"] = stats.get("ok", 0) + 1
            if im.get("deep"):
                continue
            mixed = len({(h["inexact"], tuple(h.get("types") or ())) for h in case["history"][:i + 1]}) > 1
            if mixed:
                ctx.hist("mixed_setup_types")
            if req.get("types"):
                ctx.hist("setup_type=" + ",".join(req["types"]))
            if im["outcome"] == "ok" and req["op"] == "unsetup" and case["graph"].get("eups_named") and \
                    case["graph"]["eups_named"] in canon_env(G_, r["before"])["recs"] and \
                    case["graph"]["eups_named"] not in canon_env(G_, r["after"])["recs"]:
                ctx.hist("class_eups_named_unsetup")
                stats["class_eups_named"] = stats.get("class_eups_named", 0) + 1
            if im["outcome"] == "ok" and req["op"] == "setup":
                b0 = canon_env(G_, r["before"])["recs"]
                a0 = canon_env(G_, r["after"])["recs"]
                g_ = case["graph"]
                pp = g_.get("prefix_pair")
                if pp and req["name"] == pp[0] and pp[1] in b0 and pp[0] not in b0:
                    ctx.hist("class_prefix_bystander")
                    stats["class_prefix_bystander"] = stats.get("class_prefix_bystander", 0) + 1
                st = g_.get("shared_table")
                if st and st in b0 and a0.get(st) not in (None, b0[st]):
                    ctx.hist("class_shared_table_switch")
                    stats["class_shared_table_switch"] = stats.get("class_shared_table_switch", 0) + 1
                tg = g_.get("tag_named")
                if tg and b0.get(tg[0]) == tg[1] and a0.get(tg[0]) not in (None, tg[1]):
                    ctx.hist("class_tag_named_version_replaced")
                    stats["class_tag_named"] = stats.get("class_tag_named", 0) + 1
                gn = g_.get("generic")
                if gn and req["keep"] and gn in b0 and gn != req["name"] and gn in G_.reach([req["name"]]):
                    ctx.hist("class_keep_generic")
                    stats["class_keep_generic"] = stats.get("class_keep_generic", 0) + 1
                if any("%D" in t for (n_, v_) in a0.items() if (n_, v_) in G_.decl
                       for a_ in G_.acts(n_, v_, mode_of(req)) if a_["a"] == "prepend" for _, t in pvals(a_)):
                    ctx.hist("class_mid_reference_set_up")
                    stats["class_mid_reference"] = stats.get("class_mid_reference", 0) + 1
            for prop, clause, cls, detail in check_request(G_, req, r, stats, mixed=mixed):
                if prop != pid:
                    continue
                ctx.hist("clause_failed=" + clause)
                ctx.fail(clause, dict(inp, step=i), im, mo, note=detail, finding=cls)
        if extra is not None:
            for clause, cls, detail, step in extra(G_, case, raw, impl, model, stats):
                ctx.hist("clause_failed=" + clause)
                ctx.fail(clause, dict(inp, step=step), impl[step] if step < len(impl) else None,
                         model[step] if step < len(model) else None, note=detail, finding=cls)
        ctx.case(key=inp, nontrivial=nontrivial,
                 sample={"history": case["history"], "outcomes": [x["outcome"] for x in impl]} if ctx.evaluations % 97 == 0 else None)
        ctx.hist("names=%d" % len(G_.names))
        ctx.hist("history_len=%d" % len(case["history"]))
        ctx.hist("prior=" + case.get("prior_mode", "?"))
        if case["graph"].get("cyc"):
            ctx.hist("name_cycle_graph")
        if "_corpus" in case:
            ctx.hist("corpus")


def replay_case(ctx, pid, rp):
    case = rp["input"]
    step = case.get("step")
    res = run_cases(ctx, [case], workers=1)[0]
    _, G_, raw, impl, model = res
    fails = []
    for i, (req, r) in enumerate(zip(case["history"], raw)):
        if step is not None and i != step:
            continue
        if "before" not in r or impl[i].get("deep"):
            continue
        mixed = len({(h["inexact"], tuple(h.get("types") or ())) for h in case["history"][:i + 1]}) > 1
        for prop, clause, cls, detail in check_request(G_, req, r, mixed=mixed):
            if prop == pid:
                fails.append({"step": i, "clause": clause, "class": cls, "detail": detail})
    return {"input": case, "impl_output": impl, "model_output": model,
            "agree": [compare(a, b) for a, b in zip(impl, model)], "fails": fails}



# ================================================================================================
# sessions: ONE Eups object serving several top-level Eups.setup calls (API use)
# ================================================================================================

def gen_session_case(rng):
    """keep / max_depth / tags / setup type / EUPS_PATH belong to the object; 2-4 calls `E.setup(name, version, fwd)` on it.
    What must not carry over from a finished call into the next traversal: alreadySetupProducts and the reasons in it
    (after `setup a` with setupRequired(c 1.0), `setup b` with setupRequired(c) designates the current c; after
    `setup d 1.0`, `setup e` with setupRequired(d 2.0) gives d 2.0).  Half of the sessions are aimed at these two shapes."""
    g = gen_graph(rng, cyc=False)
    base = gen_request(rng, g, op="setup", plain=True)
    base.update(cli=False, inexact=rng.random() < 0.2, types=["build"] if rng.random() < 0.15 else [],
                keep=False, max_depth=rng.choice([-1, -1, -1, 2]))
    G_ = G(g)
    def mk(name, ver, op="setup"):
        return dict(base, name=name, ver=ver, op=op)
    hist = []
    lines = [(n, v, a) for (n, v), fl in G_.flat.items() if unvk(v)[1] == 0 for gd, a in fl if a["a"] == "dep" and gd == "always"
             and a["name"] in G_.names and not a.get("tags") and not a.get("keep")]
    r = rng.random()
    if r < 0.3 and lines:
        # setup x (its table asks for m in an explicit version), then setup y whose table asks for m differently
        expl = [(n, v, a) for n, v, a in lines if a["spec"]["kind"] == "explicit"]
        if expl:
            n, v, a = rng.choice(expl)
            others = [(n2, v2, a2) for n2, v2, a2 in lines if a2["name"] == a["name"] and n2 != n and a2["spec"] != a["spec"]]
            if others:
                n2, v2, a2 = rng.choice(others)
                hist = [mk(n, {"v": unvk(v)[0]}), mk(n2, {"v": unvk(v2)[0]})]
    elif r < 0.6 and lines:
        # setup m v on the command line (reason commandLine), then setup y whose table asks for another version of m
        expl = [(n, v, a) for n, v, a in lines if a["spec"]["kind"] == "explicit"]
        if expl:
            n, v, a = rng.choice(expl)
            vs = [unvk(w)[0] for w in G_.versions_on(a["name"], [0]) if unvk(w)[0] != a["spec"]["v"]]
            if vs:
                hist = [mk(a["name"], {"v": rng.choice(vs)}), mk(n, {"v": unvk(v)[0]})]
    while len(hist) < rng.randint(2, 4):
        q = gen_request(rng, g, plain=True)
        hist.append(mk(q["name"], q["ver"], q["op"]))
    for h in hist:
        h["path"] = base["path"]
    return {"graph": g, "prior": {"PATH": BASE_PATH}, "prior_mode": "clean", "history": hist, "session": True}


def _do_session(Ss, ud, env, hist):
    """Runs in a forked child: one Eups object, several top-level calls."""
    req = hist[0]
    for k in list(os.environ):
        del os.environ[k]
    os.environ.update(env)
    os.environ.update({"EUPS_PATH": ":".join(Ss[k] for k in req_path(req)), "EUPS_USERDATA": ud, "EUPS_SHELL": "sh", "EUPS_FLAVOR": "Linux",
                       "HOME": ud, "USER": "verif"})
    M = common.eups_mod("Eups")
    U = common.eups_mod("utils")
    U.stderr = U.stdwarn = U.stdinfo = U.stdok = io.StringIO()
    nest = [0, 0]
    orig = M.Eups.setup

    def counted(self, *a, **k):
        nest[0] += 1
        nest[1] = max(nest[1], nest[0])
        try:
            if nest[0] > FUEL:
                raise _TooDeep()
            return orig(self, *a, **k)
        finally:
            nest[0] -= 1
    M.Eups.setup = counted
    outs = []
    with contextlib.redirect_stderr(io.StringIO()), contextlib.redirect_stdout(io.StringIO()):
        E = M.Eups(readCache=False, quiet=1, keep=req["keep"], max_depth=req["max_depth"],
                   setupType=" ".join(req.get("types") or []))
        E.selectVRO(tag=list(req["tags"]) or None, versionName=None, inexact_version=req["inexact"])
        vro = list(E.getPreferredTags())
        for h in hist:
            before = dict(os.environ)
            out = {"exc": None, "vro": vro, "before": before}
            nest[1] = 0
            try:
                ok, _v, _reason = E.setup(h["name"], ver_text(h["ver"]) if h["op"] == "setup" else None, h["op"] == "setup")
                out["outcome"] = "ok" if ok else "notfound"
            except _TooDeep:
                out["outcome"] = "deep"
            except Exception as e:  # noqa
                out["outcome"] = "raised"
                out["exc"] = type(e).__name__
            out["env"] = dict(os.environ)
            out["aliases"] = dict(E.aliases)
            out["unaliased"] = sorted(k for k in E.oldAliases if k not in E.aliases)
            out["nest"] = nest[1]
            outs.append(out)
            if out["outcome"] != "ok":
                break
    return outs


def run_session(case):
    root = common.scratch("session")
    try:
        Ss, ud = install(case["graph"], root)
        def subst(v):
            v = v.replace("$S", Ss[0])
            return v.replace("$T", Ss[1]) if len(Ss) > 1 else v
        env = {k: subst(v) for k, v in case["prior"].items()}
        r = common.in_child(_do_session, Ss, ud, env, case["history"], _timeout=120)
        if r[0] != "ok":
            return [{"outcome": "harness:" + str(r[:3])}]
        outs = []
        for o in r[1]:
            outs.append({"before": strip(o["before"], Ss), "outcome": o["outcome"], "exc": o["exc"], "vro": o["vro"], "nest": o["nest"],
                         "after": strip(o["env"], Ss) if o["outcome"] != "deep" else {}, "aliases": o["aliases"],
                         "unaliased": o["unaliased"], "cmds": [] if o["outcome"] == "ok" else None,
                         "shell": strip(o["env"], Ss), "shell_defs": [], "shell_undefs": []})
        return outs
    finally:
        common.rmtree(root)


def evaluate_sessions(ctx, pid, cases, stats, workers=12):
    """Sessions against the model's op "session"; oracle (ii): the per-request clauses of `pid` on every call that succeeded
    (evaluated on the in-process environment: no command list here)."""
    common.import_eups()
    raws = common.parallel_map(run_session, cases, workers=workers)
    reqs = []
    for case, raw in zip(cases, raws):
        G_ = G(case["graph"])
        if "before" not in raw[0]:
            raise common.InfraError("session could not be run: %r" % (raw[0],))
        h0 = case["history"][0]
        m = model_request(G_, model_db(G_), raw[0]["before"], h0)
        m["op"] = "session"
        m["steps"] = [{"op": h["op"], "name": h["name"], "ver": h["ver"]} for h in case["history"]]
        reqs.append(m)
    answers = ctx.lean.ask_many(reqs)
    for case, raw, ans in zip(cases, raws, answers):
        G_ = G(case["graph"])
        inp = case_input(case)
        inp["session"] = True
        if "bad-op" in ans or "steps" not in ans:
            raise common.InfraError("driver rejected a session: %r" % (ans,))
        nontrivial = False
        for i, r in enumerate(raw):
            im = canon_impl(G_, dict(r, cmds_raw=None))
            im.pop("sh", None)
            a = ans["steps"][i] if i < len(ans["steps"]) else {"out": "missing", "vro": ans["vro"]}
            mo = canon_model(dict(a, vro=ans["vro"])) if a["out"] != "missing" else {"outcome": "missing"}
            for d in compare(im, mo):
                ctx.disagree("session." + d, dict(inp, step=i), im, mo)
            ctx.hist("session_outcome=" + im["outcome"])
            if im.get("deep") or im["outcome"] != "ok":
                continue
            b, a_ = canon_env(G_, r["before"]), canon_env(G_, r["after"])
            nontrivial = nontrivial or a_ != b
            if i >= 1 and any(a_["recs"].get(n) not in (None, v) for n, v in b["recs"].items()):
                ctx.hist("class_session_switch")
                stats["class_session_switch"] = stats.get("class_session_switch", 0) + 1
            req = case["history"][i]
            mixed = False
            for prop, clause, cls, detail in check_request(G_, req, r, stats, mixed=mixed):
                if prop != pid:
                    continue
                ctx.hist("clause_failed=" + clause)
                ctx.fail(clause, dict(inp, step=i), im, mo, note="[session] " + detail, finding=cls)
        ctx.case(key=inp, nontrivial=nontrivial)
        ctx.hist("session")


# ================================================================================================
# C02: round trips and the failing-optional-dependency gadget
# ================================================================================================

def approx_env(G_, env):
    """The property's own equality: every variable as a duplicate-free list of non-empty elements
    (split at the variable's delimiter, ':' by default); unset = empty."""
    out = {}
    for k, v in env.items():
        el = uniq(elems(v, G_.pathvars.get(k, ":")))
        if el:
            out[k] = el
    return out


def contributed(G_, recs, exact):
    """(variables envSet, {path var: elements contributed}) by the tables of the given set-up products"""
    setv, el = set(), {}
    for n, v in recs.items():
        if (n, v) in G_.decl:
            for a in G_.acts(n, v, exact):
                if a["a"] == "set":
                    setv.add(a["var"])
                elif a["a"] == "prepend":
                    el.setdefault(a["var"], set()).update(x for _, x in G_.values(n, v, a))
    return setv, el


def conflict_with_just(G_, name, exact, path=(0,)):
    """Product names that the tables reachable from `name` request in two different (designated) versions, at
    least one of the requesting lines carrying -j  (class predicate of D33)."""
    want = {}
    for n in G_.reach([name]):
        for v in G_.versions(n):
            for a in G_.acts(n, v, exact):
                if a["a"] == "dep":
                    vr, vx = spec_model(a["spec"])
                    w = want.setdefault(a["name"], [set(), False])
                    w[0].add(designated(G_, a["name"], vr, vx, line_tags=tuple(a.get("tags", [])), path=tuple(path)))
                    w[1] = w[1] or a["just"]
    # "two different answers" includes "cannot be resolved": a -j line that fails at setup time still unwinds
    # whatever version is set up when the table is replayed for unsetup
    return {x for x, (vs, j) in want.items() if j and len(vs) >= 2}


def roundtrip_oracle(G_, case, raw, impl, model, stats):
    """`setup p` followed by `unsetup p`: the shell's environment and functions are back where they were.
    Yields (clause, finding class, detail, step)."""
    cyc = G_.cyclic_names()
    hist = case["history"]
    for i in range(len(hist) - 1):
        a, b = hist[i], hist[i + 1]
        if not (a["op"] == "setup" and b["op"] == "unsetup" and a["name"] == b["name"]):
            continue
        if i + 1 >= len(raw):
            break                       # the history was cut short (a request nested too deep)
        ra, rb = raw[i], raw[i + 1]
        if ra.get("outcome") != "ok" or "before" not in rb:
            continue
        if i + 1 >= len(impl) or impl[i].get("deep") or impl[i + 1].get("deep"):
            continue
        e0, e1 = canon_env(G_, ra["before"]), canon_env(G_, ra["shell"])
        if any(n in e0["recs"] for n in e1["recs"] if e1["recs"][n] != e0["recs"].get(n)) or \
                any(n in e0["recs"] for n in G_.reach([a["name"]])):
            stats["rt_closure_already_setup"] = stats.get("rt_closure_already_setup", 0) + 1
            continue
        if rb["outcome"] != "ok":
            yield ("unsetup_after_setup_succeeds", "D17" if G_.reach([a["name"]]) & cyc else None,
                   "unsetup %s: %s" % (b["name"], rb["outcome"]), i + 1)
            continue
        stats["roundtrips"] = stats.get("roundtrips", 0) + 1
        x0, x2 = approx_env(G_, ra["before"]), approx_env(G_, rb["shell"])
        # the closure, as for the theorems: every declared version of every name reachable from the request
        # (a version set up and replaced during the request contributes too)
        setv, el = set(), {}
        for n in G_.reach([a["name"]]):
            for v in G_.versions(n):
                sv, e_ = contributed(G_, {n: v}, mode_of(a))
                setv |= sv
                for k_, x_ in e_.items():
                    el.setdefault(k_, set()).update(x_)
        e2 = canon_env(G_, rb["shell"])
        left_recs = {n for n in e2["recs"] if n not in e0["recs"]}
        cj = conflict_with_just(G_, a["name"], mode_of(a), req_path(a))
        d33 = bool(cj) and bool(left_recs) and left_recs <= G_.reach(cj)
        for k in sorted(set(x0) | set(x2)):
            if x0.get(k) != x2.get(k):
                cls = "D33" if d33 else None
                if cls:
                    pass
                elif k in setv and k in ra["before"]:
                    cls = "D15a"
                elif k in el and set(elems(ra["before"].get(k), G_.pathvars.get(k, ":"))) & el[k]:
                    cls = "D15b"
                elif G_.reach([a["name"]]) & cyc:
                    cls = "D17"
                yield ("inverse", cls, "%s: %r before setup, %r after unsetup" % (k, x0.get(k), x2.get(k)), i + 1)
        left = [f for f in ra["shell_defs"] if f not in rb["shell_undefs"]]
        if left:
            yield ("inverse_aliases", "D33" if d33 else ("D17" if G_.reach([a["name"]]) & cyc else None),
                   "functions still defined: %r" % left, i + 1)


def add_gadget(rng, g):
    """Attach `setupOptional(w)` to a random table, where the fresh product w sets up a fresh product u, contributes,
    and then requires something that does not exist.  Returns (graph with the line, graph without it): in both,
    the environment after any request must be the same."""
    import copy
    g1 = copy.deepcopy(g)
    pool = g["pool"]
    wv, uv = rng.choice(pool), rng.choice(pool)
    # the requirement that fails names a product that does not exist: an unknown *version* would not do, because a
    # -t tag inherited from a line further up outranks the version and rescues the request
    bad = {"a": "dep", "name": "zz", "opt": False, "just": False, "spec": rng.choice([{"kind": "bare"}, {"kind": "explicit", "v": "1"}])}
    wt = [{"a": "prepend", "var": "PATH", "own": True, "val": "/bin", "append": False},
          {"a": "set", "var": "W_X", "own": True, "val": "/x"},
          {"a": "dep", "name": "u", "opt": False, "just": False, "spec": {"kind": "bare"}},
          {"a": "alias", "key": "run_w", "val": "echo w"},
          bad,
          {"a": "prepend", "var": "LIBP", "own": True, "val": "/lib", "append": True}]
    ut = [{"a": "prepend", "var": "PATH", "own": True, "val": "/bin", "append": False}]
    for g_ in (g1,):
        g_["decls"].append({"name": "w", "ver": wv, "sub": "Linux/w/" + wv, "table": wt})
        g_["decls"].append({"name": "u", "ver": uv, "sub": "Linux/u/" + uv, "table": ut})
        g_["tags"]["current"]["w"] = wv
        g_["tags"]["current"]["u"] = uv
        g_["names"] = g_["names"] + ["u", "w"]
    g0 = copy.deepcopy(g1)
    host = rng.randrange(len(g["decls"]))
    pos = rng.randint(0, len(g1["decls"][host]["table"]))
    g1["decls"][host]["table"].insert(pos, {"a": "dep", "name": "w", "opt": True, "just": False, "spec": {"kind": "bare"}})
    return g1, g0, g["decls"][host]["name"]
