"""Step gate for eups.lock: real `takeLocks` / `giveLocks` driven one file-system call at a time.

Every locker is a forked child of the calling process.  In the child the names `os`, `glob` and `time` *inside
the module eups.lock* are replaced by proxies (no change to the eups source): a call that touches a lock
directory or a lock file is announced on a pipe (`CALL <name>`), waits for the scheduler's `go`, is executed
for real, and its result class is reported (`RES <class>`).  Everything else passes through.  `atexit.register`
is replaced by a collector so that the handlers `takeLocks` registers run — gated like everything else — when the
emulated command exits.  The scheduler (`run_schedule`) therefore decides the interleaving of the real calls of
real processes on a real directory.

Directory listings are returned newest lock file first (the scheduler tells the child the creation order with
each `go`); POSIX leaves the order open, the model fixes the same one.
"""
import errno
import json
import os
import select
import signal
import sys
import types
import glob as _glob

from . import common

real_os = os
LOCKDIR = ".lockDir"
STEP_TIMEOUT = 20.0


class GateTimeout(Exception):
    pass


def _in_lockdir(p):
    """'dir' if p is a lock directory, 'file' if p is an entry of one, else None."""
    p = p.rstrip("/")
    head, tail = real_os.path.split(p)
    if tail == LOCKDIR:
        return "dir"
    if real_os.path.basename(head) == LOCKDIR:
        return "file"
    return None


def _stack_index(p):
    """index of the stack (directory named stack<i>) whose lock directory p is or lies in"""
    p = p.rstrip("/")
    while p and real_os.path.basename(p) != LOCKDIR:
        p = real_os.path.dirname(p)
        if p == "/":
            return None
    b = real_os.path.basename(real_os.path.dirname(p))
    return int(b[5:]) if b.startswith("stack") and b[5:].isdigit() else None


# ----------------------------------------------------------------------------------------------
# child side
# ----------------------------------------------------------------------------------------------

class _Gate:
    """child side of the pipe protocol; raw descriptors, so that a signal handler of the locker (which makes gated
    calls of its own while the interrupted call is still waiting for its `go`) can use it re-entrantly"""

    def __init__(self, rfd, wfd):
        self.rfd = rfd
        self.wfd = wfd
        self.buf = b""
        self.order = {}          # stack index (str) -> real pids, newest lock file first
        self.pidmap = {}         # real pid (str) -> process index
        self.multi = False       # several stacks: call names carry "@<stack index>"
        self.users = {}          # process index (str) -> login name the locker runs under (None: the real one)
        self.readonly = ()       # stack indices whose lock directory this locker cannot make (mkdir: EACCES)

    def say(self, what):
        real_os.write(self.wfd, (what + "\n").encode())

    def recv(self):
        while b"\n" not in self.buf:
            b = real_os.read(self.rfd, 65536)
            if not b:
                real_os._exit(0)     # scheduler went away
            self.buf += b
        ln, self.buf = self.buf.split(b"\n", 1)
        return ln.decode()

    def call(self, name):
        self.pending_name = name
        self.say("CALL " + name)
        ln = self.recv()
        if ln.startswith("go "):
            self.order = json.loads(ln[3:])

    def res(self, cls):
        self.say("RES " + cls)


def _errname(e):
    return errno.errorcode.get(e.errno, "E%s" % e.errno)


def _install_proxies(lock, g):
    import re

    def gated(name, fn, ok=lambda r: "ok", path=None):
        if g.multi and path is not None:
            name = "%s@%s" % (name, _stack_index(path))
        g.call(name)
        try:
            r = fn()
        except OSError as e:
            g.res(_errname(e))
            raise
        g.res(ok(r))
        return r

    class PathProxy:
        def __getattr__(self, n):
            return getattr(real_os.path, n)

        def exists(self, p):
            k = _in_lockdir(p)
            if k is None:
                return real_os.path.exists(p)
            return gated("exists_dir" if k == "dir" else "exists_file", lambda: real_os.path.exists(p), lambda r: str(bool(r)), path=p)

        def isdir(self, p):
            if _in_lockdir(p) is None:
                return real_os.path.isdir(p)
            return gated("isdir", lambda: real_os.path.isdir(p), lambda r: str(bool(r)), path=p)

    class OsProxy:
        path = PathProxy()

        def __getattr__(self, n):
            return getattr(real_os, n)

        def mkdir(self, p, *a, **kw):
            if _in_lockdir(p) is None:
                return real_os.mkdir(p, *a, **kw)
            if _stack_index(p) in g.readonly:
                # a stack this locker may not write to (the harness runs as root, so the refusal is made up here)
                def refuse():
                    raise OSError(errno.EACCES, "Permission denied", p)
                return gated("mkdir", refuse, path=p)
            return gated("mkdir", lambda: real_os.mkdir(p, *a, **kw), path=p)

        def makedirs(self, p, *a, **kw):
            if _in_lockdir(p) is None:
                return real_os.makedirs(p, *a, **kw)
            return gated("makedirs", lambda: real_os.makedirs(p, *a, **kw), path=p)

        def open(self, p, fl, *a, **kw):
            if _in_lockdir(p) is None:
                return real_os.open(p, fl, *a, **kw)
            return gated("create", lambda: real_os.open(p, fl, *a, **kw), path=p)

        def remove(self, p):
            if _in_lockdir(p) is None:
                return real_os.remove(p)
            return gated("remove", lambda: real_os.remove(p), path=p)

        unlink = remove

        def rmdir(self, p):
            if _in_lockdir(p) is None:
                return real_os.rmdir(p)
            return gated("rmdir", lambda: real_os.rmdir(p), path=p)

        def walk(self, p, *a, **kw):
            if _in_lockdir(p) is None:
                return real_os.walk(p, *a, **kw)
            g.call("count@%s" % _stack_index(p) if g.multi else "count")
            first = next(real_os.walk(p, *a, **kw), None)
            if first is None:
                g.res("StopIteration")
                return iter(())
            g.res(str(len(first[2])))
            return iter((first,))

        def listdir(self, p="."):
            if _in_lockdir(p) is None:
                return real_os.listdir(p)
            return gated("listdir", lambda: real_os.listdir(p), lambda r: str(len(r)), path=p)

    def show(names):
        out = []
        for f in names:
            # <kind>-<login name>.<pid>: the pid is what follows the LAST dot, the name is everything between (it may
            # itself contain dots, dashes, digits); the name must be the one that locker runs under
            b = real_os.path.basename(f)
            kind, _, rest = b.partition("-")
            name, _, pid = rest.rpartition(".")
            if kind in ("exclusive", "shared") and pid.isdigit() and pid in g.pidmap and name and \
                    g.users.get(str(g.pidmap[pid])) in (None, name):
                out.append(("E" if kind == "exclusive" else "S") + str(g.pidmap[pid]))
            else:
                out.append("?" + b)
        return "[" + ",".join(out) + "]"

    def rank(f):
        m = re.search(r"\.(\d+)$", f)
        pid = int(m.group(1)) if m else -1
        order = g.order.get(str(_stack_index(f)), [])
        return order.index(pid) if pid in order else len(order)

    class GlobProxy:
        def __getattr__(self, n):
            return getattr(_glob, n)

        def glob(self, pat, *a, **kw):
            d, base = real_os.path.split(pat)
            if _in_lockdir(d) != "dir":
                return _glob.glob(pat, *a, **kw)
            name = {"*": "scan_all", "exclusive*": "scan_ex"}.get(base, "scan:" + base)
            return gated(name, lambda: sorted(_glob.glob(pat, *a, **kw), key=rank), show, path=d)

    lock.os = OsProxy()
    lock.glob = GlobProxy()
    lock.time = types.SimpleNamespace(sleep=lambda dt: None, time=lambda: 0.0)


def _run_command(spec, g, handlers):
    """Emulates bin/eups (or bin/eups_setup) for one command line: parse, run (cmd.py / setupcmd.py take and give the
    locks themselves), process exit.  The start of the command body is announced as the call `work`."""
    import eups
    import eups.cmd
    import eups.setupcmd
    import eups.hooks
    state = {"work": False}

    def work():
        if not state["work"]:
            state["work"] = True
            g.say("BODY")
            g.call("work")
            g.res("ok")

    import eups.lock as lock
    give = lock.giveLocks

    def reporting_give(locks, *a, **kw):
        # cmd.py / setupcmd.py call giveLocks in a finally clause: tell a failed release from a failed command body
        try:
            return give(locks, *a, **kw)
        except BaseException as e:  # noqa
            g.say("RELFAIL " + type(e).__name__)
            raise
    lock.giveLocks = reporting_give
    real_os.environ["EUPS_PATH"] = ":".join(spec["dirs"])
    argv = list(spec["argv"])
    try:
        if argv[0] == "setup":
            orig = eups.Eups

            class GatedEups(orig):
                def __init__(self, *a, **kw):
                    work()
                    orig.__init__(self, *a, **kw)
            eups.Eups = GatedEups
            eups.setupcmd.eups.Eups = GatedEups
            cmd = eups.setupcmd.EupsSetup(args=argv[1:], toolname="setup")
        else:
            make = eups.cmd.makeEupsCmd

            def gated_make(cmdName, c):
                ecmd = make(cmdName, c)
                if ecmd is not None and cmdName not in ("admin", "distrib"):
                    run = ecmd.run

                    def gated_run():
                        work()
                        return run()
                    ecmd.run = gated_run
                return ecmd
            eups.cmd.makeEupsCmd = gated_make
            cmd = eups.cmd.EupsCmd(args=argv, toolname="eups")
        eups.hooks.loadCustomization(-1, path=eups.Eups.setEupsPath(path=None, dbz=None))
        if spec.get("base") == "none":
            eups.hooks.config.site.lockDirectoryBase = None
        status = cmd.run()
        g.say("STATUS %r" % (status,))
        if state["work"]:
            g.say("RELOK")
    except BaseException as e:  # noqa
        if state["work"]:
            g.say("BODYFAIL " + type(e).__name__)
        else:
            g.say("ACQFAIL " + type(e).__name__)
    for f, a, kw in reversed(handlers):
        try:
            f(*a, **kw)
        except BaseException as e:  # noqa
            g.say("RELFAIL " + type(e).__name__)


def _child(spec, rfd, wfd):
    """Emulates one eups command: takeLocks; body; [giveLocks]; process exit (atexit handlers)."""
    try:
        g = _Gate(rfd, wfd)
        init = json.loads(g.recv())
        g.pidmap = init["pidmap"]
        g.multi = bool(init.get("multi"))
        g.users = init.get("users") or {}
        g.readonly = tuple(spec.get("ro") or ())
        real_os.environ.pop("EUPS_LOCK_PID", None)
        if init.get("lock_pid") is not None:
            real_os.environ["EUPS_LOCK_PID"] = str(init["lock_pid"])
        import atexit
        import io
        import eups.lock as lock
        from eups import hooks, utils
        handlers = []
        atexit.register = lambda f, *a, **kw: handlers.append((f, a, kw))
        # a signal handler the locker installs runs gated like everything else; if it RETURNS, the interrupted command
        # body resumes: say so, and announce the body again (the `go` it is still waiting for has not been sent)
        orig_signal = signal.signal

        def gated_signal(signum, h):
            if not callable(h):
                return orig_signal(signum, h)

            def wrapped(sn, frame):
                interrupted = getattr(g, "pending_name", "work")     # the call that was waiting for its `go`
                h(sn, frame)
                g.say("RESUMED")
                g.say("CALL " + interrupted)
            return orig_signal(signum, wrapped)
        signal.signal = gated_signal
        if spec.get("user"):
            # the login name lock.py puts into its file names: utils.getUserName() answers from this cache of its own
            utils.getUserName.who = {False: spec["user"], True: spec["user"]}
        base = spec.get("base", "default")
        if base == "none":
            hooks.config.site.lockDirectoryBase = None
        elif base != "default":
            hooks.config.site.lockDirectoryBase = base
        _install_proxies(lock, g)
        sink = io.StringIO()
        utils.stdinfo = utils.stdwarn = utils.stderr = sink
        sys.stdout = sys.stderr = sink
        if spec.get("argv") is not None:
            _run_command(spec, g, handlers)
            g.say("END")
            real_os._exit(0)
        kind = {"E": lock.LOCK_EX, "S": lock.LOCK_SH, "N": None}[spec["kind"]]
        try:
            locks = lock.takeLocks("cmd", list(spec["dirs"]), kind, nolocks=bool(spec.get("nolocks")),
                                   ntry=spec.get("ntry", 1), verbose=spec.get("verbose", 0))
        except BaseException as e:  # noqa
            g.say("ACQFAIL " + type(e).__name__)
            locks = None
        if locks is not None:
            g.say("HOLD " + json.dumps([_stack_index(d) for d, _f in locks]))
            g.call("work")
            g.res("ok")
            if spec.get("explicit", True):
                try:
                    lock.giveLocks(locks)
                    g.say("RELOK")
                except BaseException as e:  # noqa
                    g.say("RELFAIL " + type(e).__name__)
        # process exit: atexit handlers, last registered first; exceptions are printed and ignored by Python
        for f, a, kw in reversed(handlers):
            try:
                f(*a, **kw)
            except BaseException as e:  # noqa
                g.say("RELFAIL " + type(e).__name__)
        g.say("END")
    except BaseException as e:  # noqa
        try:
            real_os.write(wfd, ("CRASH %s %s\n" % (type(e).__name__, str(e)[:200].replace("\n", " "))).encode())
        except Exception:
            pass
    finally:
        real_os._exit(0)


# ----------------------------------------------------------------------------------------------
# scheduler side
# ----------------------------------------------------------------------------------------------

class Proc:
    def __init__(self, index, spec):
        self.index = index
        self.spec = spec
        pr, cw = os.pipe()
        cr, pw = os.pipe()
        sys.stdout.flush()
        sys.stderr.flush()
        self.pid = os.fork()
        if self.pid == 0:
            os.close(pr)
            os.close(pw)
            signal.signal(signal.SIGINT, signal.SIG_DFL)
            _child(spec, cr, cw)
        os.close(cw)
        os.close(cr)
        self.rfd = pr
        self.buf = b""
        self.w = os.fdopen(pw, "w")
        self.pending = None       # name of the announced call, None when terminated
        self.ended = False
        self.nlocks = None        # len(locks) once takeLocks has returned
        self.held = []            # stack indices of those locks
        self.acqfail = None
        self.relfail = None
        self.released = False
        self.crash = None
        self.ncalls = 0

    def _readline(self):
        while b"\n" not in self.buf:
            rl, _, _ = select.select([self.rfd], [], [], STEP_TIMEOUT)
            if not rl:
                raise GateTimeout("process %d silent for %.0fs (pending %s)" % (self.index, STEP_TIMEOUT, self.pending))
            b = os.read(self.rfd, 65536)
            if not b:
                return None
            self.buf += b
        ln, self.buf = self.buf.split(b"\n", 1)
        return ln.decode()

    def start(self, init):
        self.w.write(json.dumps(init) + "\n")
        self.w.flush()
        self._advance()

    def _advance(self):
        """Read up to the next announcement or the end.  Returns the result class of the call just executed."""
        res = None
        while True:
            ln = self._readline()
            if ln is None:
                self.pending = None
                self.ended = True
                if self.crash is None and not self._saw_end:
                    if self.signalled:
                        self.killed = True
                    else:
                        self.crash = "died"
                return res
            if ln.startswith("CALL "):
                self.pending = ln[5:]
                return res
            if ln.startswith("RES "):
                res = ln[4:]
            elif ln.startswith("HOLD "):
                self.held = json.loads(ln[5:])
                self.nlocks = len(self.held)
            elif ln == "RESUMED":
                self.resumed = True         # a signal handler returned: the body carries on, whatever locks it gave up
                self.held, self.nlocks = [], 0
                self.held_kinds = []
            elif ln == "BODY":
                self.body_from_fs = True
            elif ln.startswith("STATUS "):
                self.status = ln[7:]
            elif ln.startswith("BODYFAIL "):
                self.bodyfail = ln[9:]          # the command itself failed; its finally clause has released the locks
            elif ln.startswith("ACQFAIL "):
                self.acqfail = ln[8:]
            elif ln.startswith("RELFAIL "):
                self.relfail = self.relfail or ln[8:]
            elif ln == "RELOK":
                self.released = True
            elif ln == "END":
                self._saw_end = True
                self.pending = None
                self.ended = True
                return res
            elif ln.startswith("CRASH "):
                self.crash = ln[6:]

    _saw_end = False
    signalled = False
    killed = False
    resumed = False
    body_from_fs = False
    status = None
    bodyfail = None

    def go(self, order):
        """Let the announced call execute.  Returns (call name, result class)."""
        name = self.pending
        self.ncalls += 1
        self.w.write("go " + json.dumps(order) + "\n")
        self.w.flush()
        res = self._advance()
        return name, res

    @property
    def in_body(self):
        return self.pending == "work"

    def signal(self, signum):
        """deliver a signal to the locker (it is waiting in its command body) and read up to what it announces next"""
        self.signalled = True
        os.kill(self.pid, signum)
        self._advance()

    def outcome(self):
        if self.crash:
            return "crash:" + self.crash
        if self.killed:
            return "killed"
        if self.acqfail:
            return "failed:" + self.acqfail
        if self.pending == "work":
            return "locked" if self.nlocks else "unlocked"
        if self.relfail:
            return "failed_release:" + self.relfail
        if self.ended:
            return "done"
        return "pending:" + str(self.pending)

    def kill(self):
        try:
            os.kill(self.pid, signal.SIGKILL)
        except OSError:
            pass

    def close(self):
        try:
            self.w.close()
        except Exception:
            pass
        try:
            os.close(self.rfd)
        except OSError:
            pass
        try:
            os.waitpid(self.pid, 0)
        except OSError:
            pass


def _snapshot(stack):
    """what is in a stack, lock directory aside: relative path -> content digest"""
    import hashlib
    out = {}
    for dp, dn, fn in os.walk(stack):
        if LOCKDIR in dn:
            dn.remove(LOCKDIR)
        for d in dn:
            out[os.path.relpath(os.path.join(dp, d), stack) + "/"] = ""
        for f in fn:
            q = os.path.join(dp, f)
            try:
                with open(q, "rb") as fh:
                    out[os.path.relpath(q, stack)] = hashlib.md5(fh.read()).hexdigest()
            except OSError:
                out[os.path.relpath(q, stack)] = "?"
    return out


EV_CLEAR, EV_LIST = 1000000, 1000001     # schedule entries: `eups admin clearLocks` / `listLocks` on stack 0
EV_KILL = 2000000                        # EV_KILL + i: SIGKILL for locker i


def related(procs, i, j):
    return procs[i].get("lp") == j or procs[j].get("lp") == i


def run_schedule(case, phases=None):
    """case = {"procs": [{"kind": "E"|"S", "lp": None|index, "tries": n, "explicit": bool, "path": [stack index..]}],
               "sched": [index..], "base": "default"|"abs", "drain": bool, "ndirs": number of stacks (default 1)}
    Runs the real lock code under the schedule, then (drain) every process to its end, in index order.
    Returns {"executed": [...], "trace": [[pid, call, res, violators]], "outcomes": [...], "residue": [...],
             "violations": [{"step", "pair", "dir", "class"}], "mid": outcomes at the end of the given schedule}.
    With one stack the call names are bare ("mkdir"); with several they carry the stack index ("mkdir@1")."""
    common.import_eups()
    root = common.scratch("c09")
    nd = case.get("ndirs", 1)
    multi = nd > 1
    stacks = []
    if any(sp.get("argv") is not None for sp in case["procs"]):
        stacks, _uds = common.mkstacks(root, nstacks=nd)          # real stacks (ups_db, startup file, EUPS_USERDATA)
        multi = True
    else:
        for d in range(nd):
            st = os.path.join(root, "stack%d" % d)
            os.makedirs(st)
            stacks.append(st)
    base = case.get("base", "default")
    if base == "abs":
        base = os.path.join(root, "locks")
    snap0 = [_snapshot(st) for st in stacks] if multi and stacks and os.path.isdir(os.path.join(stacks[0], "ups_db")) else None
    specs = case["procs"]
    n = len(specs)
    # the stacks a locker can lock: its path without those it cannot write to (there takeLocks proceeds without a lock)
    paths = [[d for d in sp.get("path", [0]) if d not in (sp.get("ro") or [])] for sp in specs]
    procs = []
    try:
        def subst(a):
            # "$S1" in a command line stands for the directory of stack 1
            for d in range(nd - 1, -1, -1):
                a = a.replace("$S%d" % d, stacks[d])
            return a

        for i, sp in enumerate(specs):
            argv = [subst(a) for a in sp["argv"]] if sp.get("argv") is not None else None
            # a command line finds its stacks itself: $EUPS_PATH (env_path) and -Z/-z; `path` is what it should lock
            full = list(sp.get("path", [0]))
            dirs = [stacks[d] for d in (sp.get("env_path", full) if argv is not None else full)]
            procs.append(Proc(i, {"kind": sp["kind"], "dirs": dirs, "ntry": sp.get("tries", 0) + 1,
                                  "explicit": sp.get("explicit", True), "base": base, "argv": argv,
                                  "user": sp.get("user"), "ro": list(sp.get("ro") or [])}))
        pidmap = {str(p.pid): p.index for p in procs}
        # stale locks: files of processes that were killed outright ("ghosts"; pids that are nobody's)
        ghosts = [(k, int(g)) for k, g in (case.get("stale") or [])]
        ghostpid = {g: 4000000 + g for _k, g in ghosts}
        if ghosts and not multi:
            ld0 = os.path.join((os.path.join(base, stacks[0].lstrip("/")) if case.get("base") == "abs" else stacks[0]), LOCKDIR)
            os.makedirs(ld0)
            for k, g in ghosts:
                open(os.path.join(ld0, "%s-ghost.%d" % ("exclusive" if k == "E" else "shared", ghostpid[g])), "w").close()
                pidmap[str(ghostpid[g])] = g
        users = {str(i): sp.get("user") for i, sp in enumerate(specs)}
        for p, sp in zip(procs, specs):
            lp = sp.get("lp")
            p.start({"pidmap": pidmap, "multi": multi, "users": users,
                     "lock_pid": (procs[lp].pid if lp is not None and lp < n else
                                  (ghostpid.get(lp, 999999) if lp is not None else None))})
        order = {str(d): [] for d in range(nd)}     # per stack: real pids, newest lock file first
        if ghosts and not multi:
            order["0"] = [ghostpid[g] for _k, g in ghosts]
        trace, executed = [], []
        viols = []
        acq_signals = []        # lockers that caught a signal during takeLocks
        rel_signals = []        # ... inside giveLocks

        def split(name):
            if name and "@" in name:
                c, d = name.rsplit("@", 1)
                return c, (int(d) if d.isdigit() else None)
            return name, (0 if not multi else None)

        def current_violators(record):
            v = []
            for a in range(n):
                for b in range(n):
                    if a == b or related(specs, a, b) or not (procs[a].in_body and procs[b].in_body):
                        continue
                    if specs[a]["kind"] != "E":
                        continue
                    if specs[b]["kind"] == "N":
                        continue        # no lock requested (lockType None, --nolocks, -h): outside the property by configuration
                    ds = [d for d in procs[a].held if d in paths[b]]
                    if not ds:
                        continue
                    v.append([a, b])
                    if record:
                        d = ds[0]
                        # the repaired protocol has no known race left: every violation is outside every finding class
                        viols.append({"step": len(trace), "pair": [a, b], "dir": d, "class": None,
                                      "unlocked": d not in procs[b].held})
            return v

        def admin(i):
            """`eups admin clearLocks` / `listLocks` on stack 0: the real functions, run here (they bypass the protocol)"""
            import contextlib
            import io
            import re
            import eups.lock as lock
            executed.append(i)
            if i == EV_CLEAR:
                sink = io.StringIO()
                with contextlib.redirect_stdout(sink), contextlib.redirect_stderr(sink):
                    lock.clearLocks([stacks[0]])
                order["0"] = []
                trace.append([-1, "clearLocks", "ok", current_violators(True)])
            else:
                out = io.StringIO()
                with contextlib.redirect_stdout(out):
                    lock.listLocks([stacks[0]])
                txt = out.getvalue()
                if not txt.strip():
                    res = "-"
                else:
                    pids = re.findall(r"\[user=[^\]]*?, pid=(\d+)\]", txt)
                    res = "[" + ",".join(str(x) for x in sorted(pidmap.get(q, -1) for q in pids)) + "]"
                trace.append([-1, "listLocks", res, current_violators(False)])

        def one(i):
            if i in (EV_CLEAR, EV_LIST):
                return admin(i)
            if i >= EV_KILL:
                # SIGKILL: the locker stops dead wherever it is; whatever it put into the lock directory stays
                p = procs[i - EV_KILL]
                executed.append(i)
                if p.pending is None:
                    trace.append([p.index, "sigkill", "gone", current_violators(False)])
                else:
                    p.signalled = True
                    p.sigkilled = True
                    os.kill(p.pid, signal.SIGKILL)
                    while not p.ended:
                        p._advance()
                    trace.append([p.index, "sigkill", "killed", current_violators(True)])
                return
            if i < 0:
                # a signal for process -(i+1): delivered while it is in its command body, otherwise not sent at all
                p = procs[-i - 1]
                executed.append(i)
                # ... or while its takeLocks is about to call mkdir (between two stacks, or in the wait before the next
                # attempt on a contended stack: time.sleep is a no-op under the gate, the next call is that mkdir)
                # ... or while its giveLocks (takeLocks has returned) is about to start on a lock: isdir is the first call
                # of each lock's release
                in_release = split(p.pending)[0] == "isdir" and p.nlocks is not None and p.spec.get("argv") is None
                if not p.signalled and (p.pending == "work" or split(p.pending)[0] == "mkdir" or in_release):
                    if split(p.pending)[0] == "mkdir":
                        acq_signals.append(p.index)
                    elif in_release:
                        rel_signals.append(p.index)
                    p.signal(signal.SIGINT if case.get("signal") == "INT" else signal.SIGTERM)
                    trace.append([p.index, "signal", "delivered", current_violators(True)])
                else:
                    trace.append([p.index, "signal", "ignored", current_violators(False)])
                return
            p = procs[i]
            executed.append(i)
            if p.pending is None:
                trace.append([i, "-", "-", current_violators(False)])
                return
            name, res = p.go(order)
            if p.body_from_fs and p.nlocks is None:
                # a real command line: which locks it holds is read off the file system when its body starts
                p.held, p.held_kinds = [], []
                for dd in range(nd):
                    ld = os.path.join((os.path.join(base, stacks[dd].lstrip("/")) if case.get("base") == "abs" else stacks[dd]), LOCKDIR)
                    if os.path.isdir(ld):
                        for f in os.listdir(ld):
                            if f.endswith(".%d" % p.pid):
                                p.held.append(dd)
                                p.held_kinds.append("E" if f.startswith("exclusive-") else "S")
                p.nlocks = len(p.held)
            c, d = split(name)
            if c == "create" and res == "ok" and d is not None and p.pid not in order[str(d)]:
                order[str(d)].insert(0, p.pid)
            if c == "remove" and res == "ok" and d is not None and p.pid in order[str(d)]:
                order[str(d)].remove(p.pid)
            v = current_violators(True)
            trace.append([i, name, res, v])

        for i in case["sched"]:
            one(i)
        phase_steps = []
        for ph, i in (phases or []):
            # an acquisition phase runs the process up to its command body (or its failure); a release phase
            # ends the body and runs the process to its end
            t0 = len(trace)
            guard = 0
            if ph == "acq":
                while procs[i].pending not in (None, "work") and guard < 400:
                    one(i)
                    guard += 1
            else:
                while procs[i].pending is not None and guard < 400:
                    one(i)
                    guard += 1
            phase_steps.append([t0, len(trace)])
        mid = [p.outcome() for p in procs]
        if case.get("drain", True):
            for i in range(n):
                guard = 0
                while procs[i].pending is not None and guard < 400:
                    one(i)
                    guard += 1
        outcomes = [p.outcome() for p in procs]
        listing = []
        for d in range(nd):
            ld = os.path.join((os.path.join(base, stacks[d].lstrip("/")) if case.get("base") == "abs" else stacks[d]), LOCKDIR)
            ent = []
            if os.path.isdir(ld):
                ent.append(LOCKDIR)
                names = []
                for f in os.listdir(ld):
                    pid = f.rsplit(".", 1)[-1]
                    names.append((("E" if f.startswith("exclusive-") else "S") + str(pidmap[pid])) if pid in pidmap else "?" + f)
                ent += sorted(names)
            listing.append(ent)
        # what the commands declared where (real command lines only): product directories in each stack's ups_db
        products = []
        for d in range(nd):
            db = os.path.join(stacks[d], "ups_db")
            products.append(sorted(x for x in os.listdir(db) if os.path.isdir(os.path.join(db, x))) if os.path.isdir(db) else [])
        changed = [a != _snapshot(st) for a, st in zip(snap0, stacks)] if snap0 is not None else None
        residue = listing[0] if not multi else listing
        if not any(listing):
            residue = []
        return {"executed": executed, "trace": trace, "outcomes": outcomes, "mid": mid, "residue": residue,
                "violations": viols, "phase_steps": phase_steps,
                "held": [p.held if p.nlocks is not None else None for p in procs],
                "held_kinds": [getattr(p, "held_kinds", None) for p in procs],
                "status": [p.status for p in procs], "products": products, "stack_changed": changed,
                "resumed": [p.index for p in procs if p.resumed], "acq_signals": acq_signals, "rel_signals": rel_signals,
                "sigkilled": [p.index for p in procs if getattr(p, "sigkilled", False)]}
    finally:
        for p in procs:
            if not p.ended:
                p.kill()
            p.close()
        common.rmtree(root)
