"""Shared machinery of the database-family harnesses (C06, C15, C07): the universe of products, one
forked child per command on the real code, the fresh reader, the direct parse of ups_db, the mtime
normaliser (DESIGN 4.4) and the byte hash of the stacks.

A *world* is a scratch directory with two stacks, one EUPS_USERDATA per user and every product
directory `<stack>/<flavor>/<name>/<version>/ups/<name>.table` of the universe except the ones the case
lists as missing.  A *command* is a JSON-able dict (see `run_command`)."""
import hashlib
import json
import os
import re

from . import common

NAMES = ["p", "q", "r"]
VERS = ["1", "2", "3"]
FLAVS = ["Linux", "generic"]
TAGS = ["current", "stable", "beta", "rc-1", "w.2024.10"]   # global tags; the last two hold non-word characters (chain files found by listing)
GEN_TAGS = ["current", "stable", "rc-1", "w.2024.10", "beta"]
EXTRA_TAGS = ("beta", "rc-1", "w.2024.10", "beta+1")    # registered beside eups' own (current, stable, ...)
NSTACKS = 2
STACK_NAMES = ("stack", "stack2")      # stack 0 is a character prefix of stack 1
# table files kept outside the installation directories (what `declare -m <path>` can name): [stack index, path], content id.
# `ups_db_tables` is a sibling of `ups_db` whose name begins like it.
TFILES = [[[0, "ups_db_tables/t1.table"], 1], [[1, "ups_db_tables/t2.table"], 2], [[NSTACKS, "tables/t3.table"], 3]]
SYS = "S"                               # pseudo user: the cache directory inside ups_db/ of each stack
STREAMS = (11, 12)                      # content ids of tables given as a stream (`declare -M`)
OUTSIDE_NAME = "stack2x"                # directories outside every stack: both stack names are character prefixes of it
USERS = ["A", "B"]
CACHE_RE = re.compile(r"\.pickleDB\d+_\d+_\d+$")


def spell_path(p, k):
    """a non-normal spelling of a directory path: 1 trailing slash, 2 doubled slash, 3 dot component (0: as it is)"""
    d, b = os.path.split(p)
    return [p, p + "/", d + "//" + b, d + "/./" + b][k % 4]


def eups_path(world, cmd):
    """EUPS_PATH of a command: each stack in the spelling `cmd["spell"][i]` asks for"""
    sp = cmd.get("spell") or []
    return ":".join(spell_path(s, sp[i] if i < len(sp) else 0) for i, s in enumerate(world.stacks))


def stack_obj(e, s):
    """the in-memory stack an Eups instance keeps for stack directory `s`, however the instance spells its key"""
    if s in e.versions:
        return e.versions[s]
    for k, v in e.versions.items():
        if os.path.normpath(k) == os.path.normpath(s):
            return v
    raise KeyError(s)


def table_text(cid):
    """bytes of the table file with content id `cid` (a comment; sizes differ so that filecmp never ties)"""
    return "# content %d %s\n" % (cid, "x" * cid)


def content_id(txt):
    m = re.search(r"content (\d+)", txt)
    return int(m.group(1)) if m else txt.strip()


def interned_rel(f, n, v):
    return "ups_db/%s/%s/%s/ups/%s.table" % (f, n, v, n)


def all_dirs():
    return [[si, "%s/%s/%s" % (f, n, v)] for si in range(NSTACKS) for f in FLAVS for n in NAMES for v in VERS]


class World:
    def __init__(self, missing=(), users=USERS):
        self.root = common.scratch("db")
        # directory names that are character prefixes of one another (DESIGN 4.1): stack, stack2, stack2x (outside)
        self.stacks, self.uds = common.mkstacks(self.root, NSTACKS, extra_tags=EXTRA_TAGS, users=tuple(users),
                                                names=STACK_NAMES)
        self.missing = [list(m) for m in missing]
        for si, rel in all_dirs():
            if [si, rel] in self.missing:
                continue
            f, n, v = rel.split("/")
            common.mkprod(self.stacks[si], n, v, "", flavor=f)
        for d, cid in TFILES:
            p = self.path_of(d)
            os.makedirs(os.path.dirname(p), exist_ok=True)
            with open(p, "w") as f:
                f.write(table_text(cid))
        self.tmp = os.path.join(self.root, "tmp")           # tempfile.tempdir of the children (they leave with os._exit)
        os.makedirs(self.tmp)
        self.src = os.path.join(self.root, "src")          # sources of external files (-L), outside the stacks
        os.makedirs(self.src)
        for cid in (1, 2, 3):
            with open(os.path.join(self.src, "c%d" % cid), "w") as f:
                f.write("content %d\n" % cid)
        self.clock = 1000000000
        self.known = {}
        self.normalise()

    def close(self):
        common.rmtree(self.root)

    # ---- paths ------------------------------------------------------------------------------
    def path_of(self, d):
        """[stack index, relative path] -> absolute path (stack index NSTACKS = outside every stack)."""
        if d is None:
            return None
        si, rel = d
        base = self.stacks[si] if si < NSTACKS else os.path.join(self.root, OUTSIDE_NAME)
        return os.path.join(base, rel)

    def canon_path(self, s):
        """absolute path -> [stack index, relative path] or the string itself when outside the stacks"""
        if s is None:
            return None
        for si, st in enumerate(self.stacks):
            if s == st:
                return [si, ""]
            if s.startswith(st + "/"):
                return [si, s[len(st) + 1:]]
        out = os.path.join(self.root, OUTSIDE_NAME)
        if s.startswith(out + "/"):
            return [NSTACKS, s[len(out) + 1:]]
        if s.startswith(self.root + "/"):
            return [NSTACKS + 1, s[len(self.root) + 1:]]
        return s

    def canon_table(self, name, d, t, key=None):
        """resolved tablefile -> 'default' (dir/ups/name.table) | 'none' | 'interned' (the copy in the extra
        directory of the declaration key = (stack index, flavor, version)) | canonical path"""
        if t is None or t == "none":
            return "none"
        if d is not None and t == os.path.join(d, "ups", name + ".table"):
            return "default"
        if key is not None and t == os.path.join(self.stacks[key[0]], interned_rel(key[1], name, key[2])):
            return "interned"
        return self.canon_path(t)

    # ---- time -------------------------------------------------------------------------------
    def normalise(self, events=None):
        """Give everything touched since the last call fresh, strictly increasing mtimes, in the order in
        which the command modified them.  The order is taken from the child's audit log (`events`: paths in
        the order they were written / created / removed / renamed; an event on a path also counts for its
        directory); real mtimes (database entries before cache files on ties) only order what the log does
        not mention.  Directory mtimes of this kernel tie with the file written just before, so mtimes alone
        do not give the order.  Returns the touched paths (relative to the world root) in that order."""
        last = {}
        for i, p in enumerate(events or []):
            last[p] = i
            last[os.path.dirname(p)] = i
        items = []
        seen = set()
        for base in self.stacks + list(self.uds.values()):
            for dp, dn, fn in os.walk(base):
                for x in [dp] + [os.path.join(dp, f) for f in fn]:
                    try:
                        st = os.lstat(x)
                    except OSError:
                        continue
                    seen.add(x)
                    if self.known.get(x) != st.st_mtime_ns:
                        items.append((last.get(x, -1), st.st_mtime_ns, 1 if "_caches_" in x else 0, x))
        for k in list(self.known):
            if k not in seen:
                del self.known[k]
        out = []
        for _, _, _, x in sorted(items):
            self.clock += 1
            os.utime(x, (self.clock, self.clock))
            self.known[x] = os.lstat(x).st_mtime_ns
            out.append(os.path.relpath(x, self.root))
        return out

    # ---- cache files ------------------------------------------------------------------------
    def cache_dir(self, user, si):
        """the cache directory of a user for a stack; user SYS: the one inside ups_db/ (eups admin buildCache -A)"""
        if user == SYS:
            return os.path.join(self.stacks[si], "ups_db")
        return os.path.join(self.uds[user], "_caches_", self.stacks[si][1:])

    def cache_file(self, user, si, flavor):
        return os.path.join(self.cache_dir(user, si), "%s.pickleDB1_3_0" % flavor)

    def cache_state(self):
        """{(user, si, flavor): mtime} of the persisted caches of the two stacks"""
        out = {}
        for u in list(self.uds) + [SYS]:
            for si in range(NSTACKS):
                d = self.cache_dir(u, si)
                if os.path.isdir(d):
                    for f in os.listdir(d):
                        if CACHE_RE.search(f):
                            out["%s/%d/%s" % (u, si, f.split(".")[0])] = int(os.stat(os.path.join(d, f)).st_mtime)
        return out

    # ---- byte hash of the stacks (C15) ------------------------------------------------------
    def tree_hash(self):
        """sha1 over (relative path, type, bytes) of everything under each stack, cache files excluded"""
        h = hashlib.sha1()
        listing = []
        for si, st in enumerate(self.stacks):
            for dp, dn, fn in os.walk(st):
                dn.sort()
                rel = os.path.relpath(dp, st)
                listing.append("%d:%s/" % (si, rel))
                h.update(("D %d %s\n" % (si, rel)).encode())
                for f in sorted(fn):
                    if CACHE_RE.search(f):
                        continue
                    p = os.path.join(dp, f)
                    with open(p, "rb") as fh:
                        data = fh.read()
                    h.update(("F %d %s/%s %d\n" % (si, rel, f, len(data))).encode())
                    h.update(data)
                    listing.append("%d:%s/%s:%s" % (si, rel, f, hashlib.sha1(data).hexdigest()[:10]))
        return h.hexdigest(), listing

    # ---- direct parse of ups_db -------------------------------------------------------------
    def parse_files(self):
        """What is on disk, read without any eups code.  Returns
        {"vfiles": [[si, name, version, [[flavor, PROD_DIR, UPS_DIR, TABLE_FILE]..]]..],
         "cfiles": [[si, name, tag, [[flavor, version]..]]..], "other": [paths]}"""
        vfiles, cfiles, other, extras = [], [], [], []
        for si, st in enumerate(self.stacks):
            db = os.path.join(st, "ups_db")
            for n in sorted(os.listdir(db)):
                pd = os.path.join(db, n)
                if not os.path.isdir(pd):
                    if not CACHE_RE.search(n):
                        other.append("%d:%s" % (si, n))
                    continue
                if n in FLAVS:                     # extra directories: ups_db/<flavor>/<name>/<version>/<path>
                    for dp, dn, fn in os.walk(pd):
                        for f in fn:
                            rel = os.path.relpath(os.path.join(dp, f), pd).split(os.sep)
                            with open(os.path.join(dp, f)) as fh:
                                cid = content_id(fh.read())
                            if len(rel) >= 3:
                                extras.append([si, n, rel[0], rel[1], "/".join(rel[2:]), cid])
                            else:
                                other.append("%d:%s/%s" % (si, n, "/".join(rel)))
                    continue
                ents = sorted(os.listdir(pd))
                if not ents:
                    other.append("%d:%s/ (empty)" % (si, n))
                for f in ents:
                    p = os.path.join(pd, f)
                    if f.endswith(".version"):
                        vfiles.append([si, n, f[:-8], _parse_groups(p, ("PROD_DIR", "UPS_DIR", "TABLE_FILE"))])
                    elif f.endswith(".chain"):
                        cfiles.append([si, n, f[:-6], _parse_groups(p, ("VERSION",))])
                    else:
                        other.append("%d:%s/%s" % (si, n, f))
        return {"vfiles": vfiles, "cfiles": cfiles, "other": other, "extras": sorted(extras)}


def _parse_groups(path, keys):
    out, cur = [], None
    with open(path) as fh:
        for line in fh:
            line = line.strip()
            m = re.match(r"^(\w+)\s*=\s*(.*)$", line)
            if not m:
                continue
            k, v = m.group(1).upper(), m.group(2).strip().strip('"')
            if k == "FLAVOR":
                cur = [v] + [None] * len(keys)
                out.append(cur)
            elif cur is not None and k in keys:
                cur[1 + keys.index(k)] = v
    return out


# --------------------------------------------------------------------------------------------------
# running the real code: one forked child per command
# --------------------------------------------------------------------------------------------------

def _quiet_fds():
    dn = os.open(os.devnull, os.O_WRONLY)
    os.dup2(dn, 1)
    os.dup2(dn, 2)


def outcome_of(res):
    """result of common.in_child(_child_command) -> (outcome enum, info)"""
    if res[0] == "ok":
        info = res[1]
        exc = info.get("exc") if isinstance(info, dict) else None
        if exc is None:
            return "ok", info
        t = exc[0]
        info["detail"] = exc[1]
        if t == "ProductNotFound":
            return "NotFound", info
        if t == "EupsException":
            return "Refused", info
        return "Other:" + t, info
    if res[0] == "exc":
        return "Other:" + res[1], {"detail": res[2]}
    return "Died", res[1]


WRITE_FLAGS = os.O_WRONLY | os.O_RDWR | os.O_CREAT | os.O_TRUNC | os.O_APPEND


def _install_audit(events):
    """Record, in order, every path the process writes, creates, removes or renames."""
    import sys

    def norm(p):
        try:
            return os.path.abspath(os.fsdecode(p))
        except Exception:
            return None

    def hook(ev, args):
        try:
            if ev == "open":
                p, _, flags = args
                if isinstance(flags, int) and flags & WRITE_FLAGS and isinstance(p, (str, bytes)):
                    events.append(norm(p))
            elif ev in ("os.remove", "os.mkdir", "os.rmdir", "os.utime", "os.truncate", "os.chmod", "os.chown"):
                events.append(norm(args[0]))
            elif ev in ("os.rename", "os.link", "os.symlink"):
                events.append(norm(args[0]))
                events.append(norm(args[1]))
        except Exception:
            pass
    sys.addaudithook(hook)


EVENT_FILE = ".events-of-crashed-child"


def _install_calltrace(world, calls):
    """Record, in order, every top-level call of a `Database` mutator (declare / undeclare / assignTag / unassignTag of
    `eups.db.Database._Database`), of `shutil.rmtree` and of `eups.utils.copyfile` that RETURNS (a call that raises has
    changed nothing the model counts), in the vocabulary of the model's effects (`Db.Eff`).  Behavioural, not textual:
    where in `Eups.py` the call is written does not matter.  Module attribute replacement only, in the forked child."""
    import importlib
    import shutil
    D = importlib.import_module("eups.db.Database")
    U = importlib.import_module("eups.utils")
    depth = {"n": 0}

    def stack_of(db):
        root = os.path.dirname(os.path.abspath(db.dbpath))
        return world.stacks.index(root) if root in world.stacks else root

    def describe(name, self, a, kw):
        if name in ("declare", "undeclare"):
            prod = a[0] if a else kw.get("product")
            row = [name, stack_of(self), prod.name, prod.version, prod.flavor]
            if name == "declare":
                tags = [str(getattr(t, "name", t)) for t in (prod.tags or [])]
                row.append(tags[0] if len(tags) == 1 else (tags or None))
            return row
        if name == "assignTag":
            tag, pname, version = (list(a) + [None] * 3)[:3]
            fl = a[3] if len(a) > 3 else kw.get("flavors")
            return ["assign", stack_of(self), str(tag), pname, fl if isinstance(fl, str) or fl is None else list(fl), version]
        tag, pname = (list(a) + [None] * 2)[:2]
        fl = a[2] if len(a) > 2 else kw.get("flavors")
        return ["unassign", stack_of(self), str(tag), pname, fl if isinstance(fl, str) or fl is None else list(fl)]

    def wrap(name, fn):
        def w(self, *a, **kw):
            top = depth["n"] == 0
            row = describe(name, self, a, kw) if top else None
            depth["n"] += 1
            try:
                ret = fn(self, *a, **kw)
            finally:
                depth["n"] -= 1
            if top:
                calls.append(row)
            return ret
        return w
    for m in ("declare", "undeclare", "assignTag", "unassignTag"):
        setattr(D._Database, m, wrap(m, getattr(D._Database, m)))

    real_rmtree = shutil.rmtree

    def rmtree(path, *a, **kw):
        ret = real_rmtree(path, *a, **kw)
        try:
            calls.append(["rmTree", world.canon_path(os.path.abspath(os.fsdecode(path)))])
        except Exception:
            pass
        return ret
    shutil.rmtree = rmtree
    real_copyfile = U.copyfile

    def copyfile(src, dst, *a, **kw):
        ret = real_copyfile(src, dst, *a, **kw)
        try:
            with open(dst) as fh:
                cid = content_id(fh.read())
            c = world.canon_path(os.path.abspath(dst))
            parts = c[1].split("/") if isinstance(c, list) else []
            if len(parts) >= 5 and parts[0] == "ups_db":
                calls.append(["copyExtra", c[0], parts[1], parts[2], parts[3], "/".join(parts[4:]), cid])
            else:
                calls.append(["copyfile", c])
        except Exception:
            calls.append(["copyfile", str(dst)])
        return ret
    U.copyfile = copyfile


def model_calls(trace):
    """the model's effects of one command in the vocabulary of `_install_calltrace`"""
    out = []
    for e in trace or []:
        if e[0] == "declare":
            d = e[1]
            out.append(["declare", d[0], d[1], d[2], d[3], e[2]])
        else:
            out.append(list(e))
    return out


def writes_under_stacks(world_stacks, events, ignore_locks=False):
    """the audit events (open for writing, create, remove, rename, mkdir, rmdir, utime, truncate, chmod, link) on paths
    under a stack, cache files excluded — what a dry run must not have any of"""
    out = []
    for p in events or []:
        for si, st in enumerate(world_stacks):
            if p.startswith(st + "/") or p == st:
                rel = p[len(st) + 1:]
                base = os.path.basename(p)
                if CACHE_RE.search(base) or ".pickleDB" in base:
                    break
                if ignore_locks and (rel == ".lockDir" or rel.startswith(".lockDir/")):
                    break           # the command line brackets the command with lock files (C09), gone when it returns
                out.append("%d:%s" % (si, rel))
                break
    return out


MSG_RES = [(re.compile(r'^Declaring directory (.*) as (\S+) (\S+)(?: (\S+))? in (.*)$'), "declaring"),
           (re.compile(r'^Assigning tag "(\S+)" to '), "assigning"),
           (re.compile(r'^eups undeclare --tag (\S+) (\S+)'), "untag"),
           (re.compile(r'^Removing (\S+) (\S+) from version list for (.*)$'), "removing"),
           (re.compile(r'^rm -rf (.*)$'), "rmrf"),
           (re.compile(r'^cp (\S+) (\S+)$'), "copy")]


def parse_would(world, text):
    """the 'would do' messages of a dry run, in order, in the model's vocabulary"""
    out = []
    for line in text.splitlines():
        line = line.strip()
        for rx, kind in MSG_RES:
            m = rx.match(line)
            if not m:
                continue
            if kind == "declaring":
                st = world.stacks.index(m.group(5)) if m.group(5) in world.stacks else m.group(5)
                out.append(["declaring", st, m.group(4)])
            elif kind == "assigning":
                out.append(["assigning", m.group(1)])
            elif kind == "untag":
                out.append(["untag", m.group(1)])
            elif kind == "removing":
                st = world.stacks.index(m.group(3)) if m.group(3) in world.stacks else m.group(3)
                out.append(["removing", m.group(2), st])
            elif kind == "copy":
                parts = m.group(2).split("/ups_db/", 1)[-1].split("/")      # <flavor>/<name>/<version>/<path>
                out.append(["copy", "/".join(parts[3:])])
            else:
                out.append(["rmrf", world.canon_path(m.group(1))])
            break
    return out


def apply_op(world, e, cmd):
    """one API call of the generator's vocabulary on the Eups instance `e`"""
    op = cmd["op"]
    st = (lambda i: None if i is None else world.stacks[i])
    if op == "declare":
        kw = {}
        t = cmd.get("table")
        if t == "none":
            kw["tablefile"] = "none"
        elif t and t[0] == "path":                      # declare -m <path>
            kw["tablefile"] = world.path_of(t[1])
        elif t and t[0] == "stream":                    # declare -M: the table comes as a stream
            import io
            kw["tablefile"] = io.StringIO(table_text(t[1]))
        if cmd.get("ext"):
            kw["externalFileList"] = [(os.path.join(world.src, "c%d" % cid), path) for path, cid in cmd["ext"]]
        return e.declare(cmd["name"], cmd["version"], world.path_of(cmd.get("dir")), st(cmd.get("stack")),
                         tag=cmd.get("tag"), **kw)
    if op == "undeclare":
        return e.undeclare(cmd["name"], cmd.get("version"), st(cmd.get("stack")), tag=cmd.get("tag"),
                           undeclareVersionAndTag=bool(cmd.get("vat")))
    if op == "assignTag":
        return e.assignTag(cmd["tag"], cmd["name"], cmd["version"], st(cmd.get("stack")))
    if op == "unassignTag":
        return e.unassignTag(cmd["tag"], cmd["name"], cmd.get("version"), st(cmd.get("stack")))
    if op == "remove":
        return e.remove(cmd["name"], cmd["version"], recursive=bool(cmd.get("recursive")))
    if op == "query":
        return None
    raise ValueError("unknown op %r" % (op,))


def _child_live2(world, cmd):
    """Two Eups instances of one user alive in ONE process (what `eups distrib` and scripts using the API do): both are
    constructed first, then the sub-commands `cmd["seq"] = [[instance, command], ...]` run in that order, each on its
    instance — whose in-memory stacks are as old as its construction or its last write-through.  Exercises
    `ProductStack.ensureInSync / cacheIsInSync / _cacheFileIsInSync`, the CacheOutOfSync branch of `save` and `reload`."""
    _quiet_fds()
    os.environ["EUPS_PATH"] = eups_path(world, cmd)
    os.environ["EUPS_USERDATA"] = world.uds[cmd.get("user", "A")]
    import tempfile
    tempfile.tempdir = world.tmp
    events, calls = [], []
    _install_audit(events)
    _install_calltrace(world, calls)
    fl = cmd.get("flavor", "Linux")
    insts = []
    for _ in range(2):
        os.environ["EUPS_PATH"] = eups_path(world, cmd)      # the constructor rewrites the variable
        insts.append(common.new_eups(flavor=fl))
    loaded = [[sorted(stack_obj(e, s).getFlavors()) for s in world.stacks] for e in insts]
    outs = []
    import time
    for i, c in cmd["seq"]:
        time.sleep(0.004)       # consecutive sub-commands in distinct timestamp ticks (the staleness test compares mtimes)
        n0 = len(calls)
        try:
            apply_op(world, insts[i], c)
            o = "ok"
        except Exception as ex:  # noqa
            t = type(ex).__name__
            o = {"ProductNotFound": "NotFound", "EupsException": "Refused"}.get(t, "Other:" + t)
        outs.append([o, calls[n0:]])
    views = [view_of(world, e) for e in insts]
    return {"events": [x for x in events if x], "outs": outs, "loaded": loaded, "views": views}


def _child_race(world, cmd):
    """Two UNSERIALISED writers sharing one cache directory (same user, no locks: the API takes none).  Writer A is this
    child; writer B's whole command runs in a sub-child at a gate inside A's `ProductStack.reload`:
      gate = ["at_open", k]     when A opens its k-th cache file for reading (after it has noted the file's time),
      gate = ["after_load", k]  right after A's k-th `pickle.load` returns (before whatever bookkeeping follows);
    when A never gets there (it rebuilt its stacks), B runs between A's constructor and A's command.  Then A runs its
    own command.  Module attribute replacement in the ProductStack module (`pickle`, `open`) only."""
    _quiet_fds()
    os.environ["EUPS_PATH"] = eups_path(world, cmd)
    os.environ["EUPS_USERDATA"] = world.uds[cmd.get("user", "A")]
    import tempfile
    import importlib
    import builtins
    import pickle as real_pickle
    tempfile.tempdir = world.tmp
    events, calls = [], []
    _install_audit(events)
    _install_calltrace(world, calls)
    PS = importlib.import_module("eups.stack.ProductStack")
    kind, k = cmd["gate"]
    st = {"n_open": 0, "n_load": 0, "fired": None, "b": None}

    def run_b(where):
        st["fired"] = where
        r = common.in_child(_child_command, world, dict(cmd["b"], user=cmd.get("user", "A")))
        st["b"] = outcome_of(r)
        info = st["b"][1]
        if isinstance(info, dict):
            events.extend(info.get("events") or [])

    class PickleProxy:
        def __getattr__(self, name):
            return getattr(real_pickle, name)

        @staticmethod
        def load(fd, *a, **kw):
            obj = real_pickle.load(fd, *a, **kw)
            if st["fired"] is None and kind == "after_load" and st["n_load"] == k:
                run_b("after_load#%d" % k)
            st["n_load"] += 1
            return obj

    def gated_open(file, mode="r", *a, **kw):
        if st["fired"] is None and kind == "at_open" and "b" in mode and "r" in mode and CACHE_RE.search(str(file)):
            if st["n_open"] == k:
                run_b("at_open#%d" % k)
            st["n_open"] += 1
        return builtins.open(file, mode, *a, **kw)
    PS.pickle = PickleProxy()
    PS.open = gated_open
    if kind == "at_save":
        # the k-th top-level ProductStack.save of writer A (k = 0: the save() that ends a rebuilding constructor):
        # writer B's command lands between A's scan of the database and A's save
        real_save = PS.ProductStack.save
        depth = {"n": 0, "seen": 0}

        def gated_save(self, *a, **kw):
            if depth["n"] == 0:
                if st["fired"] is None and depth["seen"] == k:
                    run_b("at_save#%d" % k)
                depth["seen"] += 1
            depth["n"] += 1
            try:
                return real_save(self, *a, **kw)
            finally:
                depth["n"] -= 1
        PS.ProductStack.save = gated_save
    fl = cmd.get("flavor", "Linux")
    import time
    n0 = 0
    try:
        e = common.new_eups(flavor=fl)
    except Exception as ex:  # noqa: the constructor of writer A gave up (CacheOutOfSync while it saved a rebuilt stack)
        e, loaded, oa = None, None, "Other:%s in the constructor" % type(ex).__name__
        if st["fired"] is None:
            run_b("after_init")
    if e is not None:
        loaded = [sorted(stack_obj(e, s).getFlavors()) for s in world.stacks]
        if st["fired"] is None:
            run_b("after_init")
        time.sleep(0.004)
        n0 = len(calls)
        try:
            apply_op(world, e, cmd["a"])
            oa = "ok"
        except Exception as ex:  # noqa
            t = type(ex).__name__
            oa = {"ProductNotFound": "NotFound", "EupsException": "Refused"}.get(t, "Other:" + t)
    return {"events": [x for x in events if x], "a": [oa, calls[n0:]], "b": st["b"][0] if st["b"] else None,
            "fired": st["fired"], "loaded": loaded}


def _child_command(world, cmd, probe=None):
    msgfile = None
    if cmd.get("noaction"):
        msgfile = os.path.join(world.root, ".dry-run-output")
        fd = os.open(msgfile, os.O_WRONLY | os.O_CREAT | os.O_TRUNC, 0o600)
        os.dup2(fd, 1)
        os.dup2(fd, 2)
    else:
        _quiet_fds()
    os.environ["EUPS_PATH"] = eups_path(world, cmd)
    os.environ["EUPS_USERDATA"] = world.uds[cmd.get("user", "A")]
    import tempfile
    tempfile.tempdir = world.tmp          # scratch files of the command (table given as a stream) land outside the stacks
    events = []
    _install_audit(events)
    calls = []
    state0 = {"calls": calls}
    _install_calltrace(world, calls)
    if cmd.get("setup"):
        sv, sf, ss = cmd["setup"]        # the environment of a shell in which `setup -f sf name sv` was run
        os.environ["SETUP_" + cmd["name"].upper()] = "%s %s -f %s -Z %s" % (cmd["name"], sv, sf, world.stacks[ss])
    if cmd.get("interpose"):
        cmd["interpose"](cmd, world, events, state0)
    e = common.new_eups(flavor=cmd.get("flavor", "Linux"), force=bool(cmd.get("force")),
                        noaction=bool(cmd.get("noaction")))
    loaded = [sorted(stack_obj(e, s).getFlavors()) for s in world.stacks]
    view = view_of(world, e)
    state0.update(loaded=loaded, view=view)
    ret, exc = None, None
    try:
        ret = apply_op(world, e, cmd)
    except Exception as ex:  # noqa: the outcome of the command; the events so far still count
        exc = (type(ex).__name__, str(ex)[:300])
    out = {"loaded": loaded, "view": view, "ret": None if ret is None else bool(ret),
           "events": [x for x in events if x], "exc": exc, "calls": calls}
    if msgfile:
        import sys
        sys.stdout.flush()
        sys.stderr.flush()
        with open(msgfile) as fh:
            out["would"] = parse_would(world, fh.read())
    if probe and exc is None:
        out["probe"] = probe(world, e)
    return out


CLI_CLASSES = {
    "declare": ["plain", "two_tags", "tag_and_c", "c_only", "Z_after", "force", "quiet", "verbose", "no_version_tag"],
    "undeclare": ["plain", "U_no_version", "c_only", "Z_after", "force", "quiet", "verbose", "U_without_tag"],
    "unassignTag": ["plain", "U_no_version", "c_only", "Z_after", "force", "quiet", "verbose"],
    "remove": ["plain", "tag_no_version", "tag_only", "Z_after", "force", "quiet", "verbose", "noCheck"],
}


def cli_argv(world, cmd):
    """the command line of a dry run: `eups declare|undeclare|remove -n ...` for a command of the generator
    (`unassignTag` is `eups undeclare -t`); `cmd["cli_class"]` picks an unusual-but-legal or refused combination of
    options (several tags, -c forms, -U without version, -Z after the command word, -F / -q / -v with -n, remove by
    tag); None when the command has no command-line form"""
    op = cmd["op"]
    cls = cmd.get("cli_class") or "plain"
    common_opts = ["-n", "-f", cmd.get("flavor", "Linux")]
    if cmd.get("force") or cls == "force":
        common_opts.append(rng_free_choice(cmd, ["-F", "--force"]))
    if cls == "quiet":
        common_opts.append("-q")
    if cls == "verbose":
        common_opts += ["-v", "-v"]
    if cls == "Z_after":
        # the database option given after the command word: every stack, or one, possibly spelled non-normally
        sel = world.stacks if cmd.get("stack") is None else [world.stacks[cmd["stack"]]]
        common_opts += ["-Z", ":".join(spell_path(s, (cmd.get("spell") or [0, 0])[i % 2]) for i, s in enumerate(sel))]
    elif cmd.get("stack") is not None:
        common_opts += ["-z", os.path.basename(world.stacks[cmd["stack"]])]
    tag = cmd.get("tag")
    other = "stable" if tag != "stable" else "rc-1"
    if op == "declare":
        a = ["declare", cmd["name"]] + ([] if cls == "no_version_tag" else [cmd["version"]])
        if cmd.get("dir") is not None:
            a += ["-r", world.path_of(cmd["dir"])]
        if cls == "two_tags":
            a += ["-t", tag or "current", "-t", other]
        elif cls == "tag_and_c":
            a += ["-t", tag or other, "-c"]
        elif cls == "c_only":
            a += ["-c"]
        elif cls == "no_version_tag":
            a += ["-t", tag or "current"]
        elif tag:
            a += ["-t", tag]
        t = cmd.get("table")
        if t == "none":
            a += ["-m", "none"]
        elif t and t[0] == "path":
            a += ["-m", world.path_of(t[1])]
        elif t and t[0] == "stream":
            f = os.path.join(world.tmp, "cli-stream-%d.table" % t[1])
            with open(f, "w") as fh:
                fh.write(table_text(t[1]))
            a += ["-M", f]
        for path, cid in cmd.get("ext") or []:
            a += ["-L", "%s:%s" % (os.path.join(world.src, "c%d" % cid), path)]
        return a + common_opts
    if op in ("undeclare", "unassignTag"):
        nover = cls == "U_no_version"
        a = ["undeclare", cmd["name"]] + ([cmd["version"]] if cmd.get("version") and not nover else [])
        if cls == "c_only":
            a += ["-c"]
        elif cls == "U_without_tag":
            a += ["-U"]
        elif tag or nover:
            a += ["-t", tag or "current"]
        if cmd.get("vat") or nover:
            a += [rng_free_choice(cmd, ["-U", "--undeclareVersion"])]
        return a + common_opts
    if op == "remove":
        if cls == "tag_only":
            return ["remove", "-t", tag or "current", "--noInteractive"] + common_opts
        a = ["remove", cmd["name"]] + ([] if cls == "tag_no_version" else [cmd["version"]]) + ["--noInteractive"]
        if cls == "tag_no_version":
            a += ["-t", tag or "current"]
        if cls == "noCheck":
            a += ["-N", "-R"]
        return a + (["-R"] if cmd.get("recursive") and cls != "noCheck" else []) + common_opts
    return None


def rng_free_choice(cmd, options):
    """a deterministic pick that depends on the command only (the children have no generator)"""
    return options[len(common.jdump(cmd)) % len(options)]


def _child_cli(world, cmd):
    """The dry run as a user types it: `eups <command> -n ...` through eups.cmd (option parsing, createEups, the
    callbacks, eups.app).  Own EUPS_USERDATA (nobody's caches are touched); everything it prints is parsed for the
    'would do' messages; audit hook and call tracer as for the API commands."""
    msgfile = os.path.join(world.root, ".cli-dry-run-output")
    fd = os.open(msgfile, os.O_WRONLY | os.O_CREAT | os.O_TRUNC, 0o600)
    os.dup2(fd, 1)
    os.dup2(fd, 2)
    os.environ["EUPS_PATH"] = eups_path(world, cmd)
    ud = os.path.join(world.root, "cli-userdata")
    os.makedirs(ud, exist_ok=True)
    os.environ["EUPS_USERDATA"] = ud
    import tempfile
    import sys
    tempfile.tempdir = world.tmp
    if cmd.get("setup"):
        sv, sf, ss = cmd["setup"]
        os.environ["SETUP_" + cmd["name"].upper()] = "%s %s -f %s -Z %s" % (cmd["name"], sv, sf, world.stacks[ss])
    argv = cli_argv(world, cmd)
    events, calls = [], []
    _install_audit(events)
    _install_calltrace(world, calls)
    import eups.cmd
    rc, exc = None, None
    try:
        rc = eups.cmd.EupsCmd(args=list(argv), toolname="eups").run()
    except SystemExit as ex:
        rc = ex.code
    except Exception as ex:  # noqa
        exc = type(ex).__name__
    sys.stdout.flush()
    sys.stderr.flush()
    with open(msgfile) as fh:
        would = parse_would(world, fh.read())
    return {"rc": rc, "exc": exc, "calls": calls, "events": [x for x in events if x], "would": would,
            "argv": [world.canon_path(x) if x.startswith(world.root) else x for x in argv]}


def view_of(world, e):
    """the in-memory stacks of an Eups instance (`ProductStack.lookup`: flavor -> name -> ProductFamily with
    `.versions` and `.tags`), in the canonical form of a listing"""
    decls, tags = [], []
    for si, s in enumerate(world.stacks):
        for fl, names in stack_obj(e, s).lookup.items():
            for n, fam in names.items():
                for v, data in fam.versions.items():
                    decls.append([si, n, v, fl, world.canon_path(data[0]), world.canon_table(n, data[0], data[1], (si, fl, v))])
                for t, v in fam.tags.items():
                    tags.append([si, t, n, fl, v])
    return {"decls": sorted(decls, key=common.jdump), "tags": sorted(tags)}


def run_command(world, cmd, probe=None):
    """Run one command in a fresh forked child; returns (outcome, info)."""
    return outcome_of(common.in_child(_child_command, world, cmd, probe))


def _child_clearcache(world, user):
    """`eups admin clearCache` of one user (the CLI calls eups.app.clearCache(inUserDir=True))"""
    _quiet_fds()
    os.environ["EUPS_PATH"] = ":".join(world.stacks)
    os.environ["EUPS_USERDATA"] = world.uds[user]
    events = []
    _install_audit(events)
    import eups.app
    eups.app.clearCache(inUserDir=True)
    return {"events": [x for x in events if x]}


def _child_adminbuild(world, user, flavor):
    """`eups admin buildCache -A` of one user: the CLI calls eups.app.clearCache(inUserDir=False), then
    Eups(readCache=True, asAdmin=True).  On stacks without ups_db/global.tags the constructor ends with RuntimeError
    ("Group not supported") in _loadServerTags, after the caches have been read or built: that ending is reported,
    not hidden."""
    _quiet_fds()
    os.environ["EUPS_PATH"] = ":".join(world.stacks)
    os.environ["EUPS_USERDATA"] = world.uds[user]
    events = []
    _install_audit(events)
    import eups.app
    import importlib
    E = importlib.import_module("eups.Eups")
    eups.app.clearCache(inUserDir=False)
    exc = None
    try:
        E.Eups(readCache=True, asAdmin=True, flavor=flavor, quiet=1)
    except RuntimeError as ex:
        exc = str(ex)[:200]
    return {"events": [x for x in events if x], "exc": exc}


def _child_read(world):
    """Fresh reader through eups.db.Database only (no Eups instance, hence no cache traffic)."""
    _quiet_fds()
    from eups.db import Database
    decls, tags = [], []
    for si, s in enumerate(world.stacks):
        db = Database(os.path.join(s, "ups_db"))
        for n in sorted(db.findProductNames()):
            for p in db.findProducts(n):
                decls.append([si, p.name, p.version, p.flavor, world.canon_path(p.dir),
                              world.canon_table(p.name, p.dir, p.tablefile, (si, p.flavor, p.version))])
            for t, v, f in db.getTagAssignments(n):
                tags.append([si, t, n, f, v])
    return {"decls": sorted(decls, key=common.jdump), "tags": sorted(tags)}


def read_db(world):
    r = common.in_child(_child_read, world)
    if r[0] != "ok":
        return {"error": list(r[:3])}
    return r[1]


def listing_from_files(world, parsed):
    """The declarations and tags implied by the raw files (paths resolved the way a reader must)."""
    decls, tags = [], []
    for si, n, v, groups in parsed["vfiles"]:
        for f, pd, ud, tf in groups:
            if pd is None or pd == "none":
                d = None
            elif os.path.isabs(pd):
                d = world.canon_path(pd)
            else:
                d = [si, pd]
            if tf is None or tf == "none":
                t = "none"
            elif d is not None and (ud or "none") == "ups" and tf == n + ".table":
                t = "default"
            else:
                # UPS_DIR: relative to the directory, `$UPS_DB` = the database directory of the stack; TABLE_FILE: relative
                # to UPS_DIR, else (records that store it relative to the stack) to the stack
                dabs = world.path_of(d) if isinstance(d, list) else d
                u = ud if ud and ud != "none" else None
                if u and u.startswith("$UPS_DB"):
                    u = os.path.join(world.stacks[si], "ups_db") + u[len("$UPS_DB"):]
                elif u and not os.path.isabs(u) and dabs:
                    u = os.path.join(dabs, u)
                if os.path.isabs(tf):
                    tabs = tf
                else:
                    tabs = os.path.join(u or dabs or "", tf)
                    if not os.path.exists(tabs) and os.path.exists(os.path.join(world.stacks[si], tf)):
                        tabs = os.path.join(world.stacks[si], tf)
                t = world.canon_table(n, dabs, tabs, (si, f, v))
            decls.append([si, n, v, f, d, t])
    for si, n, t, groups in parsed["cfiles"]:
        for f, v in groups:
            tags.append([si, t, n, f, v])
    return {"decls": sorted(decls, key=common.jdump), "tags": sorted(tags)}


# --------------------------------------------------------------------------------------------------
# histories: generator, real-code runner, model bridge
# --------------------------------------------------------------------------------------------------

def rel_of(f, n, v):
    return "%s/%s/%s" % (f, n, v)


def gen_history(rng, ncmds, users=("A",), crash=0.0, rmcache=0.0, query=0.0, noaction=0.08, direct_tag=0.12,
                remove=0.03, ext=0.08, tables=0.06, envrm=0.015, restream=0.03):
    """A history weighted toward the order-sensitive patterns: few product names, tag - undeclare -
    redeclare, two flavors in one version file, the same product in both stacks."""
    names = rng.sample(NAMES, rng.choice([1, 1, 2, 3]))
    vers = rng.sample(VERS, rng.choice([2, 3, 3]))
    missing = []
    if rng.random() < 0.3:
        for d in all_dirs():
            if rng.random() < 0.12:
                missing.append(d)
    pgen = rng.choice([0.1, 0.3, 0.5])
    cmds = []
    known = []           # (name, version, flavor) the generator believes declared (a guess, only to aim commands)
    for _ in range(ncmds):
        user = rng.choice(users)
        r = rng.random()
        if r < rmcache:
            r3 = rng.random()
            if r3 < 0.2:
                cmds.append({"op": "clearcache", "user": rng.choice(users)})
            elif r3 < 0.5:                                   # eups admin buildCache -A: the cache inside ups_db/
                cmds.append({"op": "adminbuild", "user": rng.choice(users), "flavor": "generic" if rng.random() < 0.15 else "Linux"})
            else:
                cmds.append({"op": "rmcache", "user": rng.choice(list(users) + [SYS]), "stack": rng.randrange(NSTACKS),
                             "flavor": rng.choice(FLAVS)})
            continue
        if rng.random() < envrm:
            cmds.append({"op": "envrmdir", "dir": rng.choice(all_dirs())})
            continue
        f = "generic" if rng.random() < pgen else "Linux"
        if rng.random() < restream:
            # a table given as a stream for a (product, version, flavor) that was interned before with OTHER content:
            # after an undeclare, or with force
            n, v, si = rng.choice(names), rng.choice(vers), rng.randrange(NSTACKS)
            a, b = (STREAMS[0], STREAMS[1]) if rng.random() < 0.5 else (STREAMS[1], STREAMS[0])
            base = {"user": user, "flavor": f, "name": n, "op": "declare", "version": v, "stack": None, "tag": None,
                    "dir": [si, rel_of(f, n, v)]}
            cmds.append(dict(base, table=["stream", a], force=True))
            if rng.random() < 0.5:
                cmds.append({"user": user, "flavor": f, "name": n, "op": "undeclare", "version": v, "stack": None,
                             "tag": None, "vat": False})
                cmds.append(dict(base, user=rng.choice(users), table=["stream", b]))
            else:
                cmds.append(dict(base, user=rng.choice(users), table=["stream", b], force=True))
            if (n, v, f) not in known:
                known.append((n, v, f))
            continue
        if r < rmcache + query:
            cmds.append({"op": "query", "user": user, "flavor": f})
            continue
        n, v, t = rng.choice(names), rng.choice(vers), rng.choice(GEN_TAGS)
        si = rng.randrange(NSTACKS)
        stack = rng.randrange(NSTACKS) if rng.random() < 0.15 else None
        kind = rng.choice(["declare"] * 5 + ["declare_tag"] * 3 + ["tag_only"] * 3 + ["conflict"] * 2 +
                          ["undeclare"] * 4 + ["undeclare_nov", "untag", "untag", "untag_nov", "vat", "vat_nov"] +
                          (["assign", "assign", "unassign", "unassign_nov"] if rng.random() < direct_tag * 4 else []))
        if rng.random() < remove:
            kind = "remove"
        if known and kind not in ("declare", "declare_tag") and rng.random() < 0.75:
            n, v, kf = rng.choice(known)
            if rng.random() < 0.85:
                f = kf
        c = {"user": user, "flavor": f, "name": n}
        if kind in ("declare", "declare_tag", "tag_only", "conflict"):
            c.update(op="declare", version=v, stack=stack, tag=None, dir=None)
            if kind != "tag_only" or rng.random() < 0.15:
                fd = f if rng.random() < 0.9 else rng.choice(FLAVS)
                dv = v if kind != "conflict" else rng.choice([x for x in VERS if x != v])
                dn = n if rng.random() < 0.97 else rng.choice(NAMES)
                c["dir"] = [si, rel_of(fd, dn, dv)]
                if rng.random() < 0.03:
                    c["dir"] = [NSTACKS, "nowhere/%s/%s" % (n, v)]
            if kind in ("declare_tag", "tag_only") or (kind == "conflict" and rng.random() < 0.4):
                c["tag"] = t
            r2 = rng.random()
            if r2 < 0.1:
                c["table"] = "none"
            elif r2 < 0.1 + tables:                         # -m <path>: a table file kept elsewhere, or the interned one
                if rng.random() < 0.75:
                    c["table"] = ["path", rng.choice(TFILES)[0]]
                else:
                    c["table"] = ["path", [si if stack is None else stack, interned_rel(f, n, rng.choice([v, v, rng.choice(VERS)]))]]
            elif r2 < 0.1 + 2 * tables:                     # -M: the table as a stream
                c["table"] = ["stream", rng.choice(STREAMS)]
            if rng.random() < 0.12:
                c["force"] = True
            if rng.random() < ext:
                c["ext"] = [[p, rng.choice([1, 2])] for p in rng.sample(["doc/a.txt", "b.cfg", "doc/c.txt", "ups/d.cfg"], rng.choice([1, 1, 2]))]
            if (n, v, f) not in known:
                known.append((n, v, f))
        elif kind in ("undeclare", "undeclare_nov", "untag", "untag_nov", "vat", "vat_nov"):
            c.update(op="undeclare", version=None if kind.endswith("_nov") else v, stack=stack,
                     tag=t if kind in ("untag", "untag_nov", "vat", "vat_nov") else None,
                     vat=kind in ("vat", "vat_nov"))
            if kind in ("undeclare", "undeclare_nov", "vat") and rng.random() < 0.1:
                c["setup"] = [v if rng.random() < 0.8 else rng.choice(VERS), f if rng.random() < 0.7 else rng.choice(FLAVS),
                              rng.randrange(NSTACKS)]
                if rng.random() < 0.3:
                    c["force"] = True
            if kind in ("undeclare", "vat") and (n, v, f) in known and rng.random() < 0.8:
                known.remove((n, v, f))
        elif kind == "remove":
            c.update(op="remove", version=v)
            if rng.random() < 0.3:
                c["recursive"] = True
            if rng.random() < 0.1:
                c["setup"] = [v, f if rng.random() < 0.7 else rng.choice(FLAVS), rng.randrange(NSTACKS)]
                if rng.random() < 0.3:
                    c["force"] = True
            if (n, v, f) in known and rng.random() < 0.8:
                known.remove((n, v, f))
        elif kind == "assign":
            c.update(op="assignTag", tag=t, version=v, stack=stack)
        else:
            c.update(op="unassignTag", tag=t, version=None if kind.endswith("_nov") else v, stack=stack)
        if c["op"] != "assignTag" and rng.random() < noaction:
            c["noaction"] = True
        if crash and c["op"] != "query" and not c.get("noaction") and rng.random() < crash:
            if rng.random() < 0.4:
                c["crash_before"] = rng.choice([1, 1, 2, 2, 3])      # killed at the entry of the j-th Database mutation
            else:
                c["crash"] = rng.choice([1, 1, 1, 2, 2, 3])
        cmds.append(c)
    return {"missing": missing, "cmds": cmds}


def _crash_interposer(cmd, world, events, state0):
    """In the child: die right after the k-th top-level Database mutation returns (between the database
    update and the cache update).  Module attribute replacement only."""
    import json
    k = cmd.get("crash")
    kb = cmd.get("crash_before")
    if not k and not kb:
        return
    import importlib
    D = importlib.import_module("eups.db.Database")
    state = {"depth": 0, "count": 0, "entered": 0}

    def die():
        with open(os.path.join(world.root, EVENT_FILE), "w") as fh:
            json.dump({"events": [x for x in events if x], "loaded": state0.get("loaded"),
                       "view": state0.get("view"), "calls": state0.get("calls")}, fh)
        os._exit(17)

    def wrap(fn):
        def w(self, *a, **kw):
            if state["depth"] == 0:
                state["entered"] += 1
                if kb and state["entered"] == kb:      # killed at the entry of the kb-th top-level Database mutation
                    die()
            state["depth"] += 1
            try:
                return fn(self, *a, **kw)
            finally:
                state["depth"] -= 1
                if state["depth"] == 0:
                    state["count"] += 1
                    if state["count"] == k:
                        with open(os.path.join(world.root, EVENT_FILE), "w") as fh:
                            json.dump({"events": [x for x in events if x], "loaded": state0.get("loaded"),
                                       "view": state0.get("view"), "calls": state0.get("calls")}, fh)
                        os._exit(17)
        return w
    for m in ("declare", "undeclare", "assignTag", "unassignTag"):
        setattr(D._Database, m, wrap(getattr(D._Database, m)))


def run_history(case, hash_noaction=True, probe=None, world_hook=None):
    """Run a history on the real code.  Returns one record per command:
    {"out", "loaded", "db": reader listing, "files": listing from the raw files, "raw_other", "hash_same"}."""
    w = World(missing=case.get("missing", ()))
    steps = []
    try:
        for cmd in case["cmds"]:
            rec = {}
            events = None
            if cmd["op"] == "rmcache":
                p = w.cache_file(cmd["user"], cmd["stack"], cmd["flavor"])
                rec["out"] = "ok"
                if os.path.exists(p):
                    os.remove(p)
            elif cmd["op"] == "clearcache":
                r = common.in_child(_child_clearcache, w, cmd["user"])
                rec["out"] = "ok" if r[0] == "ok" else "Other:%s" % (r[1],)
                if r[0] == "ok":
                    events = r[1]["events"]
                rec["caches_left"] = sorted(k for k in w.cache_state() if k.startswith(cmd["user"] + "/"))
            elif cmd["op"] == "envrmdir":                     # somebody deletes an installation directory by hand
                p = w.path_of(cmd["dir"])
                rec["out"] = "ok"
                if os.path.isdir(p):
                    common.rmtree(p)
            elif cmd["op"] == "live2":
                r = common.in_child(_child_live2, w, cmd)
                if r[0] == "ok":
                    events = r[1]["events"]
                    rec["out"] = "ok"
                    rec["live"] = {"outs": r[1]["outs"], "loaded": r[1]["loaded"], "views": r[1]["views"]}
                else:
                    rec["out"] = "Other:%s" % (list(r[:3]),)
            elif cmd["op"] == "race":
                r = common.in_child(_child_race, w, cmd)
                if r[0] == "ok":
                    events = r[1]["events"]
                    rec["out"] = "ok"
                    rec["race"] = {k: r[1][k] for k in ("a", "b", "fired", "loaded")}
                else:
                    rec["out"] = "Other:%s" % (list(r[:3]),)
            elif cmd["op"] == "adminbuild":
                r = common.in_child(_child_adminbuild, w, cmd["user"], cmd.get("flavor", "Linux"))
                ok = r[0] == "ok" and (r[1]["exc"] is None or r[1]["exc"].startswith("Group not supported"))
                rec["out"] = "ok" if ok else "Other:%s" % (r[1],)
                if r[0] == "ok":
                    events = r[1]["events"]
                rec["sys_caches"] = sorted(k for k in w.cache_state() if k.startswith(SYS + "/"))
            else:
                h0 = w.tree_hash() if (hash_noaction and cmd.get("noaction")) else None
                c = dict(cmd)
                if c.get("crash") or c.get("crash_before"):
                    c["interpose"] = _crash_interposer
                out, info = run_command(w, c, probe)
                if out == "Died" and (cmd.get("crash") or cmd.get("crash_before")) and os.WIFEXITED(info) and os.WEXITSTATUS(info) == 17:
                    out, info = "Crashed", None
                    ef = os.path.join(w.root, EVENT_FILE)
                    with open(ef) as fh:
                        saved = json.load(fh)
                    os.remove(ef)
                    events = saved["events"]
                    rec["loaded"], rec["view"] = saved["loaded"], saved["view"]
                    if saved.get("calls") is not None:
                        rec["calls"] = saved["calls"]
                rec["out"] = out
                if isinstance(info, dict):
                    events = info.get("events")
                    if "loaded" in info:
                        rec["loaded"] = info["loaded"]
                        rec["view"] = info.get("view")
                    if "would" in info:
                        rec["would"] = info["would"]
                    if "calls" in info:
                        rec["calls"] = info["calls"]
                    if cmd.get("noaction"):
                        rec["dry_writes"] = writes_under_stacks(w.stacks, events)
                    if "probe" in info:
                        rec["probe"] = info["probe"]
                    if info.get("detail") and out.startswith("Other"):
                        rec["detail"] = info["detail"]
                elif info is not None:
                    rec["detail"] = str(info)[:300]
                if h0 is not None:
                    h1 = w.tree_hash()
                    rec["hash_same"] = (h0[0] == h1[0])
                    if not rec["hash_same"]:
                        rec["hash_diff"] = sorted(set(h0[1]) ^ set(h1[1]))[:10]
                    if cmd.get("cli") and cli_argv(w, cmd):        # the same dry run through the command line
                        r = common.in_child(_child_cli, w, cmd)
                        if r[0] == "ok":
                            h2 = w.tree_hash()
                            rec["cli"] = {"rc": r[1]["rc"], "exc": r[1]["exc"], "calls": r[1]["calls"], "would": r[1]["would"],
                                          "argv": r[1]["argv"], "writes": writes_under_stacks(w.stacks, r[1]["events"], ignore_locks=True),
                                          "locks": sum(1 for x in r[1]["events"] if "/.lockDir/" in x),
                                          "hash_same": h1[0] == h2[0],
                                          "hash_diff": sorted(set(h1[1]) ^ set(h2[1]))[:10]}
                        else:
                            rec["cli"] = {"died": [str(x)[:200] for x in r[:3]]}
            w.normalise(events)
            rec["db"] = read_db(w)
            parsed = w.parse_files()
            rec["files"] = listing_from_files(w, parsed)
            rec["raw"] = {"vfiles": [[si, n, v, [g[0] for g in groups]] for si, n, v, groups in parsed["vfiles"]],
                          "cfiles": [[si, n, t, [g[0] for g in groups]] for si, n, t, groups in parsed["cfiles"]],
                          "other": parsed["other"]}
            rec["extras"] = parsed["extras"]
            if world_hook:
                world_hook(w, cmd, rec)
            steps.append(rec)
    finally:
        w.close()
    return steps


UID = {SYS: 0, "A": 1, "B": 2}          # 0 = Cache.sysUser: the cache directory inside ups_db/


def model_request(case, pinned=False, m="c06"):
    dirs = [[si, rel, rel.split("/")[1]] for si, rel in all_dirs() if [si, rel] not in case.get("missing", [])]
    cmds = []
    for c in case["cmds"]:
        if c["op"] in ("live2", "race"):
            break       # two live instances / two unserialised writers are outside the model: it answers for the prefix only
        if c["op"] == "rmcache":
            cmds.append({"op": "rmcache", "user": UID[c["user"]], "stack": c["stack"], "flavor": c["flavor"]})
            continue
        if c["op"] == "clearcache":
            cmds.append({"op": "clearcache", "user": UID[c["user"]]})
            continue
        if c["op"] == "adminbuild":
            cmds.append({"op": "adminbuild", "user": UID[c["user"]], "self": c.get("flavor", "Linux")})
            continue
        if c["op"] == "envrmdir":
            cmds.append({"op": "envrmdir", "dir": c["dir"]})
            continue
        d = {"op": c["op"], "user": UID[c.get("user", "A")], "self": c.get("flavor", "Linux")}
        for k in ("name", "version", "dir", "stack", "tag", "force", "noaction", "vat", "crash", "recursive", "setup", "ext",
                  "table"):
            if k in c:
                d[k] = c[k]
        if c.get("crash_before"):
            d["crash"] = 100 + c["crash_before"]          # Cache.killBase + j
        cmds.append(d)
    return {"m": m, "nst": NSTACKS, "dirs": dirs, "tfiles": TFILES, "pinned": pinned, "cmds": cmds}


def canon_spec(js):
    return {"decls": sorted(js["decls"], key=common.jdump), "tags": sorted(js["tags"])}


def model_steps(ans):
    if "bad-op" in ans:
        raise common.InfraError("model driver: %s" % ans["bad-op"])
    out = []
    for st in ans["steps"]:
        fl = st.get("files") or {"vfiles": [], "cfiles": [], "abs": {"decls": [], "tags": []}}
        out.append({"out": st["out"], "crashed": st["crashed"], "loaded": [sorted(x) for x in st["flavs"]],
                    "db": canon_spec(st["db"]), "view": canon_spec(st["view"]), "trace": st["trace"],
                    "caches": st["caches"], "would": st.get("would", []), "extras": sorted(st.get("extras", [])),
                    "raw": {"vfiles": sorted(fl["vfiles"]), "cfiles": sorted(fl["cfiles"])},
                    "files_abs": canon_spec(fl["abs"])})
    return out
