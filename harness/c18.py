"""C18 — distribution manifests and tag lists round-trip and keep install order; remap.

Implementation: eups.distrib.server.Manifest / TaggedProductList / Mapping / Dependency, run in process on files under
the harness scratch directory.
Model: lean/EupsModel/Model/Manifest.lean through the driver handler "c18".

Four kinds of case
  manifest  a dependency list (length 0-30, mixed flavors, optional entries, missing table / directory / distId,
            ~12 % with fields that are empty or contain blanks) written by Manifest.write (noOptional, flavor=) and read
            back by Manifest.read                -> file text and read-back list = model's; oracle (ii): field-wise
            round trip computed from the generated list
  taglist   addProduct sequence, TaggedProductList.write (flavor=) and fromFile (reader's flavor)
                                                 -> file text and getProducts() = model's; oracle (ii): same set,
            same order (D14: the writer sorts)
  mapping   Mapping.add sequence, apply queries, inverse()
                                                 -> table dump, answers, inverse = model's; oracle (ii): for a
            one-to-one table of explicit versions the inverse undoes every entry
  server    mixed-flavor tagged releases written into a directory (DefaultDistrib.writeTaggedRelease or
            TaggedProductList.write) and read back through ONE DistribServer object by a history of
            getTaggedProductList / getTaggedProductInfo / getTagNamesFor requests for several flavors in varying order
                                                 -> answers = model's (cache keyed by (tag, flavor)); oracle (ii): every
            answer is the per-flavor filter of the written list, whatever was asked before
  remap     manifest.remap files in the customisation directories + a Mapping argument, Manifest.remapEntries
                                                 -> resulting list = model's; oracle (ii): entries no rule names are
            untouched and in order, named ones are replaced / renamed / deleted as the rule says"""
import json
import os
import re
import string

from . import common
from .common import parallel_map

RULE = ("cases = dependency lists written and read back through Manifest, addProduct sequences through "
        "TaggedProductList, Mapping.add sequences with apply / inverse queries, manifest.remap files applied by "
        "remapEntries, mixed-flavor releases served by one DistribServer object to a history of requests; a case is non-trivial when the list has at least one entry (manifest, taglist), a query is "
        "changed by the table (mapping) or an entry is named by a rule (remap); distinct = distinct case digests")
TRUSTED = ["CPython `re` on the header patterns and `\\S+` (hand-translated, exercised on every run), `sorted` on str, "
           "`%-15s` formatting, text-mode newline translation on read"]
ASSUMPTIONS = ["oracle (ii) is evaluated on token-clean lists (every field a non-empty word without white space, product "
               "names not starting with '#'); the reserved words of the format (none, None, search as distribution id) "
               "are not used as genuine values",
               "a missing table file or directory is written `none` and read back as the text `none`: identified",
               "in a tag list `generic` stands for the reader's flavor and entries of other flavors are not the reader's",
               "the `dummy` branch of remapEntries is observed by listing the scratch stack afterwards (set of products at version "
               "dummy), not by the order of the declare calls"]

NATIVE = "Linux"
FLAVORS = ["Linux", "Linux64", "DarwinX86", "generic"]
WORDCH = string.ascii_letters + string.digits + "._-+:/=@,()[]{}%^~!*?<>|&;$'\"\\#"
RESERVED = ("none", "None", "search", "dummy", "")


# ---- generators ------------------------------------------------------------------------------------

def gen_word(rng, lo=1, hi=10, first_ok=None):
    while True:
        n = rng.randint(lo, hi)
        w = "".join(rng.choice(WORDCH) for _ in range(n))
        if rng.random() < 0.03:
            w += rng.choice(["é", "Ω", "中"])
        if w in RESERVED or w.startswith("#") or w.startswith("["):
            continue
        return w


def gen_name(rng):
    if rng.random() < 0.7:
        return rng.choice(["afw", "python", "tcltk", "doxygen", "numpy", "boost", "cfitsio", "sconsUtils", "base", "utils",
                           "daf_base", "pex", "eigen", "fftw", "gsl", "wcslib", "minuit2", "xpa", "swig", "scons"])
    return gen_word(rng, 1, 24)


def gen_version(rng):
    if rng.random() < 0.7:
        return rng.choice(["1.0", "2.1", "3.4.5", "1.0+1", "v7_2", "svn1234", "2.6.2", "1.5.9", "1.6.3", "8.5a", "any1"])
    return gen_word(rng, 1, 12)


def dirty(rng, w):
    r = rng.random()
    if r < 0.3:
        return ""
    if r < 0.7:
        i = rng.randint(0, len(w))
        return w[:i] + rng.choice([" ", "\t", "  ", "\r", "\x0b", "\xa0", "\x85", " ", "\n"]) + w[i:]
    if r < 0.85:
        return "#" + w
    return rng.choice(["none", "None", "search", " "])


def gen_dep(rng, is_dirty):
    d = {"product": gen_name(rng), "version": gen_version(rng),
         "flavor": rng.choice(FLAVORS + [None, None, ""]),
         "tablefile": rng.choice([None, None, "", "none"]) if rng.random() < 0.3 else gen_word(rng, 3, 30) + ".table",
         "instDir": rng.choice([None, None, "", "none"]) if rng.random() < 0.3 else "/".join(gen_word(rng, 1, 8) for _ in range(rng.randint(1, 4))),
         "distId": (None if rng.random() < 0.85 else "search") if rng.random() < 0.3 else gen_word(rng, 3, 20),
         "isOpt": rng.random() < 0.2, "recurse": rng.random() < 0.2,
         "extra": [gen_word(rng) for _ in range(rng.randint(1, 2))] if rng.random() < 0.1 else []}
    if is_dirty:
        k = rng.choice(["product", "version", "flavor", "tablefile", "instDir", "distId"])
        d[k] = dirty(rng, d[k] or "x")
    return d


def gen_manifest(rng):
    is_dirty = rng.random() < 0.12
    n = rng.choice([0, 1, 2, 3, 5, 8, 13, 21, 30]) if rng.random() < 0.5 else rng.randint(0, 30)
    deps = [gen_dep(rng, is_dirty and rng.random() < 0.3) for _ in range(n)]
    product = gen_name(rng) if rng.random() < 0.9 else None
    version = gen_version(rng) if rng.random() < 0.9 else None
    if is_dirty and rng.random() < 0.2:
        product = dirty(rng, product or "p")
    if is_dirty and rng.random() < 0.2:
        version = dirty(rng, version or "1") if rng.random() < 0.6 else rng.choice(["1)", "1).", "1).x", ")", "a)b", "1) "])
    return {"kind": "manifest", "product": product, "version": version, "deps": deps,
            "noOptional": rng.random() < 0.5, "flavor": rng.choice([None, None, None, "", "Linux64", "generic"]),
            "recurse": rng.choice([None, None, True, False])}


def gen_taglist(rng):
    is_dirty = rng.random() < 0.1
    def_flavor = rng.choice([None, "Linux", "Linux64", "generic"])
    adds = []
    names = [gen_name(rng) for _ in range(rng.randint(0, 12))]
    style = rng.random()
    if style < 0.3:
        names = sorted(set(names))                 # added in sorted order: the order clause holds
    for nme in names:
        a = {"product": nme, "version": gen_version(rng),
             "flavor": rng.choice([None, None, def_flavor or "generic", "Linux", "Linux64", "generic"]),
             "extra": [gen_word(rng) for _ in range(rng.randint(1, 2))] if rng.random() < 0.15 else []}
        if is_dirty and rng.random() < 0.3:
            k = rng.choice(["product", "version", "flavor"])
            a[k] = dirty(rng, a[k] or "x")
        adds.append(a)
    if adds and rng.random() < 0.3:                # re-adding updates the information, keeps the position
        a = dict(rng.choice(adds))
        a["version"] = gen_version(rng)
        adds.append(a)
    tag = rng.choice(["current", "stable", "beta", "w_2012_10"])
    if rng.random() < 0.2:          # release names are free text: dots, pluses, parentheses (the header pattern is built from them)
        tag = rng.choice(ODD_TAGS)
    c = {"kind": "taglist", "tag": tag, "defFlavor": def_flavor,
         "adds": adds, "writeFlavor": rng.choice([None, None, None, "Linux", "generic"]),
         "readFlavor": rng.choice([def_flavor, def_flavor, None, "Linux", "Linux64", "generic"])}
    if rng.random() < 0.12:         # a reader that expects another tag: the header names the tag and must be checked
        other = {"v1.0": "v1x0", "v1x0": "v1.0", "w.2012.10": "w_2012_10", "a|b": "a", "x*": "x", "q?": "q"}
        c["readTag"] = other.get(tag) or rng.choice(["current", "stable", "v1.0", "beta2"])
        if c["readTag"] == tag:
            del c["readTag"]
    return c


ODD_TAGS = ["v1.0", "v1x0", "c++", "gcc4.8+boost", "rel(1)", "x*", "b[1]", "q?", "a|b", "w.2012.10", "rc^2", "pay$", "{x}"]


def gen_server(rng):
    """One or two tagged releases with entries of several flavors; a history of requests to one server object."""
    tags = rng.sample(["current", "stable", "beta"], rng.randint(1, 2))
    rel = {}
    for tag in tags:
        def_flavor = rng.choice([None, "Linux", "generic"])
        names = sorted(set(gen_name(rng) for _ in range(rng.randint(1, 8))))
        if rng.random() < 0.6:
            rng.shuffle(names)
        adds = [{"product": nme, "version": gen_version(rng),
                 "flavor": rng.choice(["Linux", "Linux64", "DarwinX86", "generic", None]),
                 "extra": [gen_word(rng)] if rng.random() < 0.1 else []} for nme in names]
        rel[tag] = {"defFlavor": def_flavor, "adds": adds, "writeFlavor": None if rng.random() < 0.9 else rng.choice(["Linux", "generic"]),
                    "via": rng.choice(["distrib", "direct"])}
    flavors = ["Linux", "Linux64", "DarwinX86", "generic", None]
    reqs = []
    for _ in range(rng.randint(2, 9)):
        tag = rng.choice(tags + (["absent"] if rng.random() < 0.05 else []))
        fl = rng.choice(flavors)
        k = rng.random()
        prods = [a["product"] for a in rel.get(tag, {"adds": []})["adds"]] + ["unlisted"]
        if k < 0.5:
            reqs.append({"op": "list", "tag": tag, "flavor": fl})
        else:
            p = rng.choice(prods)
            vs = [a["version"] for a in rel.get(tag, {"adds": []})["adds"] if a["product"] == p] + ["0.0"]
            reqs.append({"op": "info" if k < 0.8 else "tagsfor", "tag": tag, "flavor": fl, "product": p,
                         "version": rng.choice(vs)})
    if rng.random() < 0.7 and tags:
        # the order-sensitive pattern: the same tag asked for every flavor, in a random order, then once more
        t = rng.choice(tags)
        fs = flavors[:]
        rng.shuffle(fs)
        reqs += [{"op": "list", "tag": t, "flavor": f} for f in fs] + [{"op": "list", "tag": t, "flavor": fs[0]}]
    return {"kind": "server", "releases": rel, "reqs": reqs}


def gen_mapping(rng):
    prods = [gen_name(rng) for _ in range(rng.randint(1, 5))]
    vers = ["1.0", "2.0", "3.0", "any"]
    flav = [rng.choice(["generic", "generic", NATIVE, "Linux64"])] if rng.random() < 0.5 else ["generic", NATIVE, "Linux64"]
    style = rng.random()
    adds = []
    if style < 0.45:
        # one-to-one table of explicit versions in one flavor: distinct inputs, distinct outputs
        f = flav[0]
        ins, outs = set(), set()
        for _ in range(rng.randint(1, 6)):
            i = (rng.choice(prods), rng.choice(vers[:3]))
            o = (rng.choice(prods + ["other", "dummy2"]), rng.choice(["1.0", "2.0", "3.0", "4.0"]))
            if i in ins or o in outs:
                continue
            ins.add(i)
            outs.add(o)
            adds.append({"inP": i[0], "inV": i[1], "outP": o[0] if rng.random() < 0.8 or o[0] != i[0] else None, "outV": o[1],
                         "flavor": f, "overwrite": True})
        kind = "bijective"
    else:
        for _ in range(rng.randint(0, 8)):
            r = rng.random()
            outv = rng.choice(["1.0", "2.0", "4.0", None, None, "", "noreinstall", "NoReinstall"])
            adds.append({"inP": rng.choice(prods), "inV": rng.choice(vers), "outP": rng.choice(prods + [None, None, "", "other"]),
                         "outV": outv, "flavor": rng.choice(flav), "overwrite": rng.random() < 0.8})
        kind = "free"
    queries = [[rng.choice(prods + ["other", "unmapped"]), rng.choice(vers[:3] + ["4.0"]), rng.choice(flav + ["generic", NATIVE])]
               for _ in range(rng.randint(1, 8))]
    if kind == "bijective":
        queries += [[a["inP"], a["inV"], a["flavor"]] for a in adds]
    return {"kind": "mapping", "style": kind, "adds": adds, "queries": queries}


DISTRIB_TYPES = ["tarball", "tarball", "builder", "pacman", "eupspkg"]


def gen_distwrite(rng):
    """A manifest with MIXED FLAVORS (generic dependencies among binaries of the repository's flavor) handed to
    Repository.create(<distrib type>, top, version, nodepend=True, manifest=FILE): the distrib type's writeManifest deploys
    it into a scratch server directory (Repository.create always passes flavor=self.flavor by keyword) and it is read back."""
    flavor = rng.choice(["Linux", "Linux64", "DarwinX86"])
    deps = []
    for nm in sorted(set(n for n in (gen_name(rng) for _ in range(rng.randint(1, 7))) if re.match(r"^[A-Za-z][A-Za-z0-9_]*$", n) and n != "top")):
        v = rng.choice(["1.0", "2.1", "3.0+1"])
        deps.append({"product": nm, "version": v, "flavor": rng.choice([flavor, flavor, "generic", "generic", "Linux64"]),
                     "tablefile": rng.choice(["none", "%s.table" % nm]), "instDir": rng.choice(["none", "%s/%s/%s" % (flavor, nm, v)]),
                     "distId": "%s-%s.tar.gz" % (nm, v), "isOpt": rng.random() < 0.15, "recurse": False, "extra": []})
    if rng.random() < 0.5:
        rng.shuffle(deps)
    top = {"product": "top", "version": "1.0", "flavor": flavor, "tablefile": "none", "instDir": "none", "distId": None,
           "isOpt": False, "recurse": False, "extra": []}
    return {"kind": "distwrite", "type": rng.choice(DISTRIB_TYPES), "flavor": flavor, "deps": deps + [top]}


def _distwrite_child(c):
    import importlib
    from eups.distrib import server
    from eups.distrib.Repository import Repository
    root = common.scratch("c18dw")
    try:
        stacks, _ = common.mkstacks(root, default_product=True)
        os.environ["EUPS_DIR"] = common.REPO
        os.dup2(os.open(os.devnull, os.O_WRONLY), 2)        # the packagers run shell commands that chat on fd 2
        E = common.new_eups(flavor=c["flavor"])
        d = common.mkprod(stacks[0], "top", "1.0", "", flavor=c["flavor"])
        E.declare("top", "1.0", d, tag="current")
        E = common.new_eups(flavor=c["flavor"])
        null = open(os.devnull, "w")
        manpath = os.path.join(root, "in.manifest")
        m = server.Manifest("top", "1.0", E, verbosity=-1, log=null)
        for x in c["deps"]:
            m.addDependency(x["product"], x["version"], x["flavor"], x["tablefile"], x["instDir"], x["distId"], x["isOpt"])
        m.write(manpath, noOptional=False)
        pkgroot = os.path.join(root, "server")
        os.makedirs(pkgroot)
        if c["type"] == "eupspkg":
            # creating an eupspkg package needs an installed eups (lib/eupspkg.sh, bin/setups.sh): only its package is stubbed
            ep = importlib.import_module("eups.distrib.eupspkg")
            ep.Distrib.createPackage = lambda self, serverDir, product, version, flavor=None, overwrite=False: \
                "eupspkg:%s-%s.eupspkg" % (product, version)
        repo = Repository(E, pkgroot, flavor=c["flavor"], verbosity=-1, log=null)
        import contextlib, io
        try:
            with contextlib.redirect_stderr(io.StringIO()), contextlib.redirect_stdout(io.StringIO()):
                repo.create(c["type"], "top", "1.0", nodepend=True, manifest=manpath, options={"allowIncomplete": True})
        except Exception as e:  # noqa
            return {"error": "create:" + type(e).__name__ + ":" + str(e)[:200]}
        mans = [os.path.join(dp, f) for dp, _, fn in os.walk(pkgroot) for f in fn if f.endswith(".manifest")]
        if len(mans) != 1:
            return {"error": "manifests deployed: %r" % [os.path.relpath(x, pkgroot) for x in mans]}
        try:
            r = server.Manifest.fromFile(mans[0], E, verbosity=-1)
        except Exception as e:  # noqa
            return {"error": "read:" + exc_name(e)}
        return {"deps": [dep_dict(x) for x in r.getProducts()], "path": os.path.relpath(mans[0], pkgroot).replace(root, "$S")}
    finally:
        common.rmtree(root)


def impl_distwrite(c):
    r = common.in_child(_distwrite_child, c, _timeout=180)
    return r[1] if r[0] == "ok" else {"error": "CHILD:" + str(r[1:3])}


def oracle_distwrite(c, io_):
    """Same products in the same order with the same version, directory and distribution id (the product being packaged gets
    the id of the package just created); table files are the deployed copies' names; and every entry keeps ITS OWN flavor
    when the tarball type writes (it forces flavor=None).  The other types forward Repository.create's flavor= to
    Manifest.write, whose documented effect is to set every entry's flavor to it - reading adopted, see the notes."""
    if "deps" not in io_:
        yield ("distrib_manifest_reads_back", None, "%s: %s" % (c["type"], io_.get("error")))
        return
    got = io_["deps"]
    if [(x["product"], x["version"]) for x in got] != [(x["product"], x["version"]) for x in c["deps"]]:
        yield ("manifest_same_order", None, "%s: written %r, read back %r" % (c["type"], [x["product"] for x in c["deps"]], [x["product"] for x in got]))
        return
    for w, g in zip(c["deps"], got):
        want_fl = w["flavor"] if c["type"] == "tarball" else c["flavor"]
        if g["flavor"] != want_fl:
            yield ("manifest_flavor", None, "%s writer: %s %s written with flavor %s, read back with %s" %
                   (c["type"], w["product"], w["version"], w["flavor"], g["flavor"]))
        want_tf = "none" if w["tablefile"] == "none" else "%s-%s.table" % (w["product"], w["version"])
        if g["tablefile"] != want_tf or g["instDir"] != w["instDir"]:
            yield ("manifest_table_and_directory", None, "%s: %s: table %r dir %r, expected %r %r" %
                   (c["type"], w["product"], g["tablefile"], g["instDir"], want_tf, w["instDir"]))
        if (w["distId"] is not None and g["distId"] != w["distId"]) or (w["distId"] is None and not g["distId"]):
            yield ("manifest_distid", None, "%s: %s: distId %r read back as %r" % (c["type"], w["product"], w["distId"], g["distId"]))


def gen_createdeps(rng):
    """A small product graph on a real stack (p0 requires a random subset of the later products, some optionally, some
    optional ones missing) for Distrib._createDeps: the dependency manifest must be in install order."""
    n = rng.randint(2, 6)
    names = ["p%d" % i for i in range(n)]
    prods = []
    for i in range(n):
        reqs = []
        for j in range(i + 1, n):
            if rng.random() < 0.5:
                reqs.append([names[j], rng.random() < 0.25])
        if rng.random() < 0.2:
            reqs.append(["ghost%d" % i, True])             # an optional product that is not installed
        if i == 0 and not reqs and n > 1:
            reqs.append([names[1], False])
        rng.shuffle(reqs)
        prods.append({"name": names[i], "requires": reqs})
    return {"kind": "createdeps", "products": prods}


def _createdeps_child(c):
    import importlib
    root = common.scratch("c18cd")
    try:
        stacks, _ = common.mkstacks(root, default_product=True)
        E = common.new_eups()
        for p_ in c["products"]:
            table = "".join("%s(%s)\n" % ("setupOptional" if opt else "setupRequired", nm) for nm, opt in p_["requires"])
            d = common.mkprod(stacks[0], p_["name"], "1", table)
            E.declare(p_["name"], "1", d, tag="current")
        E = common.new_eups()
        seen = {}
        real = E.getDependentProducts

        def recording(*a, **kw):
            r = real(*a, **kw)
            seen["deps"] = [[x[0].name, x[0].version, bool(x[1]), x[2]] for x in r]
            return r
        E.getDependentProducts = recording
        D = importlib.import_module("eups.distrib.Distrib")
        dd = D.DefaultDistrib(E, None, verbosity=-1, log=open(os.devnull, "w"))
        try:
            man = dd._createDeps(c["products"][0]["name"], "1", recursive=True)
            out = {"order": [[p_.product, p_.version, bool(p_.isOpt)] for p_ in man.getProducts()]}
        except Exception as e:  # noqa
            out = {"error": type(e).__name__}
        deps = []
        for nm, ver, opt, depth in seen.get("deps", []):
            f = E.findProductFromVRO(nm, ver)[0]
            deps.append({"name": nm, "version": ver or "", "optional": opt, "depth": depth, "found": f.version if f else None})
        out["deps"] = deps
        return out
    finally:
        common.rmtree(root)


def impl_createdeps(c):
    r = common.in_child(_createdeps_child, c)
    return r[1] if r[0] == "ok" else {"error": "CHILD:" + str(r[1:3]), "deps": []}


def oracle_createdeps(c, io_):
    """Install order, from the graph alone: the top product is last, every installed product of the closure is listed once,
    and every product comes after the (installed) products it requires."""
    if "order" not in io_:
        yield ("createdeps_runs", None, "_createDeps raised %s" % io_.get("error"))
        return
    have = {p_["name"]: p_ for p_ in c["products"]}
    order = [x[0] for x in io_["order"]]
    top = c["products"][0]["name"]
    if not order or order[-1] != top:
        yield ("manifest_install_order", None, "the product being packaged (%s) is not last: %r" % (top, order))
    closure, todo = [], [top]
    while todo:
        x = todo.pop()
        if x in closure or x not in have:
            continue
        closure.append(x)
        todo += [nm for nm, _ in have[x]["requires"]]
    if sorted(order) != sorted(closure):
        yield ("manifest_lists_the_closure", None, "listed %r, the installed closure is %r" % (sorted(order), sorted(closure)))
        return
    pos = {x: i for i, x in enumerate(order)}
    for x in closure:
        for nm, _ in have[x]["requires"]:
            if nm in pos and pos[nm] > pos[x]:
                yield ("manifest_install_order", None, "%s requires %s but is listed before it: %r" % (x, nm, order))
                return


def gen_srvfile(rng):
    """Files on a server (tables/<name>.table with distinct contents) and a history of getFile requests to ONE
    DistribServer object, each with a destination file: a fresh one (what getFile generates by default) or one of two scratch
    files that the caller reuses."""
    names = ["afw", "boost", "python", "utils"][:rng.randint(2, 4)]
    srv = [["tables/%s.table" % n, "setupRequired(%s_dep)\n# %d\n" % (n, rng.randint(0, 999))] for n in names]
    reqs, fresh = [], 0
    for _ in range(rng.randint(2, 9)):
        path = rng.choice([x[0] for x in srv] + (["tables/absent.table"] if rng.random() < 0.1 else []))
        r = rng.random()
        if r < 0.45:
            dest = "fresh%d" % fresh
            fresh += 1
        else:
            dest = rng.choice(["scratchA", "scratchA", "scratchB"])
        reqs.append([path, dest])
    return {"kind": "srvfile", "server": srv, "reqs": reqs}


def impl_srvfile(c):
    import tempfile
    from eups.distrib import server
    E = _eups()
    _SERVER_N[0] += 1
    base = os.path.join(E._c18root, "fsrv%d" % _SERVER_N[0])
    os.makedirs(os.path.join(base, "tables"))
    dests = os.path.join(E._c18root, "fdest%d" % _SERVER_N[0])
    os.makedirs(dests)
    for p_, text in c["server"]:
        with open(os.path.join(base, p_), "w") as f:
            f.write(text)
    tempfile.tempdir = E._c18root
    server.DistribServer._fileCache.clear()
    ds = server.DistribServer(base, verbosity=-1)
    answers = []
    for path, dest in c["reqs"]:
        try:
            f = ds.getFile(path, filename=os.path.join(dests, dest))
            with open(f) as fh:
                answers.append({"content": fh.read()})
        except Exception as e:  # noqa
            n = type(e).__name__
            answers.append({"error": "notfound" if n == "RemoteFileNotFound" else "samefile" if n == "SameFileError" else n})
    return {"answers": answers}


def oracle_srvfile(c, io_):
    """Whatever was asked before and wherever the copies were put: the file a server object hands out for a path holds what
    the server holds under that path."""
    srv = dict((p_, t) for p_, t in c["server"])
    for i, ((path, dest), a) in enumerate(zip(c["reqs"], io_["answers"])):
        want = {"content": srv[path]} if path in srv else {"error": "notfound"}
        if a != want:
            yield ("server_file_is_the_servers_file", None, "request %d (%s -> %s) after %r: got %r, the server holds %r" %
                   (i, path, dest, c["reqs"][:i], a, want))
            return


def gen_manseq(rng):
    """Operation SEQUENCES on one live Manifest: addDependency / reverse / roll(n) / getDependency / write and read back -
    into a fresh manifest or appended to the live one (setproduct or not)."""
    deps = [gen_dep(rng, False) for _ in range(rng.randint(1, 6))]
    ops = [{"op": "add", "dep": d} for d in deps[:rng.randint(1, len(deps))]]
    names = [d["product"] for d in deps]
    for _ in range(rng.randint(2, 7)):
        r = rng.random()
        if r < 0.2:
            d = gen_dep(rng, False)
            if rng.random() < 0.5:
                d["product"] = rng.choice(names)         # a product listed twice: getDependency has to choose
            ops.append({"op": "add", "dep": d})
        elif r < 0.35:
            ops.append({"op": "reverse"})
        elif r < 0.55:
            ops.append({"op": "roll", "n": rng.choice([1, 1, -1, 2, -2, 0, 5, -7])})
        elif r < 0.75:
            d = rng.choice(deps)
            ops.append({"op": "getdep", "product": rng.choice(names + ["absent"]),
                        "version": rng.choice([None, None, d["version"], "0.0"]), "flavor": rng.choice([None, None, d["flavor"], "Linux"]),
                        "which": rng.choice([-1, -1, 0, 1, -2, 3])})
        else:
            ops.append({"op": "roundtrip", "noOptional": rng.random() < 0.5, "flavor": rng.choice([None, None, "Linux64"]),
                        "into": rng.choice(["fresh", "live", "B", "B"]), "setproduct": rng.random() < 0.5})
    return {"kind": "manseq", "product": rng.choice(["top", None]), "version": rng.choice(["1.0", None]), "ops": ops}


def impl_manseq(c):
    from eups.distrib import server
    E = _eups()
    path = os.path.join(E._c18root, "seq.manifest")
    man = server.Manifest(c["product"], c["version"], eupsenv=E, verbosity=-1, log=open(os.devnull, "w"))
    manB = server.Manifest("other", "9.9", eupsenv=E, verbosity=-1, log=open(os.devnull, "w"))   # a second live manifest

    def dump(m):
        return {"product": m.product, "version": m.version, "deps": [dep_dict(d) for d in m.getProducts()]}
    out = []
    for o in c["ops"]:
        k = o["op"]
        try:
            if k == "add":
                d = o["dep"]
                man.addDependency(d["product"], d["version"], d["flavor"], d["tablefile"], d["instDir"], d["distId"], d["isOpt"],
                                  d["recurse"], list(d["extra"]))
                out.append(dump(man))
            elif k == "reverse":
                man.reverse()
                out.append(dump(man))
            elif k == "roll":
                man.roll(o["n"])
                out.append(dump(man))
            elif k == "getdep":
                d = man.getDependency(o["product"], o["version"], o["flavor"], o["which"])
                out.append(None if d is None else dep_dict(d))
            else:
                written = dump(man)
                man.write(path, noOptional=o["noOptional"], flavor=o["flavor"])
                r = man if o["into"] == "live" else manB if o["into"] == "B" else \
                    server.Manifest(eupsenv=E, verbosity=-1, log=open(os.devnull, "w"))
                before = dump(r)
                try:
                    r.read(path, setproduct=o["setproduct"])
                    out.append({"written": written, "before": before, "read": dump(r)})
                except Exception as e:  # noqa
                    out.append({"error": exc_name(e)})
        except Exception as e:  # noqa
            out.append({"exception": type(e).__name__})
            break
    return {"out": out}


def oracle_manseq(c, io_):
    """Install order on a live manifest, step by step from the previous listing: reverse reverses it, roll(n) rotates it,
    an addition goes to the end, getDependency returns the which-th match, and what is written and read back is the
    listing (in order; appended when read into the live manifest)."""
    if not all(is_word(o["dep"][f]) for o in c["ops"] if o["op"] == "add" for f in ("product", "version")):
        return
    prev = []
    key = lambda d: (d["product"], d["version"], d["flavor"], d["distId"])
    for o, r in zip(c["ops"], io_["out"]):
        if isinstance(r, dict) and "exception" in r:
            yield ("manifest_sequence_runs", None, "%s raised %s" % (o["op"], r["exception"]))
            return
        k = o["op"]
        if k in ("add", "reverse", "roll"):
            got = [key(d) for d in r["deps"]]
            if k == "add":
                exp = prev + [key(o["dep"])]
            elif k == "reverse":
                exp = prev[::-1]
            else:
                n = o["n"] % len(prev) if prev else 0
                exp = prev[n:] + prev[:n]
            if got != exp:
                yield ("manifest_same_order", None, "%s(%s): %r became %r, expected %r" % (k, o.get("n", ""), [x[0] for x in prev], [x[0] for x in got], [x[0] for x in exp]))
            prev = got
        elif k == "getdep":
            m_ = [x for x in prev if x[0] == o["product"] and (o["version"] is None or x[1] == o["version"]) and
                  (o["flavor"] is None or x[2] == o["flavor"])]
            try:
                exp = m_[o["which"]]
            except IndexError:
                exp = None
            got = None if r is None else key(r)
            if got != exp:
                yield ("manifest_getDependency_is_the_which_th_match", None, "%r -> %r, expected %r" % (o, got, exp))
        else:
            if "error" in r:
                if all(clean_dep(d) for d in r.get("written", {}).get("deps", [])):
                    yield ("manifest_reads_back", None, "reading the written manifest raised %s" % r["error"])
                continue
            # the header names product and version: taken over when asked for (setproduct) or when the reader has none
            for f in ("product", "version"):
                want = r["written"][f] if (o["setproduct"] or r["before"][f] is None) else r["before"][f]
                if r["written"][f] is not None and is_word(r["written"][f]) and r["read"][f] != want:
                    yield ("manifest_header_product_and_version", None, "%s: reader had %r, file says %r, setproduct=%s: now %r" %
                           (f, r["before"][f], r["written"][f], o["setproduct"], r["read"][f]))
            w = r["written"]["deps"]
            if not all(clean_dep(d) for d in w):
                if o["into"] == "live":
                    prev = [key(d) for d in r["read"]["deps"]]
                continue
            kept = [d for d in w if not (o["noOptional"] and d["isOpt"])]
            got = [key(d) for d in r["read"]["deps"]]
            tail = [(d["product"], d["version"], o["flavor"] or d["flavor"], d["distId"]) for d in kept]
            exp = [key(d) for d in r["before"]["deps"]] + tail
            if [(a, b) for a, b, _, _ in got] != [(a, b) for a, b, _, _ in exp]:
                yield ("manifest_same_order", None, "written %r read back as %r" % ([x[0] for x in exp], [x[0] for x in got]))
            if o["into"] == "live":
                prev = got


def clean_dep(d):
    return is_word(d["product"]) and not d["product"].startswith("#") and is_word(d["version"]) and \
        all(d[f] is None or is_word(d[f]) for f in ("flavor", "tablefile", "instDir", "distId"))


def gen_tagseq(rng):
    """Operation SEQUENCES on two live TaggedProductList objects A and B: addProduct / deleteProduct / mergeProductList /
    getProducts (also sort=True, which sorts in place) / getProductInfo / write A and read it back - into a fresh list or
    into the live list B ("any previously registered products may get updated")."""
    names = sorted(set(n for n in (gen_name(rng) for _ in range(rng.randint(2, 6))) if is_word(n) and not n.startswith("#"))) or ["afw"]
    fa, fb = rng.choice([None, "Linux", "Linux64", "generic"]), rng.choice([None, "Linux", "Linux", "Linux64"])

    def add(on):
        return {"op": "add", "on": on, "product": rng.choice(names), "version": gen_version(rng),
                "flavor": rng.choice([None, None, "Linux", "Linux64", "generic"]),
                "extra": [gen_word(rng)] if rng.random() < 0.15 else []}
    ops = [add("A") for _ in range(rng.randint(1, 4))] + [add("B") for _ in range(rng.randint(0, 3))]
    for _ in range(rng.randint(2, 7)):
        r = rng.random()
        if r < 0.25:
            ops.append(add(rng.choice("AAB")))
        elif r < 0.35:
            ops.append({"op": "delete", "on": rng.choice("AB"), "product": rng.choice(names)})
            if rng.random() < 0.7:
                ops.append({"op": "info", "on": ops[-1]["on"], "product": ops[-1]["product"]})
        elif r < 0.55:
            ops.append({"op": "merge", "on": "A"})
        elif r < 0.70:
            ops.append({"op": "get", "on": rng.choice("AB"), "sort": rng.random() < 0.4})
        elif r < 0.80:
            ops.append({"op": "info", "on": rng.choice("AB"), "product": rng.choice(names + ["absent"])})
        else:
            ops.append({"op": "roundtrip", "on": "A", "writeFlavor": rng.choice([None, None, "Linux", "generic"]),
                        "readFlavor": rng.choice([fa, fa, "Linux", "Linux64", None]), "into": rng.choice(["fresh", "B", "B"])})
    ops.append({"op": "get", "on": "A", "sort": False})
    ops.append({"op": "get", "on": "B", "sort": False})
    tag = rng.choice(["current", "stable", "v1.0", "c++"])
    return {"kind": "tagseq", "tag": tag, "flavorA": fa, "flavorB": fb, "ops": ops}


def impl_tagseq(c):
    from eups.distrib import server
    E = _eups()
    path = os.path.join(E._c18root, "seq.list")
    null = open(os.devnull, "w")
    t = {"A": server.TaggedProductList(c["tag"], c["flavorA"], log=null), "B": server.TaggedProductList(c["tag"], c["flavorB"], log=null)}
    out = []
    for o in c["ops"]:
        k = o["op"]
        x = t[o["on"]]
        try:
            if k == "add":
                x.addProduct(o["product"], o["version"], o["flavor"], list(o["extra"]) if o["extra"] else None)
                out.append(None)
            elif k == "delete":
                x.deleteProduct(o["product"])
                out.append(None)
            elif k == "merge":
                before = t["A"].getProducts()
                t["A"].mergeProductList(t["B"])
                out.append({"before": before, "other": t["B"].getProducts(), "after": t["A"].getProducts()})
            elif k == "get":
                out.append(x.getProducts(sort=True) if o["sort"] else x.getProducts())
            elif k == "info":
                out.append({"info": list(x.getProductInfo(o["product"])), "rows": x.getProducts()})
            else:
                written = t["A"].getProducts()
                t["A"].write(path, o["writeFlavor"])
                before = t["B"].getProducts()
                r = t["B"] if o["into"] == "B" else server.TaggedProductList(c["tag"], o["readFlavor"], log=null)
                try:
                    r.read(path)
                    out.append({"written": written, "before": before, "read": r.getProducts()})
                except Exception as e:  # noqa
                    out.append({"written": written, "error": exc_name(e)})
        except Exception as e:  # noqa
            out.append({"exception": type(e).__name__})
            break
    return {"out": [[list(r) for r in x] if isinstance(x, list) and x and isinstance(x[0], list) else x for x in out]}


def oracle_tagseq(c, io_):
    """From the implementation's own observables, step by step: a merge leaves every row of the other list in this one and
    keeps the rows of products the other list does not hold; a list written and read back is the flavor filter of what was
    written (sorted), and reading into a live list updates it without dropping what it held."""
    fl = {"A": c["flavorA"] or "generic", "B": c["flavorB"] or "generic"}
    for o, r in zip(c["ops"], io_["out"]):
        if isinstance(r, dict) and "exception" in r:
            yield ("taglist_sequence_runs", None, "%s raised %s" % (o["op"], r["exception"]))
            return
        if o["op"] == "info":
            # what the list says about one product is its row in the listing; nothing for a product that is not listed
            row = [x for x in r["rows"] if x[0] == o["product"]]
            want = row[0][1:] if row else [None, None]
            if r["info"] != want:
                yield ("taglist_info_matches_the_listing", None, "getProductInfo(%r) = %r, the listing says %r" % (o["product"], r["info"], want))
        elif o["op"] == "merge":
            other = {x[0]: x for x in r["other"]}
            after = {x[0]: x for x in r["after"]}
            for p, row in other.items():
                if after.get(p) != row:
                    yield ("taglist_merge_takes_the_other_lists_entries", None, "row %r of the merged list became %r" % (row, after.get(p)))
            for row in r["before"]:
                if row[0] not in other and row not in r["after"]:
                    yield ("taglist_merge_takes_the_other_lists_entries", None, "row %r was lost by the merge" % (row,))
        elif o["op"] == "roundtrip":
            if "error" in r:
                yield ("taglist_reads_back", None, "reading the written list raised: %s" % r["error"])
                continue
            reader = fl["B"] if o["into"] == "B" else (o["readFlavor"] or "generic")
            exp = []
            for row in sorted(r["written"]):
                f = o["writeFlavor"] if o["writeFlavor"] is not None else row[1]
                if f == "generic":
                    f = reader
                if f == reader:
                    exp.append([row[0], f] + row[2:])
            got = {x[0]: x for x in r["read"]}
            for row in exp:
                if got.get(row[0]) != row:
                    yield ("taglist_same_entries", None, "written %r read back as %r (reader %s)" % (row, got.get(row[0]), reader))
            if o["into"] == "fresh":
                if [x[0] for x in r["read"]] != [x[0] for x in exp]:
                    yield ("taglist_same_entries", None, "read back %r, expected %r" % ([x[0] for x in r["read"]], [x[0] for x in exp]))
            else:
                names = [x[0] for x in exp]
                for row in r["before"]:
                    if row[0] not in names and row not in r["read"]:
                        yield ("taglist_read_into_live_list_keeps_its_entries", None, "row %r of the live list was lost" % (row,))
                if [x[0] for x in r["read"]][:len(r["before"])] != [x[0] for x in r["before"]]:
                    yield ("taglist_read_into_live_list_keeps_its_entries", None, "positions changed: %r -> %r" %
                           ([x[0] for x in r["before"]], [x[0] for x in r["read"]]))


def gen_mapseq(rng):
    """Operation SEQUENCES on one live Mapping object: add / merge (what remapEntries(mapping=M) does with the rules of
    manifest.remap) / inverse / apply interleaved - inverse() is taken, rules are merged in, inverse() is taken again.
    Mostly sequences that keep the mapping one-to-one on explicit versions (distinct inputs and outputs per flavor)."""
    prods = [gen_name(rng) for _ in range(rng.randint(2, 5))]
    for i, p_ in enumerate(prods):
        if not re.match(r"^[A-Za-z0-9_]+$", p_):
            prods[i] = "prod%d" % i
    flav = rng.choice([["generic"], [NATIVE], ["generic", NATIVE], ["generic", NATIVE, "Linux64"]])
    bij = rng.random() < 0.75
    ins, outs = set(), set()

    def rule():
        for _ in range(20):
            f = rng.choice(flav)
            i = (f, rng.choice(prods), rng.choice(["1.0", "2.0", "3.0"] if bij else ["1.0", "2.0", "any"]))
            o = (f, rng.choice(prods + ["other", "repl"]), rng.choice(["4.0", "5.0", "6.0", "7.0"] if bij else ["4.0", "5.0", None]))
            if bij and (i in ins or o in outs or (i[1], i[2]) == (o[1], o[2])):
                continue
            ins.add(i)
            outs.add(o)
            return {"inP": i[1], "inV": i[2], "outP": o[1] if (o[1] != i[1] or rng.random() < 0.5) else None, "outV": o[2],
                    "flavor": f, "overwrite": True}
        return None

    ops = []
    for _ in range(rng.randint(1, 3)):
        r = rule()
        if r:
            ops.append(dict(r, op="add"))
    ops.append({"op": "inverse"})
    for _ in range(rng.randint(1, 3)):
        k = rng.random()
        if k < 0.55:
            adds = [r for r in (rule() for _ in range(rng.randint(1, 3))) if r]
            if bij:
                # merge copies whole per-product tables: keep the merged-in products apart from those already there so
                # that the result is the union (otherwise entries are replaced or skipped wholesale - also generated, below)
                pass
            ops.append({"op": "merge", "adds": adds, "overwrite": rng.random() < (0.3 if bij else 0.6)})
        elif k < 0.8:
            r = rule()
            if r:
                ops.append(dict(r, op="add"))
        else:
            ops.append({"op": "apply", "q": [rng.choice(prods), rng.choice(["1.0", "2.0", "3.0"]), rng.choice(flav + [NATIVE])]})
        if rng.random() < 0.8:
            ops.append({"op": "inverse"})
    if ops[-1]["op"] != "inverse":
        ops.append({"op": "inverse"})
    return {"kind": "mapseq", "style": "bijective" if bij else "free", "ops": ops}


def impl_mapseq(c):
    from eups.distrib import server
    m = server.Mapping()
    out = []
    for o in c["ops"]:
        k = o["op"]
        if k == "add":
            m.add(o["inP"], o["inV"], o["outP"], o["outV"], o["flavor"], o["overwrite"])
            out.append(None)
        elif k == "merge":
            before = dump_table(m._mapping)
            m.merge(build_mapping(o["adds"]), overwrite=o["overwrite"])
            out.append({"before": before, "after": dump_table(m._mapping)})
        elif k == "apply":
            out.append(list(m.apply(*o["q"])))
        else:
            rec = {"dump": dump_table(m._mapping)}
            rows = [(f, p, v) for f, byp in m._mapping.items() for p, byv in byp.items() for v in byv]
            try:
                inv = m.inverse()
                checks = []
                for f, p, v in rows:
                    r = m.apply(p, v, f)
                    checks.append([f, p, v, list(r), None if r[1] is None else list(inv.apply(r[0], r[1], f))])
                rec["inverse"] = {"dump": dump_table(inv._mapping), "checks": checks}
            except RuntimeError:
                rec["inverse"] = "RuntimeError"
            except Exception as e:  # noqa
                rec["inverse"] = "EXC:" + type(e).__name__
            out.append(rec)
    return {"out": out}


def oracle_mapseq(c, io_):
    """The inverse clause on a LIVE mapping, from the implementation's own observables: each time inverse() is taken, it
    undoes the mapping as it is at that moment (its dump).  One-to-one (no two entries of one flavor with the same
    image) => inverse() exists; every entry p:v -> q:w with an explicit in-version that is not an identity is applied by
    apply() and taken back by the inverse's apply()."""
    n = 0
    for o, rec in zip(c["ops"], io_["out"]):
        if o["op"] == "merge":
            # merging rules in: a rule for a product the mapping does not mention yet (in that flavor) is there afterwards;
            # without overwrite, what the mapping said about a product it already mentions stays
            had = set((r[0], r[1]) for r in rec["before"])
            final = {}
            for a in o["adds"]:
                if a["outV"] and a["outV"].lower() == "noreinstall":
                    continue
                final[(a["flavor"], a["inP"], a["inV"])] = [a["flavor"], a["inP"], a["inV"], a["outP"] or a["inP"], a["outV"] or None]
            for (f, p, v), row in final.items():
                if (f, p) not in had and row not in rec["after"]:
                    yield ("merge_adds_the_rules", None, "merged rule %r is missing afterwards: %r" % (row, rec["after"][:8]))
            if not o["overwrite"]:
                for r in rec["before"]:
                    if r not in rec["after"]:
                        yield ("merge_adds_the_rules", None, "merge without overwrite dropped %r" % (r,))
            continue
        if o["op"] != "inverse":
            continue
        n += 1
        rows = [r for r in rec["dump"] if r[2] is not None]
        images = [(r[0], r[3], r[4]) for r in rows if r[4] is not None]
        one_to_one = len(images) == len(set(images))
        inv = rec["inverse"]
        if not isinstance(inv, dict):
            if one_to_one:
                yield ("inverse_exists", None, "inverse #%d: the mapping %r is one-to-one, inverse() raised %s" % (n, rows[:6], inv))
            continue
        table = {(r[0], r[1], r[2]): (r[3], r[4]) for r in rows}
        for f, p, v, fwd, back in inv["checks"]:
            q, w = table[(f, p, v)]
            if w is None or v == "any" or (p, v) == (q, w):
                continue
            if tuple(fwd) != (q, w):
                yield ("remap_replaces_as_named", None, "inverse #%d: %s:%s [%s] applied gives %r, the table says %r" % (n, p, v, f, fwd, (q, w)))
            elif back is None or tuple(back) != (p, v):
                yield ("inverse_undoes", None, "inverse #%d (taken after %d operations): %s:%s -> %s:%s -> %r [%s]" %
                       (n, c["ops"].index(o) if o in c["ops"] else -1, p, v, q, w, back, f))


def gen_remap(rng):
    """Rules are generated with their meaning: (product, in-version or any, action, flavor, mode)."""
    n = rng.randint(0, 12)
    deps = [gen_dep(rng, False) for _ in range(n)]
    for d in deps:
        d["version"] = rng.choice(["1.0", "2.0", "3.0"])
        while "#" in d["product"] or ":" in d["product"]:     # a remap file cannot name such a product
            d["product"] = gen_name(rng)
    names = sorted(set(d["product"] for d in deps)) or ["afw"]
    rules = []
    for _ in range(rng.randint(0, 5)):
        p = rng.choice(names + ["absent"])
        inv = rng.choice([None, "any", "Any", "1.0", "2.0"])
        act = rng.choice(["version", "rename", "delete", "delete"])
        fl = rng.choice([None, None, "generic", NATIVE, "Linux64"])
        mode = rng.choice([None, None, None, "create", "install"])
        if act == "version":
            out = rng.choice(["5.0", "6.0"])
        elif act == "rename":
            out = rng.choice(["other", "repl"]) + ":" + rng.choice(["5.0", "6.0"])
        else:
            out = rng.choice(["None", "none", None]) if fl is None else "None"
        line = ("[%s]" % mode if mode else "") + rng.choice(["", " "] if mode else [""]) + p + (":" + inv if inv else "")
        if out is not None:
            line += rng.choice(["   ", "\t", " "]) + out
        if fl is not None:
            line += "  " + fl
        if rng.random() < 0.2:
            line += "   # a comment"
        rules.append({"product": p, "inV": inv, "act": act, "out": out, "flavor": fl or "generic", "mode": mode, "line": line})
    if deps and rng.random() < 0.3:
        # the order-sensitive pattern: a rule for one version next to a rule for `any` of the same product
        d = rng.choice(deps)
        rules = [r for r in rules if r["product"] != d["product"]]
        fl = rng.choice([None, NATIVE])
        for inv, out in ((rng.choice(["any", None]), "8.0"), (d["version"], "9.0")):
            line = d["product"] + (":" + inv if inv else "") + "   " + out + ("  " + fl if fl else "")
            rules.insert(rng.randint(0, len(rules)), {"product": d["product"], "inV": inv, "act": "version", "out": out,
                                                      "flavor": fl or "generic", "mode": None, "line": line})
    known = []
    if deps and rng.random() < 0.25:
        # the `dummy` branch: entries changed into version `dummy` make remapEntries declare that product
        for _ in range(rng.randint(1, 3)):
            d = rng.choice(deps)
            rules = [r for r in rules if r["product"] != d["product"]]
            target = rng.choice([None, "stub", "stub", "tcltk_dummy"])
            inv = rng.choice([None, "any", d["version"]])
            out = (target + ":" if target else "") + rng.choice(["dummy", "dummy", "dummy", "Dummy", "dummy1"])
            fl = rng.choice([None, None, NATIVE, "Linux64"])
            line = d["product"] + (":" + inv if inv else "") + "   " + out + ("  " + fl if fl else "")
            rules.append({"product": d["product"], "inV": inv, "act": "rename" if target else "version", "out": out,
                          "flavor": fl or "generic", "mode": None, "line": line})
        known = [k for k in ["stub", "tcltk_dummy"] + [d["product"] for d in deps[:2]]
                 if rng.random() < 0.25 and re.match(r"^[a-zA-Z_0-9]+$", k)]
        if rng.random() < 0.3:
            dd = rng.choice(deps)               # an entry that is at version dummy already: not changed, nothing declared
            dd["version"] = "dummy"
    files = [[], []]
    for r in rules:
        files[rng.randint(0, 1)].append(r)
    extra_lines = ["# comment line", "", "verbose = True", "   "]
    texts = []
    for f in files:
        ls = [r["line"] for r in f]
        for _ in range(rng.randint(0, 2)):
            ls.insert(rng.randint(0, len(ls)), rng.choice(extra_lines))
        texts.append(ls)
    arg_adds = []
    if rng.random() < 0.3:
        p = rng.choice(names)
        arg_adds.append({"inP": p, "inV": rng.choice(["any", "1.0"]), "outP": None, "outV": "7.0", "flavor": "generic",
                         "overwrite": True})
    c = {"kind": "remap", "deps": deps, "files": texts, "rules": [[r for r in f] for f in files], "adds": arg_adds,
         "mode": rng.choice([None, None, "create", "install"])}
    if not arg_adds and rng.random() < 0.25:
        # object sequences: another manifest was remapped earlier in this process, with other manifest.remap files, by a call
        # without a mapping argument (Manifest.fromFile / Repositories.install do that): it must not influence this call
        p = rng.choice(names)
        c["earlier"] = {"files": [[p + rng.choice(["", ":any", ":1.0", ":2.0"]) + "   " + rng.choice(["5.5", "None", "other:6.6"])],
                                  ["%s   7.7" % rng.choice(names)]],
                        "deps": deps[:2]}
    if known or any("ummy" in l for t in texts for l in l_iter(t)):
        c["known"] = sorted(set(known))
        if rng.random() < 0.7:
            c["mode"] = None
    return c


def l_iter(t):
    return t


# ---- implementation --------------------------------------------------------------------------------

_E = None


def _eups():
    global _E
    if _E is None:
        root = common.scratch("c18")
        common.mkstacks(root)
        _E = common.new_eups()
        _E._c18root = root
    return _E


def dep_dict(d):
    return {"product": d.product, "version": d.version, "flavor": d.flavor, "tablefile": d.tablefile, "instDir": d.instDir,
            "distId": d.distId, "isOpt": bool(d.isOpt), "recurse": bool(d.shouldRecurse), "extra": list(d.extra)}


def exc_name(e):
    n = type(e).__name__
    s = str(e)
    if "First line" in s:
        return "header"
    if "Failed to parse line" in s or n == "IndexError":
        return "line"
    return "EXC:" + n


MAN_BLOCK = re.compile(r"\n#\n# Creator:[^\n]*\n# Time:[^\n]*\n# Eups version:[^\n]*\n#\n# pkg[^\n]*\n#-{20,}(?=\n)")
TAG_BLOCK = re.compile(r"\n#product +flavor +version\n#-{20,}(?=\n)")


def strip_block(text, which):
    """Drop the comment block that follows the header (creator, time, eups version, column titles): the first
    occurrence of exactly that block, wherever the header line ends."""
    if which is None:
        return text
    return which.sub("", text, count=1)


def impl_manifest(c):
    from eups.distrib import server
    E = _eups()
    path = os.path.join(E._c18root, "m.manifest")
    man = server.Manifest(c["product"], c["version"], eupsenv=E, verbosity=-1)
    for d in c["deps"]:
        man.addDependency(d["product"], d["version"], d["flavor"], d["tablefile"], d["instDir"], d["distId"], d["isOpt"],
                          d["recurse"], list(d["extra"]))
    try:
        man.write(path, noOptional=c["noOptional"], flavor=c["flavor"])
    except Exception as e:  # noqa
        return {"write": "EXC:" + type(e).__name__}
    with open(path, newline="", encoding="utf-8") as f:
        raw = f.read()
    out = {"text": strip_block(raw, MAN_BLOCK), "raw": raw}
    m2 = server.Manifest(eupsenv=E, verbosity=-1)
    try:
        m2.read(path, setproduct=True, shouldRecurse=c["recurse"])
        out["read"] = {"product": m2.product, "version": m2.version, "deps": [dep_dict(d) for d in m2.getProducts()]}
    except Exception as e:  # noqa
        out["read"] = {"error": exc_name(e)}
    return out


def impl_taglist(c):
    from eups.distrib import server
    E = _eups()
    path = os.path.join(E._c18root, "t.list")
    t = server.TaggedProductList(c["tag"], c["defFlavor"])
    for a in c["adds"]:
        t.addProduct(a["product"], a["version"], a["flavor"], list(a["extra"]) if a["extra"] else None)
    out = {"products": t.getProducts()}
    try:
        t.write(path, c["writeFlavor"])
    except Exception as e:  # noqa
        return {"write": "EXC:" + type(e).__name__}
    with open(path, newline="", encoding="utf-8") as f:
        raw = f.read()
    out["text"] = strip_block(raw, TAG_BLOCK)
    out["raw"] = raw
    try:
        t2 = server.TaggedProductList.fromFile(path, c.get("readTag", c["tag"]), flavor=c["readFlavor"])
        out["read"] = {"products": t2.getProducts()}
    except Exception as e:  # noqa
        out["read"] = {"error": exc_name(e)}
    return out


_SERVER_N = [0]


def impl_server(c):
    import tempfile
    from eups.distrib import server
    import importlib
    distrib_mod = importlib.import_module("eups.distrib.Distrib")
    E = _eups()
    _SERVER_N[0] += 1
    base = os.path.join(E._c18root, "srv%d" % _SERVER_N[0])
    os.makedirs(base)
    tempfile.tempdir = E._c18root                 # DistribServer copies what it fetches into tempfile's directory
    server.DistribServer._fileCache.clear()       # class-level cache of fetched files, keyed by source path
    texts = {}
    for tag, r in c["releases"].items():
        t = server.TaggedProductList(tag, r["defFlavor"])
        for a in r["adds"]:
            t.addProduct(a["product"], a["version"], a["flavor"], list(a["extra"]) if a["extra"] else None)
        if r["via"] == "distrib":
            d = distrib_mod.DefaultDistrib(E, None, verbosity=-1)
            d.writeTaggedRelease(base, tag, t, flavor=r["writeFlavor"], force=True)
        else:
            t.write(os.path.join(base, tag + ".list"), r["writeFlavor"])
        with open(os.path.join(base, tag + ".list"), newline="", encoding="utf-8") as f:
            texts[tag] = f.read()
    ds = server.DistribServer(base, verbosity=-1)
    answers = []
    for q in c["reqs"]:
        try:
            if q["op"] == "list":
                answers.append({"products": ds.getTaggedProductList(q["tag"], q["flavor"]).getProducts()})
            elif q["op"] == "info":
                i = ds.getTaggedProductInfo(q["product"], q["flavor"], q["tag"])
                answers.append({"info": None if i[1:] == [None, None] else i})
            else:
                out, _ = ds.getTagNamesFor(q["product"], q["version"], q["flavor"], tags=[q["tag"]])
                answers.append({"tags": out})
        except Exception as e:  # noqa
            n = type(e).__name__
            answers.append({"error": "notfound" if n == "RemoteFileNotFound" else exc_name(e)})
    return {"answers": answers, "files": [[t, x] for t, x in texts.items()]}


def dump_table(tbl):
    rows = []
    for f, byp in tbl.items():
        for p, byv in byp.items():
            if not byv:
                rows.append([f, p, None, None, None])
            for v, (op, ov) in byv.items():
                rows.append([f, p, v, op, ov])
    return rows


def build_mapping(adds):
    from eups.distrib import server
    m = server.Mapping()
    for a in adds:
        m.add(a["inP"], a["inV"], a["outP"], a["outV"], a["flavor"], a["overwrite"])
    return m


def impl_mapping(c):
    m = build_mapping(c["adds"])
    out = {"dump": dump_table(m._mapping), "noReinstall": dump_table(m._noReinstall)}
    fwd = [list(m.apply(p, v, f)) for p, v, f in c["queries"]]
    out["applied"] = fwd
    try:
        inv = m.inverse()
        out["inverse"] = {"dump": dump_table(inv._mapping),
                          "back": [None if r[1] is None else list(inv.apply(r[0], r[1], q[2])) for q, r in zip(c["queries"], fwd)]}
    except RuntimeError:
        out["inverse"] = "RuntimeError"
    except Exception as e:  # noqa
        out["inverse"] = "EXC:" + type(e).__name__
    return out


def _remap_dummy_child(c):
    """remapEntries on a stack of its own (forked child): the `dummy` branch declares products there."""
    root = common.scratch("c18d")
    try:
        common.mkstacks(root)
        E = common.new_eups()
        E._c18root = root
        for k in c["known"]:
            E.declare(k, "dummy", "none", tablefile="none")
        E = common.new_eups()
        E._c18root = root
        out = impl_remap(c, E)
        after = common.new_eups()
        # everything the call added to the stack, whatever its version
        out["declared"] = sorted([p.name, p.version] for p in after.findProducts()
                                 if not (p.version == "dummy" and p.name in c["known"]))
        return out
    finally:
        common.rmtree(root)


def impl_remap(c, E=None):
    from eups.distrib import server
    import eups.hooks as hooks
    if E is None and "known" in c:
        r = common.in_child(_remap_dummy_child, c)
        return r[1] if r[0] == "ok" else {"error": "CHILD:" + str(r[1:3])}
    E = E or _eups()
    dirs = []
    for i, ls in enumerate(c["files"]):
        d = os.path.join(E._c18root, "cust%d" % i)
        os.makedirs(d, exist_ok=True)
        with open(os.path.join(d, "manifest.remap"), "w", encoding="utf-8") as f:
            f.write("".join(l + "\n" for l in ls))
        dirs.append(d)
    saved = hooks.customisationDirs
    if "earlier" in c:
        edirs = []
        for i, ls in enumerate(c["earlier"]["files"]):
            d = os.path.join(E._c18root, "earlier%d" % i)
            os.makedirs(d, exist_ok=True)
            with open(os.path.join(d, "manifest.remap"), "w", encoding="utf-8") as f:
                f.write("".join(l + "\n" for l in ls))
            edirs.append(d)
        hooks.customisationDirs = edirs
        try:
            man0 = server.Manifest("earlier", "1.0", eupsenv=E, verbosity=-1, log=open(os.devnull, "w"))
            for d in c["earlier"]["deps"]:
                man0.addDependency(d["product"], d["version"], d["flavor"], d["tablefile"], d["instDir"], d["distId"], d["isOpt"],
                                   d["recurse"], list(d["extra"]))
            man0.remapEntries(mode=c["mode"])
        except Exception:  # noqa
            pass
    hooks.customisationDirs = dirs
    try:
        man = server.Manifest("top", "1.0", eupsenv=E, verbosity=-1, log=open(os.devnull, "w"))
        for d in c["deps"]:
            man.addDependency(d["product"], d["version"], d["flavor"], d["tablefile"], d["instDir"], d["distId"], d["isOpt"],
                              d["recurse"], list(d["extra"]))
        try:
            if "earlier" in c:
                man.remapEntries(mode=c["mode"])          # no mapping argument, like the earlier call
            else:
                man.remapEntries(mapping=build_mapping(c["adds"]), mode=c["mode"])
        except Exception as e:  # noqa
            return {"error": "EXC:" + type(e).__name__}
        return {"deps": [dep_dict(d) for d in man.getProducts()], "dump": dump_table(man.mapping._mapping), "declared": []}
    finally:
        hooks.customisationDirs = saved


def impl_case(c):
    return {"manifest": impl_manifest, "taglist": impl_taglist, "mapping": impl_mapping, "mapseq": impl_mapseq, "tagseq": impl_tagseq, "manseq": impl_manseq, "srvfile": impl_srvfile, "createdeps": impl_createdeps, "distwrite": impl_distwrite, "remap": impl_remap,
            "server": impl_server}[c["kind"]](c)


def run_chunk(cases):
    U = common.eups_mod("utils")
    null = open(os.devnull, "w")
    for n in ("stderr", "stdinfo", "stdwarn", "stdok"):
        setattr(U, n, null)
    res = [impl_case(c) for c in cases]
    if _E is not None:
        common.rmtree(_E._c18root)
    return res


# ---- oracle (ii) -----------------------------------------------------------------------------------

def is_word(s):
    return isinstance(s, str) and s != "" and not any(ch.isspace() for ch in s)


def clean_manifest(c):
    if c["product"] is not None and not is_word(c["product"]):
        return False
    if c["version"] is not None and (not is_word(c["version"]) or ")" in c["version"]):
        return False
    for d in c["deps"]:
        if not is_word(d["product"]) or d["product"].startswith("#") or not is_word(d["version"]):
            return False
        for k in ("flavor", "tablefile", "instDir", "distId"):
            if d[k] not in (None, "") and not is_word(d[k]):
                return False
        if d["distId"] in ("None", ""):
            return False
    return True


def none_word(x):
    return "none" if x in (None, "", "none") else x


def oracle_manifest(c, io_):
    """The read-back list against the generated one, field by field and in order."""
    if not clean_manifest(c) or "read" not in io_:
        return
    rd = io_["read"]
    if "error" in rd:
        yield ("manifest_reads_back", None, "reading the written manifest raised: %s" % rd["error"])
        return
    exp = [d for d in c["deps"] if not (d["isOpt"] and c["noOptional"])]
    got = rd["deps"]
    if rd["product"] != (c["product"] or "UNKNOWN_PRODUCT") or rd["version"] != (c["version"] or "generic"):
        yield ("manifest_header", None, "header (%r, %r) read back as (%r, %r)" % (c["product"], c["version"], rd["product"], rd["version"]))
    if [d["product"] for d in got] != [d["product"] for d in exp]:
        yield ("manifest_same_products_same_order", None, "products %r read back as %r" % ([d["product"] for d in exp][:8], [d["product"] for d in got][:8]))
        return
    for i, (e, g) in enumerate(zip(exp, got)):
        if g["version"] != e["version"]:
            yield ("manifest_version", None, "entry %d: version %r read back as %r" % (i, e["version"], g["version"]))
        want = c["flavor"] or e["flavor"] or NATIVE
        if g["flavor"] != want:
            yield ("manifest_flavor", None, "entry %d: flavor %r (flavor argument %r) read back as %r" % (i, e["flavor"], c["flavor"], g["flavor"]))
        if none_word(g["tablefile"]) != none_word(e["tablefile"]):
            yield ("manifest_tablefile", None, "entry %d: table file %r read back as %r" % (i, e["tablefile"], g["tablefile"]))
        if none_word(g["instDir"]) != none_word(e["instDir"]):
            yield ("manifest_instdir", None, "entry %d: directory %r read back as %r" % (i, e["instDir"], g["instDir"]))
        want_id = None if e["distId"] == "search" else e["distId"]      # `search` is the format's word for "no id"
        if g["distId"] != want_id:
            yield ("manifest_distid", None, "entry %d: distribution id %r read back as %r" % (i, e["distId"], g["distId"]))


def clean_taglist(c):
    for a in c["adds"]:
        if not is_word(a["product"]) or a["product"].startswith("#") or not is_word(a["version"]):
            return False
        if a["flavor"] is not None and not is_word(a["flavor"]):
            return False
        if any(not is_word(x) for x in a["extra"]):
            return False
    return True


def oracle_taglist(c, io_):
    if not clean_taglist(c) or "read" not in io_:
        return
    rd = io_["read"]
    if c.get("readTag", c["tag"]) != c["tag"]:
        # the header names the tag: a reader that expects another tag refuses the file
        if "error" not in rd:
            yield ("taglist_header_names_the_tag", None, "a reader for tag %r accepted the list written for tag %r" %
                   (c["readTag"], c["tag"]))
        return
    if "error" in rd:
        yield ("taglist_reads_back", None, "reading the list written for tag %r raised: %s" % (c["tag"], rd["error"]))
        return
    listflavor = c["defFlavor"] or "generic"
    reader = c["readFlavor"] or "generic"
    order, info = [], {}
    for a in c["adds"]:
        if a["product"] not in order:
            order.append(a["product"])
        info[a["product"]] = [a["flavor"] if a["flavor"] is not None else listflavor, a["version"]] + list(a["extra"])
    exp = []
    for p in order:
        fl = c["writeFlavor"] if c["writeFlavor"] is not None else info[p][0]
        if fl == "generic":
            fl = reader                              # `generic` stands for the reader's flavor
        if fl == reader:
            exp.append([p, fl] + info[p][1:])
    got = rd["products"]
    if sorted(map(tuple, got)) != sorted(map(tuple, exp)):
        yield ("taglist_same_entries", None, "entries %r read back as %r" % (exp[:6], got[:6]))
        return
    if got != exp:
        unsorted = [e[0] for e in exp] != sorted(e[0] for e in exp)
        yield ("taglist_same_order", "D14" if unsorted else None,
               "order %r read back as %r" % ([e[0] for e in exp][:8], [g[0] for g in got][:8]))


def oracle_mapping(c, io_):
    if c["style"] != "bijective" or not c["adds"]:
        return
    inv = io_["inverse"]
    if not isinstance(inv, dict):
        yield ("inverse_exists", None, "one-to-one table of explicit versions: inverse() raised %s" % inv)
        return
    table = {(a["inP"], a["inV"]): (a["outP"] or a["inP"], a["outV"]) for a in c["adds"]}
    f = c["adds"][0]["flavor"]
    for q, r, b in zip(c["queries"], io_["applied"], inv["back"]):
        key = (q[0], q[1])
        if key in table and q[2] in (f,) + (() if f != "generic" else tuple(FLAVORS)):
            if tuple(r) != table[key]:
                yield ("remap_replaces_as_named", None, "%r mapped to %r, the table says %r" % (key, r, table[key]))
            elif b is None or tuple(b) != key:
                yield ("inverse_undoes", None, "%r -> %r -> %r" % (key, r, b))


def remap_expected(c, rules, honour_mode):
    """Rules of one product (all of one flavor, distinct in-versions): the one for the entry's version, else the one
    for `any`."""
    exp = []
    for d in c["deps"]:
        rs = [r for r in rules if r["product"] == d["product"] and r["flavor"] in ("generic", NATIVE) and
              (not honour_mode or r["mode"] == c["mode"])]
        exact = [r for r in rs if r["inV"] == d["version"]]
        anyv = [r for r in rs if r["inV"] in (None, "any", "Any")]
        r = exact[0] if exact else anyv[0] if anyv else None
        if r is None:
            exp.append(("same", d))
        elif r["act"] == "delete":
            continue
        else:
            want = (d["product"], r["out"]) if r["act"] == "version" else tuple(r["out"].split(":"))
            exp.append(("same", d) if want == (d["product"], d["version"]) else ("new", want))
    return exp


def remap_simple(rules):
    """Every product's rules are of one flavor and have distinct in-versions (`any`, `Any` and none count as one)."""
    by = {}
    for r in rules:
        by.setdefault(r["product"], []).append(r)
    for rs in by.values():
        if len(set(r["flavor"] for r in rs)) > 1:
            return False
        vs = ["any" if r["inV"] in (None, "any", "Any") else r["inV"] for r in rs]
        if len(vs) != len(set(vs)):
            return False
    return True


def remap_matches(exp, got):
    if len(exp) != len(got):
        return False
    for (k, e), g in zip(exp, got):
        if k == "same" and g != e:
            return False
        if k == "new" and ((g["product"], g["version"]) != e or g["tablefile"] is not None):
            return False
    return True


def oracle_dummy(c, io_):
    """The `dummy` branch, from the rules' meaning: a product is declared (version dummy) iff it was not declared before and
    some entry is changed by its rule into that product at version dummy.  Same preconditions as oracle_remap."""
    rules = [r for f in c["rules"] for r in f]
    if "known" not in c or c["adds"] or not remap_simple(rules) or "declared" not in io_:
        return
    exp = set()
    for kind, e in remap_expected(c, rules, True):
        # (Eups.declare refuses names outside [a-zA-Z_0-9]; remapEntries prints the exception and goes on)
        if kind == "new" and e[1] == "dummy" and e[0] not in c["known"] and re.match(r"^[a-zA-Z_0-9]*$", e[0]):
            exp.add(e[0])
    if sorted([n, "dummy"] for n in exp) != io_["declared"]:
        yield ("remap_declares_exactly_the_missing_dummy_products", None,
               "expected %r declared at version dummy, found %r (already declared: %r)" % (sorted(exp), io_["declared"], c["known"]))


def oracle_remap(c, io_):
    for x in oracle_dummy(c, io_):
        yield x
    """Entries no rule names stay untouched and in place; an entry named by a rule is replaced, renamed or deleted as
    the rule says (the rule for the entry's own version before the rule for `any`).  Evaluated when the rules of each
    product are of one flavor and have distinct in-versions (other tables are left to the correspondence with the
    model) and the Mapping argument is empty."""
    rules = [r for f in c["rules"] for r in f]
    if c["adds"] or not remap_simple(rules):
        return
    if "deps" not in io_:
        yield ("remap_runs", None, "remapEntries raised %s" % io_.get("error"))
        return
    got = io_["deps"]
    if remap_matches(remap_expected(c, rules, True), got):
        return
    # the class of D24: a rule prefixed with another mode names the entry, and applying it anyway explains the output
    cls = "D24" if remap_matches(remap_expected(c, rules, False), got) else None
    exp = remap_expected(c, rules, True)
    yield ("remap_exactly_the_named_entries", cls,
           "expected %r, got %r" % ([(k, e if k == "new" else (e["product"], e["version"])) for k, e in exp][:8],
                                    [(g["product"], g["version"]) for g in got][:8]))


def flavor_filter(rel, reader):
    """What a reader of flavor `reader` is to get of a written release: the entries of that flavor or `generic`."""
    listflavor = rel["defFlavor"] or "generic"
    reader = reader or "generic"
    order, info = [], {}
    for a in rel["adds"]:
        if a["product"] not in order:
            order.append(a["product"])
        info[a["product"]] = [a["flavor"] if a["flavor"] is not None else listflavor, a["version"]] + list(a["extra"])
    out = {}
    for p in order:
        fl = rel["writeFlavor"] if rel["writeFlavor"] is not None else info[p][0]
        if fl == "generic":
            fl = reader
        if fl == reader:
            out[p] = [p, fl] + info[p][1:]
    return out


def oracle_server(c, io_):
    """Every answer is the per-flavor filter of the written release, whatever was asked before."""
    for r in c["releases"].values():
        if not clean_taglist({"adds": r["adds"]}):
            return
    for i, (q, a) in enumerate(zip(c["reqs"], io_["answers"])):
        rel = c["releases"].get(q["tag"])
        if rel is None:
            if a.get("error") != "notfound":
                yield ("server_unknown_tag", None, "request %d: tag %r is not on the server, answer %r" % (i, q["tag"], a))
            continue
        exp = flavor_filter(rel, q["flavor"])
        before = [x["flavor"] for x in c["reqs"][:i] if x["tag"] == q["tag"]]
        if q["op"] == "list":
            got = a.get("products")
            if got is None or sorted(map(tuple, got)) != sorted(map(tuple, exp.values())):
                yield ("server_answer_is_flavor_filter", None,
                       "request %d: list %s for flavor %r after requests for %r: expected %r, got %r" %
                       (i, q["tag"], q["flavor"], before, sorted(exp.values())[:5], a))
        elif q["op"] == "info":
            if a.get("info", "missing") != exp.get(q["product"]):
                yield ("server_answer_is_flavor_filter", None,
                       "request %d: info %s %s for flavor %r after requests for %r: expected %r, got %r" %
                       (i, q["tag"], q["product"], q["flavor"], before, exp.get(q["product"]), a))
        else:
            want = [q["tag"]] if q["product"] in exp and exp[q["product"]][2] == q["version"] else []
            if a.get("tags") != want:
                yield ("server_answer_is_flavor_filter", None,
                       "request %d: tags of %s %s for flavor %r after requests for %r: expected %r, got %r" %
                       (i, q["product"], q["version"], q["flavor"], before, want, a))


ORACLES = {"manifest": oracle_manifest, "taglist": oracle_taglist, "mapping": oracle_mapping, "remap": oracle_remap,
           "server": oracle_server, "mapseq": oracle_mapseq, "tagseq": oracle_tagseq, "manseq": oracle_manseq, "srvfile": oracle_srvfile, "createdeps": oracle_createdeps, "distwrite": oracle_distwrite}


# ---- model -----------------------------------------------------------------------------------------

def model_requests(c, io_):
    k = c["kind"]
    if k == "manifest":
        reqs = [{"m": "c18", "op": "mwrite", "product": c["product"], "version": c["version"], "deps": c["deps"],
                 "noOptional": c["noOptional"], "flavor": c["flavor"], "native": NATIVE, "pinned": False}]
        if "raw" in io_:
            reqs.append({"m": "c18", "op": "mread", "text": io_["raw"], "recurse": bool(c["recurse"]), "pinned": False})
        return reqs
    if k == "taglist":
        base = {"m": "c18", "tag": c["tag"], "defFlavor": c["defFlavor"]}
        reqs = [dict(base, op="twrite", adds=c["adds"], flavor=c["writeFlavor"])]
        if "raw" in io_:
            reqs.append({"m": "c18", "op": "tread", "tag": c.get("readTag", c["tag"]), "defFlavor": c["readFlavor"], "adds": [], "text": io_["raw"]})
        return reqs
    if k == "server":
        return [{"m": "c18", "op": "server", "files": io_["files"], "reqs": c["reqs"], "byTagOnly": False}]
    if k == "mapping":
        return [{"m": "c18", "op": "mapping", "adds": c["adds"], "queries": c["queries"]}]
    if k == "mapseq":
        return [{"m": "c18", "op": "mapseq", "ops": c["ops"]}]
    if k == "distwrite":
        top_id = None
        for x in io_.get("deps", []):
            if x["product"] == "top":
                top_id = x["distId"]
        deps = [dict(x, distId=top_id) if x["product"] == "top" else x for x in c["deps"]]
        return [{"m": "c18", "op": "dwrite", "product": "top", "version": "1.0", "deps": deps, "flavor": c["flavor"],
                 "native": c["flavor"], "writer": "tarball" if c["type"] == "tarball" else "default"}]
    if k == "createdeps":
        return [{"m": "c18", "op": "createdeps", "top": c["products"][0]["name"], "topVersion": "1", "deps": io_.get("deps", [])}]
    if k == "srvfile":
        return [{"m": "c18", "op": "srvfile", "server": c["server"], "reqs": c["reqs"], "pinned": False}]
    if k == "manseq":
        return [{"m": "c18", "op": "manseq", "product": c["product"], "version": c["version"], "native": NATIVE, "ops": c["ops"]}]
    if k == "tagseq":
        return [{"m": "c18", "op": "tagseq", "tag": c["tag"], "flavorA": c["flavorA"], "flavorB": c["flavorB"], "ops": c["ops"]}]
    if k == "remap":
        return [{"m": "c18", "op": "remap", "adds": c["adds"], "files": c["files"], "mode": c["mode"], "flavor": NATIVE,
                 "deps": c["deps"], "pinned": False, "known": c.get("known", [])}]
    raise ValueError(k)


def model_output(c, io_, answers):
    k = c["kind"]
    if any("bad-op" in a for a in answers):
        return {"bad-op": [a.get("bad-op") for a in answers]}
    if k == "manifest":
        out = {"text": answers[0]["text"]}
        if len(answers) > 1:
            out["read"] = answers[1]
        return out
    if k == "taglist":
        out = {"products": answers[0]["products"], "text": answers[0]["text"]}
        if len(answers) > 1:
            out["read"] = answers[1]
        return out
    if k in ("mapping", "mapseq", "tagseq", "manseq", "srvfile"):
        return answers[0]
    if k == "createdeps":
        return dict(answers[0], deps=io_.get("deps", []))
    if k == "distwrite":
        a = answers[0]
        return {"deps": a["deps"]} if "deps" in a else {"error": a.get("error")}
    if k == "server":
        return {"answers": answers[0]["answers"]}
    a = answers[0]
    if "declared" in a:
        # the stack is listed by name afterwards, not in declaration order
        a = dict(a, declared=sorted([n, "dummy"] for n in a["declared"]))
    return a if "error" not in a else {"error": a["error"]}


def impl_view(c, io_):
    """The implementation's observables in the model's shape."""
    k = c["kind"]
    if k in ("manifest", "taglist"):
        return {x: io_[x] for x in io_ if x != "raw"}
    if k == "server":
        return {"answers": io_["answers"]}
    if k == "distwrite":
        return {"deps": io_["deps"]} if "deps" in io_ else {"error": io_.get("error")}
    if k == "remap" and "error" in io_:
        return {"error": "parse"} if io_["error"] in ("EXC:AttributeError",) else io_
    return io_


# ---- evaluation ------------------------------------------------------------------------------------

NW = 4

MIRRORS = [("python/eups/distrib/server.py", "*"), ("python/eups/distrib/Distrib.py", "Distrib.writeManifest"),
           ("python/eups/distrib/Distrib.py", "DefaultDistrib.writeTaggedRelease"),
           ("python/eups/distrib/Distrib.py", "Distrib.createDependencies"), ("python/eups/distrib/Distrib.py", "Distrib._createDeps"),
           ("python/eups/distrib/Distrib.py", "DefaultDistrib.writeManifest"), ("python/eups/distrib/Distrib.py", "DefaultDistrib.updateDependencies"),
           ("python/eups/distrib/tarball.py", "Distrib.writeManifest"), ("python/eups/distrib/Repository.py", "Repository.create")]


def nontrivial(c, io_):
    k = c["kind"]
    if k == "manifest":
        return bool(c["deps"])
    if k == "taglist":
        return bool(c["adds"])
    if k == "server":
        # at least two different flavors asked of one tag whose release holds entries of more than one flavor
        for tag, r in c["releases"].items():
            if len(set(a["flavor"] or r["defFlavor"] or "generic" for a in r["adds"])) > 1 and \
                    len(set(q["flavor"] for q in c["reqs"] if q["tag"] == tag)) > 1:
                return True
        return False
    if k == "mapping":
        return any(list(r) != q[:2] for q, r in zip(c["queries"], io_.get("applied", [])))
    if k == "distwrite":
        return len(c["deps"]) > 1
    if k == "createdeps":
        return len(io_.get("order", [])) > 1
    if k == "srvfile":
        return len(c["reqs"]) > 1
    if k == "manseq":
        return len(io_.get("out", [])) > 1
    if k == "tagseq":
        return any(isinstance(r, dict) and (r.get("other") or r.get("read")) for r in io_.get("out", []))
    if k == "mapseq":
        return any(isinstance(r, dict) and isinstance(r.get("inverse"), dict) and r["inverse"]["checks"] for r in io_.get("out", []))
    return "deps" in io_ and io_["deps"] != c["deps"]


def evaluate(ctx, cases):
    chunks = [cases[i::NW] for i in range(NW)]
    outs = parallel_map(run_chunk, chunks, workers=NW)
    impl = [None] * len(cases)
    for k, ch in enumerate(outs):
        for j, v in enumerate(ch):
            impl[k + j * NW] = v
    reqs, spans = [], []
    for c, io_ in zip(cases, impl):
        r = model_requests(c, io_)
        spans.append((len(reqs), len(r)))
        reqs += r
    answers = ctx.lean.ask_many(reqs)
    for c, io_, (s, n) in zip(cases, impl, spans):
        kind = c["kind"]
        mo = model_output(c, io_, answers[s:s + n])
        iv = impl_view(c, io_)
        ctx.hist("kind=" + kind)
        if kind == "manifest":
            ctx.hist("manifest:n=%s" % ("0" if not c["deps"] else "1-5" if len(c["deps"]) < 6 else "6-30"))
            ctx.hist("manifest:%s" % ("clean" if clean_manifest(c) else "dirty"))
            if isinstance(io_.get("read"), dict) and "error" in io_["read"]:
                ctx.hist("manifest:read-error=" + io_["read"]["error"])
            if c["flavor"]:
                ctx.hist("manifest:flavor-argument")
            if len(set(d["flavor"] for d in c["deps"])) > 1:
                ctx.hist("manifest:mixed-flavors")
        elif kind == "taglist":
            ctx.hist("taglist:%s" % ("clean" if clean_taglist(c) else "dirty"))
            if c["tag"] in ODD_TAGS:
                ctx.hist("taglist:odd-tag")
            if "readTag" in c:
                ctx.hist("taglist:reader-expects-another-tag")
        elif kind == "distwrite":
            ctx.hist("distwrite:type=%s" % c["type"])
            if len(set(x["flavor"] for x in c["deps"])) > 1 and "deps" in io_:
                ctx.hist("distwrite:mixed-flavors-through-%s-writer" % ("tarball" if c["type"] == "tarball" else "default"))
        elif kind == "createdeps":
            if len(io_.get("order", [])) >= 3:
                ctx.hist("createdeps:three-or-more-products-listed")
        elif kind == "srvfile":
            seen = {}
            for path, dest in c["reqs"]:
                if dest in seen and seen[dest] != path:
                    ctx.hist("srvfile:destination-reused-for-another-source")
                    break
                seen[dest] = path
        elif kind == "manseq":
            for o, r in zip(c["ops"], io_["out"]):
                if o["op"] in ("roll", "reverse") and isinstance(r, dict) and len(r.get("deps", [])) > 1:
                    ctx.hist("manseq:order-changed")
                if o["op"] == "roundtrip" and o["into"] == "live" and isinstance(r, dict) and "read" in r:
                    ctx.hist("manseq:read-into-live-manifest")
                if o["op"] == "getdep" and r is not None:
                    ctx.hist("manseq:getdep-found")
        elif kind == "tagseq":
            for o, r in zip(c["ops"], io_["out"]):
                if o["op"] == "merge" and r["other"]:
                    ctx.hist("tagseq:merge-of-a-non-empty-list")
                if o["op"] == "roundtrip" and o["into"] == "B" and isinstance(r, dict) and r.get("before") and r.get("read") != r.get("before"):
                    ctx.hist("tagseq:read-into-a-live-list-changes-it")
        elif kind == "mapseq":
            ctx.hist("mapseq:%s" % c["style"])
            invs = [r for o, r in zip(c["ops"], io_["out"]) if o["op"] == "inverse"]
            ctx.hist("mapseq:inverse-taken", len(invs))
            seen_merge = False
            n_after = 0
            for o, r in zip(c["ops"], io_["out"]):
                if o["op"] == "merge" and o["adds"]:
                    seen_merge = True
                elif o["op"] == "inverse" and seen_merge and isinstance(r["inverse"], dict) and \
                        any(ch[4] is not None and ch[3] != [ch[1], ch[2]] for ch in r["inverse"]["checks"]):
                    n_after += 1
            if n_after and isinstance(invs[0]["inverse"], dict):
                ctx.hist("mapseq:inverse-again-after-merge")
        elif kind == "mapping":
            ctx.hist("mapping:%s" % c["style"])
            ctx.hist("mapping:inverse=%s" % ("ok" if isinstance(io_["inverse"], dict) else io_["inverse"]))
        elif kind == "remap":
            ctx.hist("remap:mode=%s" % c["mode"])
            if "earlier" in c:
                ctx.hist("remap:after-an-earlier-call-without-mapping-argument")
            if "known" in c:
                ctx.hist("remap:dummy-case")
                if io_.get("declared"):
                    ctx.hist("remap:dummy-declared")
        elif kind == "server":
            ctx.hist("server:requests", len(c["reqs"]))
            if nontrivial(c, io_):
                ctx.hist("server:mixed-flavors-several-readers")
        if jnorm(mo) != jnorm(iv):
            obs = kind
            if isinstance(mo, dict) and isinstance(iv, dict):
                for key in sorted(set(mo) | set(iv)):
                    if jnorm(mo.get(key)) != jnorm(iv.get(key)):
                        obs = "%s.%s" % (kind, key)
                        break
            ctx.disagree(obs, c, iv, mo)
        for clause, cls, detail in ORACLES[kind](c, io_):
            ctx.fail(clause, c, iv, mo, note=detail, finding=cls)
        ctx.case(key=c, nontrivial=nontrivial(c, io_), sample={"input": c, "impl": iv} if ctx.evaluations % 997 == 0 else None)


def jnorm(x):
    return json.loads(json.dumps(x))


def corpus_cases():
    d = os.path.join(common.VERIF, "corpus", "C18")
    out = []
    if os.path.isdir(d):
        for f in sorted(os.listdir(d)):
            if f.endswith(".json"):
                with open(os.path.join(d, f)) as fh:
                    out.append(json.load(fh))
    return out


GEN = {"manifest": gen_manifest, "taglist": gen_taglist, "mapping": gen_mapping, "remap": gen_remap, "server": gen_server,
       "mapseq": gen_mapseq, "tagseq": gen_tagseq, "manseq": gen_manseq, "srvfile": gen_srvfile, "createdeps": gen_createdeps, "distwrite": gen_distwrite}


def enum_mappings():
    """Every table of one or two rules over 2 products x {1.0, any} x {replace, rename onto the other product, delete}
    in the generic or the native flavor, queried with every product x {1.0, 2.0} x {generic, native}."""
    import itertools
    prods = ["a", "b"]
    rules = []
    for p, v, act, fl in itertools.product(prods, ["1.0", "any"], ["replace", "rename", "delete"], ["generic", NATIVE]):
        other = "b" if p == "a" else "a"
        outp, outv = (None, "3.0") if act == "replace" else (other, "1.0") if act == "rename" else (None, None)
        rules.append({"inP": p, "inV": v, "outP": outp, "outV": outv, "flavor": fl, "overwrite": True})
    queries = [[p, v, f] for p in prods for v in ("1.0", "2.0") for f in ("generic", NATIVE)]
    out = [{"kind": "mapping", "style": "free", "adds": [r], "queries": queries} for r in rules]
    out += [{"kind": "mapping", "style": "free", "adds": [r1, r2], "queries": queries}
            for r1, r2 in itertools.product(rules, repeat=2) if r1 is not r2]
    return out


QUICK = [("manifest", 2000, 500), ("taglist", 1000, 500), ("mapping", 1200, 400), ("mapseq", 1000, 500), ("tagseq", 800, 400),
         ("manseq", 600, 300), ("srvfile", 600, 300), ("createdeps", 32, 16), ("distwrite", 60, 20), ("remap", 1300, 450), ("server", 800, 400)]
THOROUGH = [("manifest", 60000, 600), ("taglist", 30000, 600), ("mapping", 40000, 600), ("mapseq", 30000, 600), ("tagseq", 30000, 600), ("manseq", 30000, 600), ("srvfile", 20000, 600), ("createdeps", 2000, 48), ("distwrite", 2000, 40),
            ("remap", 40000, 600), ("server", 25000, 600)]


def run_stream(ctx, budget):
    """Round-robin over the case classes: every class gets a slice per round, so that a time limit starves none of them."""
    done = {k: 0 for k, _, _ in budget}
    while not ctx.out_of_time() and any(done[k] < n for k, n, _ in budget):
        for kind, n, batch in budget:
            if done[kind] >= n or ctx.out_of_time():
                continue
            k = min(batch, n - done[kind])
            evaluate(ctx, [GEN[kind](ctx.rng) for _ in range(k)])
            done[kind] += k


def check_floors(ctx):
    h = ctx.histogram
    if h.get("manifest:clean", 0) < 0.5 * max(1, h.get("kind=manifest", 0)):
        raise common.InfraError("degenerate distribution: %d clean manifests" % h.get("manifest:clean", 0))
    if h.get("server:mixed-flavors-several-readers", 0) < 0.5 * max(1, h.get("kind=server", 0)):
        raise common.InfraError("degenerate distribution: %d server histories asking several flavors of a mixed-flavor release"
                                % h.get("server:mixed-flavors-several-readers", 0))
    if h.get("mapseq:inverse-again-after-merge", 0) < 100:
        raise common.InfraError("degenerate distribution: inverse() taken, rules merged in, inverse() taken again with entries "
                                "to undo: %d sequences" % h.get("mapseq:inverse-again-after-merge", 0))
    if h.get("tagseq:merge-of-a-non-empty-list", 0) < 100 or h.get("tagseq:read-into-a-live-list-changes-it", 0) < 50:
        raise common.InfraError("degenerate distribution: tag-list sequences: %d merges of a non-empty list, %d reads into a live list "
                                "that change it" % (h.get("tagseq:merge-of-a-non-empty-list", 0),
                                                    h.get("tagseq:read-into-a-live-list-changes-it", 0)))
    if h.get("manseq:order-changed", 0) < 100 or h.get("manseq:read-into-live-manifest", 0) < 30 or h.get("manseq:getdep-found", 0) < 30:
        raise common.InfraError("degenerate distribution: manifest sequences: %d reorderings, %d reads into the live manifest, %d "
                                "getDependency hits" % (h.get("manseq:order-changed", 0), h.get("manseq:read-into-live-manifest", 0),
                                                        h.get("manseq:getdep-found", 0)))
    if h.get("distwrite:mixed-flavors-through-tarball-writer", 0) < 8 or h.get("distwrite:mixed-flavors-through-default-writer", 0) < 8:
        raise common.InfraError("degenerate distribution: mixed-flavor manifests through Repository.create: %d by the tarball writer, "
                                "%d by the writers that forward flavor=" % (h.get("distwrite:mixed-flavors-through-tarball-writer", 0),
                                                                           h.get("distwrite:mixed-flavors-through-default-writer", 0)))
    if h.get("createdeps:three-or-more-products-listed", 0) < 6:
        raise common.InfraError("degenerate distribution: %d dependency manifests with three or more products"
                                % h.get("createdeps:three-or-more-products-listed", 0))
    if h.get("srvfile:destination-reused-for-another-source", 0) < 100:
        raise common.InfraError("degenerate distribution: %d server-file histories reuse a destination for another source"
                                % h.get("srvfile:destination-reused-for-another-source", 0))
    if h.get("remap:after-an-earlier-call-without-mapping-argument", 0) < 60:
        raise common.InfraError("degenerate distribution: %d remap cases preceded by an earlier call without a mapping argument"
                                % h.get("remap:after-an-earlier-call-without-mapping-argument", 0))
    if h.get("remap:dummy-declared", 0) < 15:
        raise common.InfraError("degenerate distribution: the dummy branch of remapEntries declared a product in %d cases"
                                % h.get("remap:dummy-declared", 0))
    if h.get("taglist:odd-tag", 0) < 50:
        raise common.InfraError("degenerate distribution: %d tag lists whose tag holds a regular-expression metacharacter"
                                % h.get("taglist:odd-tag", 0))
    if h.get("manifest:mixed-flavors", 0) < 0.3 * max(1, h.get("kind=manifest", 0)):
        raise common.InfraError("degenerate distribution: %d manifests with mixed flavors" % h.get("manifest:mixed-flavors", 0))


def run(ctx):
    """The ordinary quick portion first and completely - corpus, the enumerated mappings, the generated stream of every
    class, the distribution floors - and only then whatever the thorough tier (or an escalated quick run) adds."""
    cases = corpus_cases()
    ctx.hist("corpus", len(cases))
    evaluate(ctx, cases)
    en = enum_mappings()
    ctx.hist("enumerated-mappings", len(en))
    evaluate(ctx, en)
    run_stream(ctx, QUICK)
    check_floors(ctx)
    if ctx.tier == "thorough" or ctx.escalated:
        run_stream(ctx, [(k, n - dict((a, b) for a, b, _ in QUICK)[k], batch) for k, n, batch in THOROUGH])


def replay(ctx, rp):
    c = rp["input"]
    before = (len(ctx.failures), len(ctx.disagreements))
    evaluate(ctx, [c])
    fails = [{"clause": f["clause"], "note": f["note"], "class": f["finding_class"]} for f in ctx.failures[before[0]:]]
    dis = [{"observable": d["observable"], "impl": d["impl_output"], "model": d["model_output"]}
           for d in ctx.disagreements[before[1]:]]
    impl = ctx.failures[before[0]]["impl_output"] if fails else (dis[0]["impl"] if dis else None)
    model = ctx.failures[before[0]]["model_output"] if fails else (dis[0]["model"] if dis else None)
    return {"input": c, "impl_output": impl, "model_output": model, "agree": not dis, "disagreements": dis, "fails": fails}


def gen_case(rng, kind):
    return GEN[kind](rng)
